"""C15 — exactly the handlers whose declared criteria hold are invoked; unmatched objects stay untouched.

Layers:
 * proof layer: coq/Props/C15.v over coq/Model/Match.v (match / prematch / get_handlers / _deduplicated);
 * D-tie: the model is evaluated on the same (handler declarations, cause) as the REAL decorators of kopf/on.py +
   registry._changing/_watching/_spawning/_indexing.get_handlers(), ChangingRegistry.prematch, requires_finalizer,
   registries.match/prematch (incl. the TypeError/AttributeError on malformed metadata), and the constants each decorator fixes;
 * monitors: `spec_*` below is the harness's own reading of docs/filters.rst (NOT kopf's code, NOT the model):
   selected ids == ids whose documented criteria hold ("selected-set"), in-scope == some handler's filters hold ("scope"),
   and end to end through process_resource_event with a recording API: unmatched objects get no server write that adds an
   annotation or a finalizer ("stealth"), matched fresh objects get exactly the expected handlers called ("invoked").
"""
from __future__ import annotations

import asyncio
import copy
import itertools
import json
import logging
from typing import Any, Callable, Iterable

from kv import canon, coqio as cq, framework as fw

RULE = ('cases = (handler declarations through the real decorators x cause/object state); evaluations = model cases evaluated in Coq + (declaration, state) pairs judged by the monitor; bounded-exhaustive over the criteria '
        'alphabet of DESIGN §8 C15 (stratified in quick) plus random larger registries; a (declaration, state) pair is '
        'non-trivial iff the declaration has >= 1 criterion and its verdict differs from the verdict of the criteria-free '
        'declaration of the same kind on the same state, or from its own verdict on another state of the sweep; distinct by '
        '(declaration, state) after canonicalisation')

HEADER = fw.STD_HEADER + '''From KV Require Import Base.Dicts Model.Match Model.MatchCycle.
Definition kv_attrs (h : hdecl) :=
  (h_id h, (h_class h, (h_reason h, (h_initial h, (h_deleted h, (h_requires_finalizer h, h_needs_change h)))))).
Definition kv_hclass_eqb (a b : hclass) : bool :=
  match a, b with HChanging, HChanging | HWatching, HWatching | HSpawning, HSpawning | HIndexing, HIndexing => true | _, _ => false end.
Definition kv_attrs_eqb (h : hdecl) (id : string) (cls : hclass) (rsn : option reason) (ini del fin nc : bool) : bool :=
  String.eqb (h_id h) id && kv_hclass_eqb (h_class h) cls && opt_eqb reason_eqb (h_reason h) rsn
  && Bool.eqb (h_initial h) ini && Bool.eqb (h_deleted h) del && Bool.eqb (h_requires_finalizer h) fin
  && Bool.eqb (h_needs_change h) nc.
'''

# --------------------------------------------------------------------------------------------------
# Declarations, states: plain JSON-able dicts
# --------------------------------------------------------------------------------------------------
CHANGING_KINDS = ('resume', 'resume_del', 'create', 'update', 'delete', 'delete_opt', 'field')
UPDATE_KINDS = ('update', 'field')           # the decorators which accept old=/new= and require "the field changed"
KIND_CLASS = {**{k: 'changing' for k in CHANGING_KINDS}, 'event': 'watching', 'daemon': 'spawning', 'timer': 'spawning',
              'index': 'indexing', 'sub': 'changing'}
HANDLER_REASONS = ('create', 'update', 'delete', 'resume')
ALL_REASONS = HANDLER_REASONS + ('noop', 'free', 'gone')

RES_KEX = {'group': 'kopf.dev', 'version': 'v1', 'plural': 'kopfexamples', 'kind': 'KopfExample', 'singular': 'kopfexample',
           'shortcuts': ['kex'], 'categories': ['all'], 'preferred': True}
RES_OTHER = {'group': 'example.com', 'version': 'v2', 'plural': 'widgets', 'kind': 'Widget', 'singular': 'widget',
             'shortcuts': ['wd'], 'categories': ['all', 'things'], 'preferred': False}
SEL_KEX = ['any', 'kopfexamples']


def decl(kind: str, id: str, fn: int, *, sel: list | None = None, labels: dict | None = None, annotations: dict | None = None,
         when: Any = None, field: str | None = None, value: Any = None, old: Any = None, new: Any = None) -> dict:
    return {'kind': kind, 'id': id, 'fn': fn, 'sel': sel or SEL_KEX, 'labels': labels or {}, 'annotations': annotations or {},
            'when': when, 'field': field, 'value': value, 'old': old, 'new': new}


def n_criteria(d: dict) -> int:
    return (len(d['labels']) + len(d['annotations']) + (d['when'] is not None) + (d['field'] is not None)
            + (d['value'] is not None) + (d['old'] is not None) + (d['new'] is not None))


def real_id(d: dict) -> str:
    """The id as documented: the field name is part of the handler id ("fn/spec.field"); not for indices."""
    if d['kind'] == 'sub':          # "create/task_abc": the parent's id is the prefix; the field is not part of it
        return f"{d['parent_id']}/{d['id']}"
    return d['id'] if d['kind'] == 'index' or not d['field'] else f"{d['id']}/{d['field']}"


def is_update_kind(d: dict) -> bool:
    """@on.update / @on.field, and the sub-handlers declared inside them (they are part of the update's reaction)."""
    return d['kind'] in UPDATE_KINDS or (d['kind'] == 'sub' and d['parent_kind'] in UPDATE_KINDS)


# ---- callbacks: by name, identical meaning on the three sides (real python fn / Coq term / spec evaluator)
def _cb_real(spec: Any) -> Callable[..., bool]:
    if spec == 'is_none':
        return lambda v, **_: v is None
    if spec == 'not_none':
        return lambda v, **_: v is not None
    if spec == 'truthy':
        return lambda v, **_: bool(v)
    if spec == 'T':
        return lambda v, **_: True
    if spec == 'F':
        return lambda v, **_: False
    if isinstance(spec, list) and spec[0] == 'eq':
        x = spec[1]
        return lambda v, **_: _is_jsonlike(v) and v == x
    raise ValueError(spec)


def _is_jsonlike(v: Any) -> bool:
    return v is None or isinstance(v, (bool, int, str, list, dict)) or hasattr(v, 'items')


def _cb_coq(spec: Any) -> str:
    if spec == 'is_none':
        return 'cb_is_none'
    if spec == 'not_none':
        return 'cb_not_none'
    if spec == 'truthy':
        return 'cb_truthy'
    if spec == 'T':
        return '(cb_const true)'
    if spec == 'F':
        return '(cb_const false)'
    if isinstance(spec, list) and spec[0] == 'eq':
        return f'(cb_eq {cq.cjson(spec[1])})'
    raise ValueError(spec)


def _cb_spec(spec: Any, v: Any) -> bool:
    """Callback applied to a JSON-like python value (None for an absent one, as documented)."""
    if spec == 'is_none':
        return v is None
    if spec == 'not_none':
        return v is not None
    if spec == 'truthy':
        return bool(v)
    if spec == 'T':
        return True
    if spec == 'F':
        return False
    if isinstance(spec, list) and spec[0] == 'eq':
        return _is_jsonlike(v) and v == spec[1]
    raise ValueError(spec)


def _when_real(spec: Any) -> Callable[..., bool] | None:
    if spec is None:
        return None
    if spec == 'T':
        return lambda **_: True
    if spec == 'F':
        return lambda **_: False
    if isinstance(spec, list) and spec[0] == 'spec_eq':
        k, x = spec[1], spec[2]
        return lambda body, **_: isinstance(body.get('spec'), dict) and k in body['spec'] and body['spec'][k] == x
    raise ValueError(spec)


def _when_coq(spec: Any) -> str:
    if spec is None:
        return 'None'
    if spec == 'T':
        return '(Some (when_const true))'
    if spec == 'F':
        return '(Some (when_const false))'
    if isinstance(spec, list) and spec[0] == 'spec_eq':
        return f'(Some (when_spec_eq {cq.cstr(spec[1])} {cq.cjson(spec[2])}))'
    raise ValueError(spec)


def _when_spec(spec: Any, body: dict) -> bool:
    if spec is None or spec == 'T':
        return True
    if spec == 'F':
        return False
    if isinstance(spec, list) and spec[0] == 'spec_eq':
        s = body.get('spec')
        return isinstance(s, dict) and s.get(spec[1]) == spec[2] and spec[1] in s
    raise ValueError(spec)


# ---- criteria: None | ['val', x] | 'PRESENT' | 'ABSENT' | ['cb', cbspec]
def _crit_real(c: Any) -> Any:
    import kopf
    if c is None:
        return None
    if c == 'PRESENT':
        return kopf.PRESENT
    if c == 'ABSENT':
        return kopf.ABSENT
    if c[0] == 'val':
        return c[1]
    if c[0] == 'cb':
        return _cb_real(c[1])
    raise ValueError(c)


def _crit_coq(c: Any) -> str:
    if c is None:
        return 'CNone'
    if c == 'PRESENT':
        return 'CPresent'
    if c == 'ABSENT':
        return 'CAbsent'
    if c[0] == 'val':
        return f'(CVal {cq.cjson(c[1])})'
    if c[0] == 'cb':
        return f'(CCb {_cb_coq(c[1])})'
    raise ValueError(c)


def _sel_real(sel: list) -> tuple[tuple, dict]:
    t = sel[0]
    if t == 'any':
        return (sel[1],), {}
    if t == 'group_any':
        return (sel[1], sel[2]), {}
    if t == 'gv_any':
        return (sel[1], sel[2], sel[3]), {}
    if t in ('kind', 'plural', 'singular', 'shortcut', 'category'):
        return (), {t: sel[1]}
    raise ValueError(sel)


def _sel_coq(sel: list) -> str:
    t = sel[0]
    g, v = 'None', 'None'
    if t == 'any':
        n = f'SAny {cq.cstr(sel[1])}'
    elif t == 'group_any':
        g, n = f'(Some {cq.cstr(sel[1])})', f'SAny {cq.cstr(sel[2])}'
    elif t == 'gv_any':
        g, v, n = f'(Some {cq.cstr(sel[1])})', f'(Some {cq.cstr(sel[2])})', f'SAny {cq.cstr(sel[3])}'
    else:
        n = {'kind': 'SKind', 'plural': 'SPlural', 'singular': 'SSingular', 'shortcut': 'SShortcut',
             'category': 'SCategory'}[t] + ' ' + cq.cstr(sel[1])
    return f'{{| s_group := {g}; s_version := {v}; s_name := {n} |}}'


def _sel_spec(sel: list, res: dict) -> bool:
    """Exact matching as documented in docs/resources.rst: a name is any of kind/plural/singular/short name; group and
    version must agree when given; without a version only the preferred version of the group is served."""
    t = sel[0]
    names = {res['kind'], res['plural'], res['singular'], *res['shortcuts']}
    if t == 'any':
        return sel[1] in names and res['preferred']
    if t == 'group_any':
        return sel[1] == res['group'] and sel[2] in names and res['preferred']
    if t == 'gv_any':
        return sel[1] == res['group'] and sel[2] == res['version'] and sel[3] in names
    if t == 'category':
        return sel[1] in res['categories'] and res['preferred']
    if t == 'shortcut':
        return sel[1] in res['shortcuts'] and res['preferred']
    return sel[1] == res[t] and res['preferred']


def _res_real(res: dict) -> Any:
    from kopf._cogs.structs import references
    return references.Resource(group=res['group'], version=res['version'], plural=res['plural'], kind=res['kind'],
                               singular=res['singular'], shortcuts=frozenset(res['shortcuts']),
                               categories=frozenset(res['categories']), preferred=res['preferred'], namespaced=True,
                               subresources=frozenset(), verbs=frozenset(['list', 'watch', 'patch']))


def _res_coq(res: dict) -> str:
    return ('{| r_group := %s; r_version := %s; r_kind := %s; r_plural := %s; r_singular := %s; r_shortcuts := %s; '
            'r_categories := %s; r_preferred := %s |}') % (
        cq.cstr(res['group']), cq.cstr(res['version']), cq.cstr(res['kind']), cq.cstr(res['plural']), cq.cstr(res['singular']),
        cq.clist(cq.cstr(s) for s in res['shortcuts']), cq.clist(cq.cstr(s) for s in res['categories']),
        cq.cbool(res['preferred']))


DK_COQ = {'resume': '(DResume false)', 'resume_del': '(DResume true)', 'create': 'DCreate', 'update': 'DUpdate',
          'delete': '(DDelete false)', 'delete_opt': '(DDelete true)', 'field': 'DField', 'event': 'DEvent',
          'daemon': 'DDaemon', 'timer': 'DTimer', 'index': 'DIndex'}


def decl_coq(d: dict) -> str:
    fld = 'None' if d['field'] is None else f"(Some {cq.cpath(d['field'].split('.'))})"
    pat = lambda m: cq.clist(cq.cpair(cq.cstr(k), _crit_coq(v)) for k, v in m.items())
    return (f"(decorate {DK_COQ[d['kind']]} {cq.cstr(d['id'])} {cq.cnat(d['fn'])} {_sel_coq(d['sel'])} {pat(d['labels'])} "
            f"{pat(d['annotations'])} {_when_coq(d['when'])} {fld} {_crit_coq(d['value'])} {_crit_coq(d['old'])} "
            f"{_crit_coq(d['new'])})")


class Real:
    """A real kopf registry populated through the real decorators from declarations."""

    def __init__(self, decls: list[dict], recorder: list | None = None, fail_fns: Iterable[int] = (),
                 fn_override: dict[int, Callable] | None = None) -> None:
        import kopf
        from kopf._core.intents import registries
        self.registry = registries.OperatorRegistry()
        self.fns: dict[int, Callable] = {}
        self.decls = decls
        self.fail_fns = frozenset(fail_fns)
        self.fns.update(fn_override or {})
        for d in decls:
            fn = self.fns.get(d['fn'])
            if fn is None:
                fn = self.fns[d['fn']] = self._mkfn(d['fn'], recorder, d['fn'] in self.fail_fns)
            args, kw = _sel_real(d['sel'])
            kw = dict(kw, registry=self.registry, id=d['id'], when=_when_real(d['when']), field=d['field'],
                      value=_crit_real(d['value']),
                      labels={k: _crit_real(v) for k, v in d['labels'].items()} or None,
                      annotations={k: _crit_real(v) for k, v in d['annotations'].items()} or None)
            k = d['kind']
            if k in UPDATE_KINDS:
                kw.update(old=_crit_real(d['old']), new=_crit_real(d['new']))
            if k == 'resume':
                dec = kopf.on.resume(*args, **kw)
            elif k == 'resume_del':
                dec = kopf.on.resume(*args, deleted=True, **kw)
            elif k == 'create':
                dec = kopf.on.create(*args, **kw)
            elif k == 'update':
                dec = kopf.on.update(*args, **kw)
            elif k == 'delete':
                dec = kopf.on.delete(*args, **kw)
            elif k == 'delete_opt':
                dec = kopf.on.delete(*args, optional=True, **kw)
            elif k == 'field':
                dec = kopf.on.field(*args, **kw)
            elif k == 'event':
                dec = kopf.on.event(*args, **kw)
            elif k == 'daemon':
                dec = kopf.daemon(*args, **kw)
            elif k == 'timer':
                dec = kopf.timer(*args, interval=1000, **kw)
            elif k == 'index':
                dec = kopf.index(*args, **kw)
            else:
                raise ValueError(k)
            dec(fn)

    @staticmethod
    def _mkfn(i: int, recorder: list | None, failing: bool = False) -> Callable:
        async def handler_fn(**kwargs: Any) -> None:
            if recorder is not None:
                recorder.append((i, kwargs.get('reason'), kwargs.get('old'), kwargs.get('new'), 'event' in kwargs))
            if failing:
                import kopf
                raise kopf.TemporaryError('scripted failure', delay=5)
        handler_fn.__name__ = handler_fn.__qualname__ = f'fn{i}'
        return handler_fn

    def sub(self, cls: str) -> Any:
        return {'changing': self.registry._changing, 'watching': self.registry._watching,
                'spawning': self.registry._spawning, 'indexing': self.registry._indexing}[cls]

    def handlers(self, cls: str) -> list:
        return list(self.sub(cls).get_all_handlers())


_LOGGER = logging.getLogger('kv.c15')


def cause_real(s: dict) -> Any:
    from kopf._cogs.structs import bodies, diffs, ephemera, patches
    from kopf._core.engines.indexing import OperatorIndexers
    from kopf._core.intents import causes
    common = dict(logger=_LOGGER, indices=OperatorIndexers().indices, memo=ephemera.Memo(), resource=_res_real(s['resource']),
                  patch=patches.Patch(), body=bodies.Body(s['body']))
    cls = s['cls']
    if cls == 'changing':
        return causes.ChangingCause(**common, initial=s['initial'], reason=causes.Reason(s['reason']), diff=diffs.EMPTY,
                                    old=s['old'], new=s['new'])
    if cls == 'watching':
        return causes.WatchingCause(**common, type=None, event={'type': None, 'object': s['body']})
    if cls == 'spawning':
        return causes.SpawningCause(**common, reset=False)
    if cls == 'indexing':
        return causes.IndexingCause(**common)
    raise ValueError(cls)


def cause_coq(s: dict) -> str:
    cls = {'changing': 'CChanging', 'watching': 'CWatching', 'spawning': 'CSpawning', 'indexing': 'CIndexing'}[s['cls']]
    rsn = 'R' + s.get('reason', 'noop').capitalize()
    o = lambda v: 'None' if v is None else f'(Some {cq.cjson(v)})'
    return (f"{{| c_class := {cls}; c_resource := {_res_coq(s['resource'])}; c_body := {cq.cjson(s['body'])}; "
            f"c_old := {o(s.get('old'))}; c_new := {o(s.get('new'))}; c_reason := {rsn}; "
            f"c_initial := {cq.cbool(bool(s.get('initial')))} |}}")


def state(cls: str, body: dict, *, reason: str = 'noop', initial: bool = False, old: Any = None, new: Any = None,
          resource: dict | None = None) -> dict:
    return {'cls': cls, 'body': body, 'reason': reason, 'initial': initial, 'old': old, 'new': new,
            'resource': resource or RES_KEX}


def rids_coq(kind: str, ids: list[str] | None) -> str:
    return canon.cres(kind, cq.clist(cq.cstr(i) for i in ids) if ids is not None else None)


def rbool_coq(kind: str, b: bool | None) -> str:
    return canon.cres(kind, cq.cbool(bool(b)) if kind == 'ok' else None)


# --------------------------------------------------------------------------------------------------
# The harness's own reading of docs/filters.rst (independent of kopf's code and of the model)
# --------------------------------------------------------------------------------------------------
ABSENT = object()       # "the field / label is not there"; never handed to a callback: the docs promise None


def _lookup(obj: Any, dotted: str) -> Any:
    cur = obj
    for part in dotted.split('.'):
        if not isinstance(cur, dict) or part not in cur:
            return ABSENT
        cur = cur[part]
    return cur


def spec_value(c: Any, v: Any, unspecified: bool) -> bool:
    """One value criterion on one (possibly absent) value.  `unspecified` is the verdict for a criterion not given.
    Values are compared as Python compares JSON values (the docs speak of "Python literals")."""
    if c is None:
        return unspecified
    if c == 'PRESENT':                       # "has ... with any value"
        return v is not ABSENT
    if c == 'ABSENT':                        # "has no ... with that name"
        return v is ABSENT
    if c[0] == 'val':                        # "has a specific value"
        return v is not ABSENT and v == c[1]
    if c[0] == 'cb':                         # "The passed value will be None if the value is absent in the resource."
        return _cb_spec(c[1], None if v is ABSENT else v)
    raise ValueError(c)


def spec_meta(pattern: dict, content: Any) -> bool:
    content = content if isinstance(content, dict) else {}
    return all(spec_value(c, content.get(k, ABSENT), True) for k, c in pattern.items())


def spec_static(d: dict, s: dict, old_counts: bool = False) -> bool:
    """The filters of a declaration which describe the object (not the transition): selector, labels, annotations,
    field/value, when.  Multiple criteria are joined with AND."""
    body = s['body']
    meta = body.get('metadata') if isinstance(body.get('metadata'), dict) else {}
    if not _sel_spec(d['sel'], s['resource']):
        return False
    if not spec_meta(d['labels'], meta.get('labels')) or not spec_meta(d['annotations'], meta.get('annotations')):
        return False
    if d['field'] is not None:
        # "When the value= filter is not specified, but the field= filter is, it is equivalent to value=kopf.PRESENT"
        vc = d['value'] if d['value'] is not None else 'PRESENT'
        if is_update_kind(d) and s['cls'] == 'changing':
            # "The value= filter applies to either the old or the new value"
            old = _lookup(s['old'], d['field']) if s['old'] is not None else ABSENT
            new = _lookup(s['new'], d['field']) if s['new'] is not None else ABSENT
            if not (spec_value(vc, old, True) or spec_value(vc, new, True)):
                return False
        else:
            # "For all other handlers ... check the resource in its current ---and only--- state."
            ok = spec_value(vc, _lookup(body, d['field']), True)
            if old_counts and s['cls'] == 'changing':     # NOT the docs: the twist of finding F15a
                old = _lookup(s['old'], d['field']) if s['old'] is not None else ABSENT
                ok = ok or spec_value(vc, old, True)
            if not ok:
                return False
    return _when_spec(d['when'], body)


def spec_transition(d: dict, s: dict) -> bool:
    """Update handlers (@on.update, @on.field) with a field: the field is affected in any way (changed, added, removed),
    and old=/new= are checked separately, an unspecified part is not checked."""
    if not is_update_kind(d) or d['field'] is None or s['cls'] != 'changing':
        return True
    old = _lookup(s['old'], d['field']) if s['old'] is not None else ABSENT
    new = _lookup(s['new'], d['field']) if s['new'] is not None else ABSENT
    affected = (old is ABSENT) != (new is ABSENT) or (old is not ABSENT and old != new)
    return affected and spec_value(d['old'], old, True) and spec_value(d['new'], new, True)


def spec_deleting(body: dict) -> bool:
    meta = body.get('metadata') if isinstance(body.get('metadata'), dict) else {}
    return meta.get('deletionTimestamp') is not None


def spec_kind(d: dict, s: dict) -> bool:
    """Which cause a declaration of this kind reacts to (docs/handlers.rst)."""
    k = d['kind']
    if KIND_CLASS[k] != s['cls']:
        return False
    if s['cls'] != 'changing':
        return True
    if k in ('resume', 'resume_del'):
        # resuming handlers are mixed into whatever happens to a not-yet-resumed object;
        # not for objects being deleted unless deleted=True
        return s['initial'] and (k == 'resume_del' or not spec_deleting(s['body']))
    if k in ('field', 'sub'):       # a sub-handler runs whenever its parent does
        return True
    return {'create': 'create', 'update': 'update', 'delete': 'delete', 'delete_opt': 'delete'}[k] == s['reason']


def spec_selected(decls: list[dict], s: dict, excluded: Iterable[str] = (), old_counts: bool = False) -> list[str]:
    out: list[str] = []
    seen: set[tuple[int, str]] = set()
    for d in decls:
        rid = real_id(d)
        if (rid in excluded or not spec_kind(d, s) or not spec_static(d, s, old_counts)
                or not spec_transition(d, s)):
            continue
        if (d['fn'], rid) in seen:          # one function registered twice under the same id is invoked once
            continue
        seen.add((d['fn'], rid))
        out.append(rid)
    return out


def spec_in_scope(decls: list[dict], s: dict, old_counts: bool = False) -> bool:
    """Stealth mode: "if an object does not match any filters of any handlers for its resource kind"."""
    return any(KIND_CLASS[d['kind']] == 'changing' and spec_static(d, s, old_counts) for d in decls)


def consistent(s: dict, decls: Iterable[dict] = ()) -> bool:
    """The monitor speaks about real situations: `new` is the essence of the body (same spec, same value of every field a
    handler names -- kopf adds those to the essence), `old` an earlier essence."""
    if s['cls'] != 'changing':
        return True
    if s['new'] is None or s['new'].get('spec', ABSENT) != s['body'].get('spec', ABSENT):
        return False
    for d in decls:
        if d['field'] is not None:
            a, b = _lookup(s['new'], d['field']), _lookup(s['body'], d['field'])
            if (a is ABSENT) != (b is ABSENT) or (a is not ABSENT and a != b):
                return False
    meta = s['body'].get('metadata')
    if meta is not None and not isinstance(meta, dict):
        return False
    if s['reason'] == 'create' and s['old'] is not None:
        return False
    if s['reason'] != 'create' and s['old'] is None:
        return False
    return True


def wellformed(s: dict) -> bool:
    meta = s['body'].get('metadata', {})
    return isinstance(meta, dict) and all(isinstance(meta.get(k, {}), dict) for k in ('labels', 'annotations'))


# --------------------------------------------------------------------------------------------------
# Known findings
# --------------------------------------------------------------------------------------------------
def _reproduced(f: dict, old_counts: bool) -> bool:
    """Re-reading the docs with the defect's twist reproduces the observation exactly (and the plain reading does not)."""
    c = f['case']
    decls = c.get('decls', [])
    if f['sig'] == 'selected-set':
        s = c['state']
        return list(f['observed']) == spec_selected(decls, s, c.get('excluded', ()), old_counts)
    if f['sig'] == 'scope':
        s = c['state']
        return bool(f['observed']) == spec_in_scope(decls, s, old_counts) != spec_in_scope(decls, s)
    if f['sig'] == 'sub-invoked':
        return list(f['observed']) == sub_expected(c['parent'], c['subs'], c['sub_state'], old_counts)
    if f['sig'] in ('stealth', 'stealth-finalizer', 'cycle-writes', 'invoked'):
        body = c['body']
        if f['sig'] != 'invoked':
            # the object is "matched by no handler" by the docs, but in scope (kept, annotated, finaliser kept/required) only
            # because the value criterion of a create/resume/delete handler holds on the old/absent side
            return spec_matched_by_any(decls, body, old_counts) and not spec_matched_by_any(decls, body)
        allowed = e2e_allowed(decls, body, c.get('event'), old_counts)
        return all(x in allowed for x in f['observed'])
    return False


def match_f15a(f: dict) -> bool:
    """F15a: create/resume/delete handlers: value= is also tried on the OLD state (absent when there is none).
    (F15b -- field callbacks got a private marker instead of None -- is fixed in kopf by b981eb5: no matcher any more.)"""
    return _reproduced(f, old_counts=True)


# --------------------------------------------------------------------------------------------------
# Enumerations (bounded-exhaustive) and random registries
# --------------------------------------------------------------------------------------------------
META_CRITS = [None, ['val', 'v'], ['val', 'w'], ['val', ''], 'PRESENT', 'ABSENT', ['cb', 'is_none'], ['cb', ['eq', 'v']]]
META_CRITS2 = [None, 'PRESENT', 'ABSENT', ['val', 'v']]
LABEL_STATES = [ABSENT, 'v', 'w', '']
FIELD_CRITS = [None, ['val', 1], ['val', 2], 'PRESENT', 'ABSENT', ['cb', 'is_none'], ['cb', ['eq', 1]]]
WHENS = [None, 'T', 'F']
ALL_KINDS = [k for k in KIND_CLASS if k != 'sub']


def meta_decls() -> list[dict]:
    out = []
    i = 0
    for kind in ('create', 'event', 'daemon', 'index'):
        for l1, l2, a1 in itertools.product(META_CRITS, META_CRITS2, META_CRITS):
            labels = {k: v for k, v in (('l1', l1), ('l2', l2)) if v is not None}
            anns = {'a1': a1} if a1 is not None else {}
            out.append(decl(kind, f'm{i}', i, labels=labels, annotations=anns))
            i += 1
    return out


def meta_bodies() -> list[dict]:
    out = []
    for l1, l2, a1 in itertools.product(LABEL_STATES, [ABSENT, 'v'], LABEL_STATES):
        labels = {k: v for k, v in (('l1', l1), ('l2', l2)) if v is not ABSENT}
        anns = {'a1': a1} if a1 is not ABSENT else {}
        meta: dict = {'name': 'x'}
        if labels or l1 == '':
            meta['labels'] = labels
        if anns:
            meta['annotations'] = anns
        out.append({'metadata': meta, 'spec': {}})
    out.append({'spec': {}})                                   # no metadata at all
    out.append({'metadata': {'name': 'x', 'labels': {}, 'annotations': {}}, 'spec': {}})
    return out


MALFORMED_BODIES = [
    {'metadata': None}, {'metadata': 5}, {'metadata': {'labels': None}}, {'metadata': {'annotations': None}},
    {'metadata': {'labels': 7, 'annotations': {'a1': 'v'}}}, {'metadata': {'labels': {'l1': 'v'}, 'annotations': False}},
]


def field_decls() -> list[dict]:
    out = []
    i = 0
    for kind in ALL_KINDS:
        for when in WHENS:
            out.append(decl(kind, f'n{i}', i, when=when)); i += 1
        for v in FIELD_CRITS:
            for when in (WHENS if v in (None, ['val', 1], 'ABSENT') else [None]):
                out.append(decl(kind, f'f{i}', i, field='spec.f', value=v, when=when)); i += 1
        if kind in UPDATE_KINDS:
            for o, n in itertools.product(FIELD_CRITS, FIELD_CRITS):
                if o is None and n is None:
                    continue
                out.append(decl(kind, f'o{i}', i, field='spec.f', old=o, new=n)); i += 1
    return out


FIELD_STATES = [ABSENT, 1, 2, None, 'NOSPEC', 'BADSPEC']


def _with_field(v: Any, essence: bool) -> dict:
    b: dict = {} if essence else {'metadata': {'name': 'x'}}
    if v == 'NOSPEC':
        return b
    if v == 'BADSPEC':
        b['spec'] = 'str'
        return b
    b['spec'] = {'g': 0}
    if v is not ABSENT:
        b['spec']['f'] = v
    return b


def field_states(ctx: fw.Ctx) -> list[dict]:
    out = []
    for new in FIELD_STATES:
        body = _with_field(new, False)
        for cls in ('watching', 'spawning', 'indexing'):
            out.append(state(cls, body))
        for old in [None] + FIELD_STATES:
            for reason in ALL_REASONS:
                for initial in (False, True):
                    for deleting in (False, True):
                        b = copy.deepcopy(body)
                        if deleting:
                            b['metadata']['deletionTimestamp'] = '2020-01-01T00:00:00Z'
                        out.append(state('changing', b, reason=reason, initial=initial, new=_with_field(new, True),
                                         old=None if old is None else _with_field(old, True)))
    return out


# ---- falsy-but-specified criteria: `0`, `False`, `''`, `[]`, `{}` are criteria, only `None` means "not specified"
FALSY = [0, False, '', [], {}]
FALSY_FIELD_STATES = [ABSENT, None, 0, False, '', [], {}, 1]


def _cp(v: Any) -> Any:
    return v if v is ABSENT else copy.deepcopy(v)


def falsy_decls() -> list[dict]:
    out = []
    i = 0
    # callbacks which tell None / a marker object / falsy values apart: v is None, v is not None, bool(v), v == 0
    cbs = [['cb', 'is_none'], ['cb', 'not_none'], ['cb', 'truthy'], ['cb', ['eq', 0]]]
    crits = [None] + [['val', v] for v in FALSY] + cbs
    for kind in ALL_KINDS:
        for v in FALSY:
            out.append(decl(kind, f'z{i}', i, field='spec.f', value=['val', copy.deepcopy(v)])); i += 1
        for cb in cbs:
            out.append(decl(kind, f'w{i}', i, field='spec.f', value=copy.deepcopy(cb))); i += 1
        if kind in UPDATE_KINDS:
            for o, n in itertools.product(crits, crits):
                if o is None and n is None:
                    continue
                out.append(decl(kind, f'y{i}', i, field='spec.f', old=copy.deepcopy(o), new=copy.deepcopy(n))); i += 1
    return out


def falsy_states(thorough: bool) -> list[dict]:
    out = []
    k = 0
    for new in FALSY_FIELD_STATES:
        body = _with_field(_cp(new), False)
        for cls in ('watching', 'spawning', 'indexing'):
            out.append(state(cls, body))
        for old in [None] + FALSY_FIELD_STATES:
            for reason in HANDLER_REASONS:
                k += 1
                if reason == 'create' and old is not None:
                    continue
                if reason != 'update' and old is None and reason != 'create':
                    continue
                if not thorough and reason not in ('update', 'create') and k % 3:
                    continue
                b = copy.deepcopy(body)
                if reason == 'delete':
                    b['metadata']['deletionTimestamp'] = '2020-01-01T00:00:00Z'
                out.append(state('changing', b, reason=reason, initial=(reason == 'resume'),
                                 new=_with_field(_cp(new), True),
                                 old=None if old is None else _with_field(_cp(old), True)))
    return out


# ---- the same (function, id) registered several times at NON-adjacent positions
DEDUP_ORDERS = sorted({p for ms in ('AAB', 'AAAB', 'AABB', 'AABC') for p in itertools.permutations(ms)})
# kinds of the successive registrations of A (cycled); B and C take the first one / 'field'
DEDUP_KINDS = {
    'changing': [('update', 'update', 'update'), ('update', 'resume', 'update'), ('resume', 'update', 'resume'),
                 ('create', 'resume', 'create'), ('resume_del', 'delete_opt', 'resume_del'), ('field', 'update', 'field')],
    'watching': [('event', 'event', 'event')],
    'indexing': [('index', 'index', 'index')],
    'spawning': [('daemon', 'daemon', 'daemon'), ('timer', 'timer', 'timer'), ('daemon', 'timer', 'daemon')],
}
# who B is relative to A (fn 0, id 'a'): another function and id / another function under the SAME id / the same function
# under ANOTHER id
DEDUP_B = [(1, 'b'), (1, 'a'), (0, 'b')]


def dedup_registry(order: tuple, kinds: tuple, b: tuple, cls: str) -> list[dict]:
    out = []
    na = 0
    for x in order:
        if x == 'A':
            out.append(decl(kinds[na % len(kinds)], 'a', 0)); na += 1
        elif x == 'B':
            out.append(decl(kinds[0], b[1], b[0]))
        else:
            out.append(decl('field' if cls == 'changing' else kinds[0], 'c', 2))
    return out


def dedup_states(cls: str) -> list[dict]:
    body = {'metadata': {'name': 'x'}, 'spec': {'f': 2, 'g': 0}}
    if cls != 'changing':
        return [state(cls, body)]
    dbody = {'metadata': {'name': 'x', 'deletionTimestamp': '2020-01-01T00:00:00Z'}, 'spec': {'f': 2, 'g': 0}}
    new, old = {'spec': {'f': 2, 'g': 0}}, {'spec': {'f': 1, 'g': 0}}
    return [state(cls, body, reason='update', initial=True, old=old, new=new),      # changed while the operator was down
            state(cls, body, reason='update', initial=False, old=old, new=new),
            state(cls, body, reason='create', initial=True, old=None, new=new),
            state(cls, body, reason='resume', initial=True, old=new, new=new),
            state(cls, dbody, reason='delete', initial=True, old=new, new=new)]


def e2e_dedup_jobs(thorough: bool) -> list[tuple[list[dict], dict, Any]]:
    """Fresh object, real processing cycle: create / field / event handlers registered repeatedly, interleaved."""
    body = {'apiVersion': 'kopf.dev/v1', 'kind': 'KopfExample',
            'metadata': {'name': 'x', 'namespace': 'ns', 'uid': 'u1', 'resourceVersion': '5'}, 'spec': {'f': 1, 'g': 0}}
    out = []
    for kinds in [('create', 'create', 'create'), ('event', 'event', 'event'), ('create', 'field', 'create')]:
        cls = KIND_CLASS[kinds[0]]
        for order in (DEDUP_ORDERS if thorough else [o for o in DEDUP_ORDERS if len(o) == 3 or o in (tuple('ABAB'), tuple('ABCA'))]):
            decls = dedup_registry(order, kinds, (1, 'b'), cls)
            if any(d['kind'] == 'field' for d in decls):
                decls = [dict(d, kind='create') if d['id'] == 'c' else d for d in decls]
            out.append((decls, copy.deepcopy(body), 'ADDED'))
    return out


def gen_crit(r: Any, pool: list) -> Any:
    return copy.deepcopy(r.choice(pool))


R_FIELDS = ['spec.f', 'spec.a.b', 'spec.g', 'status.s', 'metadata.labels.l1']
R_VALUES = [0, 1, 2, 'v', '', None, True, False, [], [1], {'b': 1}, {}]
R_FIELD_CRITS = [None, None, 'PRESENT', 'ABSENT', ['cb', 'is_none'], ['cb', 'not_none'], ['cb', 'truthy'], ['cb', ['eq', 0]],
                 ['cb', 'T'], ['cb', 'F']] + \
                [['val', v] for v in R_VALUES if v is not None] + [['cb', ['eq', v]] for v in (1, 'v', {'b': 1})]
R_META_CRITS = ['PRESENT', 'ABSENT', ['val', 'v'], ['val', 'w'], ['val', ''], ['cb', 'is_none'], ['cb', 'not_none'],
                ['cb', ['eq', 'v']], ['cb', 'T'], ['cb', 'F']]
R_SELS = [SEL_KEX] * 6 + [['any', 'kex'], ['any', 'KopfExample'], ['any', 'kopfexample'], ['group_any', 'kopf.dev', 'kopfexamples'],
                          ['gv_any', 'kopf.dev', 'v1', 'kex'], ['gv_any', 'kopf.dev', 'v2', 'kex'], ['kind', 'KopfExample'],
                          ['plural', 'kopfexamples'], ['plural', 'widgets'], ['singular', 'widget'], ['shortcut', 'wd'],
                          ['category', 'all'], ['category', 'things'], ['group_any', 'example.com', 'widgets'], ['any', 'widgets']]


def gen_decls(r: Any, cls: str) -> list[dict]:
    kinds = [k for k, c in KIND_CLASS.items() if c == cls and k != 'sub']
    n = r.choice([1, 2, 3, 3, 4, 5, 6])
    out: list[dict] = []
    for j in range(n):
        if out and r.random() < 0.25:
            # the same function again: same id (dedup must apply), another field, or another kind (resume + create idiom)
            base = r.choice(out)
            d = copy.deepcopy(base)
            how = r.randrange(4)       # 0 and 3: the very same registration again, wherever the position falls
            if how == 1:
                d['field'] = r.choice(R_FIELDS)
            elif how == 2:
                d['kind'] = r.choice(kinds)
                if d['kind'] not in UPDATE_KINDS:
                    d['old'] = d['new'] = None
            if r.random() < 0.3:
                d['labels'] = {}
            out.append(d)
            continue
        kind = r.choice(kinds)
        d = decl(kind, r.choice(['h', 'k', f'h{j}', f'x{j}']), r.randrange(4), sel=copy.deepcopy(r.choice(R_SELS)))
        for _ in range(r.choice([0, 0, 1, 1, 2])):
            d['labels'][r.choice(['l1', 'l2', 'app'])] = gen_crit(r, R_META_CRITS)
        for _ in range(r.choice([0, 0, 0, 1, 2])):
            d['annotations'][r.choice(['a1', 'a2'])] = gen_crit(r, R_META_CRITS)
        d['when'] = r.choice([None, None, None, 'T', 'F', ['spec_eq', 'g', 1], ['spec_eq', 'f', 1]])
        if r.random() < 0.6:
            d['field'] = r.choice(R_FIELDS)
            if kind in UPDATE_KINDS and r.random() < 0.5:
                d['old'] = gen_crit(r, R_FIELD_CRITS)
                d['new'] = gen_crit(r, R_FIELD_CRITS)
                if r.random() < 0.35:       # only falsy criteria: `new=0` is a criterion, `new=None` is none
                    pool = [None] + [['val', v] for v in FALSY]
                    d['old'], d['new'] = gen_crit(r, pool), gen_crit(r, pool)
            else:
                d['value'] = gen_crit(r, R_FIELD_CRITS)
        out.append(d)
    return out


def gen_essence(r: Any) -> dict:
    e: dict = {}
    if r.random() < 0.9:
        spec: dict = {}
        if r.random() < 0.7:
            spec['f'] = copy.deepcopy(r.choice(R_VALUES))
        if r.random() < 0.5:
            spec['g'] = r.choice([0, 1])
        if r.random() < 0.5:
            spec['a'] = r.choice([{'b': r.choice([1, 2, 'v'])}, {}, 'scalar', None, {'b': {'b': 1}}])
        e['spec'] = spec
    elif r.random() < 0.5:
        e['spec'] = r.choice([None, 'str', 3])
    meta: dict = {}
    if r.random() < 0.7:
        meta['labels'] = {k: r.choice(['v', 'w', '']) for k in ('l1', 'l2', 'app') if r.random() < 0.5}
    if r.random() < 0.5:
        meta['annotations'] = {k: r.choice(['v', 'w', '']) for k in ('a1', 'a2') if r.random() < 0.5}
    if meta or r.random() < 0.5:
        e['metadata'] = meta
    return e


def gen_state(r: Any, cls: str) -> dict:
    new = gen_essence(r)
    body = copy.deepcopy(new)
    if r.random() < 0.9:
        body.setdefault('metadata', {})
        body['metadata']['name'] = 'x'
        if r.random() < 0.3:
            body['metadata']['deletionTimestamp'] = r.choice(['2020-01-01T00:00:00Z', None])
        if r.random() < 0.3:
            body['status'] = {'s': r.choice([1, 'v'])}
    if r.random() < 0.04:
        body = copy.deepcopy(r.choice(MALFORMED_BODIES))
    if r.random() < 0.1:        # body and essence deliberately disagree: only the D-tie looks at these
        body.setdefault('spec', {})
        if isinstance(body['spec'], dict):
            body['spec']['f'] = r.choice([1, 2])
    res = RES_KEX if r.random() < 0.85 else RES_OTHER
    if cls != 'changing':
        return state(cls, body, resource=res)
    reason = r.choice(HANDLER_REASONS + HANDLER_REASONS + ALL_REASONS)
    if reason == 'create' and r.random() < 0.9:
        old = None
    elif r.random() < 0.4:
        old = copy.deepcopy(new)
        if reason == 'update' and isinstance(old.get('spec'), dict):
            old['spec']['g'] = 5            # an unrelated change
    else:
        old = gen_essence(r)
    return state('changing', body, reason=reason, initial=r.random() < 0.4, old=old, new=new, resource=res)


# --------------------------------------------------------------------------------------------------
# The check
# --------------------------------------------------------------------------------------------------
def call_ids(fn: Callable[[], Iterable]) -> tuple[str, list[str] | None]:
    kind, got = canon.run_res(lambda: [h.id for h in fn()])
    return kind, got


class Sweep:
    """One registry, many states: D cases (one per state and registry call) + the monitors per (declaration, state)."""

    def __init__(self, ctx: fw.Ctx, name: str, decls: list[dict]) -> None:
        self.ctx, self.name, self.decls = ctx, name, decls
        self.real = Real(decls)
        self.by_cls: dict[str, list[dict]] = {}
        for d in decls:
            self.by_cls.setdefault(KIND_CLASS[d['kind']], []).append(d)
        self.header = HEADER + ''.join(
            f'Definition hs_{cls} : list hdecl := {cq.clist(decl_coq(d) for d in ds)}.\n' for cls, ds in self.by_cls.items())
        self.cases: list[fw.Case] = []
        self.verdicts: dict[str, set[bool]] = {}      # declaration id -> verdicts seen over the sweep
        self.pending: list[tuple[dict, dict, bool, bool]] = []

    def attrs_cases(self) -> list[fw.Case]:
        """The constants each decorator fixes, read off the real handler objects."""
        from kopf._core.intents import handlers as hh
        out = []
        for cls, ds in self.by_cls.items():
            hs = self.real.handlers(cls)
            if len(hs) != len(ds):
                self.ctx.correspondence_break('decorators', f'{cls}: {len(hs)} handlers registered for {len(ds)} declarations')
                continue
            for d, h in zip(ds, hs):
                hcls = ('HChanging' if isinstance(h, hh.ChangingHandler) else 'HWatching' if isinstance(h, hh.WatchingHandler)
                        else 'HSpawning' if isinstance(h, hh.SpawningHandler) else 'HIndexing' if isinstance(h, hh.IndexingHandler)
                        else 'unknown')
                rsn = getattr(h, 'reason', None)
                rs = 'None' if rsn is None else f'(Some R{str(rsn.value).capitalize()})'
                b = lambda a: cq.cbool(bool(getattr(h, a, None)))
                term = (f"kv_attrs_eqb {decl_coq(d)} {cq.cstr(h.id)} {hcls} {rs} {b('initial')} {b('deleted')} "
                        f"{b('requires_finalizer')} {b('field_needs_change')}")
                extra_ok = (getattr(h, 'old', None) is None and getattr(h, 'new', None) is None) or d['kind'] in UPDATE_KINDS
                if not extra_ok or (h.field or None) != (tuple(d['field'].split('.')) if d['field'] else None):
                    self.ctx.correspondence_break('decorators', {'decl': d, 'handler': repr(h)})
                out.append(fw.Case(term, {'decl': d, 'handler_id': h.id}, diag=f'kv_attrs {decl_coq(d)}'))
                if self.ctx.prop and real_id(d) != h.id:
                    self.ctx.fail('handler id does not carry the field suffix as documented', {'decl': d}, observed=h.id,
                                  expected=real_id(d), sig='handler-id')
        return out

    def run_state(self, s: dict, monitor: bool = True, excluded: tuple[str, ...] = (), only_get: bool = False) -> None:
        ctx = self.ctx
        cls = s['cls']
        ds = self.by_cls.get(cls)
        if not ds:
            return
        sub = self.real.sub(cls)
        cause = cause_real(s)
        ccoq = cause_coq(s)
        excl = cq.clist(cq.cstr(x) for x in excluded)
        kind, got = canon.run_res(lambda: list(sub.get_handlers(cause, excluded=frozenset(excluded))))
        ids = [h.id for h in got] if kind == 'ok' else None
        fn_index = {id(f): i for i, f in self.real.fns.items()}
        keys = [(fn_index.get(id(h.fn)), h.id) for h in got] if kind == 'ok' else []
        if len(set(keys)) != len(keys):
            ctx.fail('one function registered under one id is selected twice for one cause',
                     {'decls': ds if len(ds) <= 8 else [], 'state': s}, observed=keys, sig='duplicate')
        data = {'sweep': self.name, 'state': s, 'excluded': list(excluded)}
        self.cases.append(fw.Case(f'rids_eqb (get_handlers {excl} hs_{cls} {ccoq}) {rids_coq(kind, ids)}',
                                  {**data, 'call': 'get_handlers', 'outcome': kind, 'ids': ids},
                                  diag=f'rids (get_handlers {excl} hs_{cls} {ccoq})'))
        ctx.count('get_handlers', f'{cls}:{kind}:{"none" if not ids else "some" if len(ids) < len(ds) else "all"}')
        pk = None
        if cls == 'changing' and not only_get:
            pk, pb = canon.run_res(lambda: sub.prematch(cause))
            self.cases.append(fw.Case(f'rbool_eqb (registry_prematch hs_{cls} {ccoq}) {rbool_coq(pk, pb)}',
                                      {**data, 'call': 'prematch', 'outcome': pk, 'value': pb},
                                      diag=f'registry_prematch hs_{cls} {ccoq}'))
            ctx.count('prematch', f'{pk}:{pb}')
        if cls in ('changing', 'spawning') and not only_get:
            fk, fb = canon.run_res(lambda: sub.requires_finalizer(cause, excluded=frozenset(excluded)))
            self.cases.append(fw.Case(
                f'rbool_eqb (requires_finalizer {cq.cbool(cls == "changing")} {excl} hs_{cls} {ccoq}) {rbool_coq(fk, fb)}',
                {**data, 'call': 'requires_finalizer', 'outcome': fk, 'value': fb},
                diag=f'requires_finalizer {cq.cbool(cls == "changing")} {excl} hs_{cls} {ccoq}'))
            ctx.count('requires_finalizer', f'{cls}:{fk}:{fb}')
        if not monitor or kind != 'ok' or not wellformed(s) or not consistent(s, ds):
            return
        # ---- monitors
        if cls != 'changing' or s['reason'] in HANDLER_REASONS:
            check_selected(ctx, ds, s, ids, excluded, self.verdicts)
        if cls == 'changing' and pk == 'ok':
            exp = spec_in_scope(ds, s)
            if bool(pb) != exp:
                ctx.fail('object in scope of the operator <> some handler\'s filters hold', {'decls': _culprits(ds, s), 'state': s},
                         observed=bool(pb), expected=exp, sig='scope')


def _culprits(ds: list[dict], s: dict) -> list[dict]:
    """For replay files of the scope monitor: the declarations which matter (in scope by code or by spec)."""
    from kopf._core.intents import registries
    out = []
    for d in ds:
        if KIND_CLASS[d['kind']] != 'changing':
            continue
        r = Real([d])
        try:
            code = registries.prematch(handler=r.handlers('changing')[0], cause=cause_real(s))
        except Exception:
            code = None
        if code or spec_static(d, s):
            out.append(d)
        if len(out) >= 6:
            break
    return out or ds[:1]


def check_selected(ctx: fw.Ctx, ds: list[dict], s: dict, ids: list[str], excluded: Iterable[str],
                   verdicts: dict[str, set[bool]] | None = None) -> None:
    exp = spec_selected(ds, s, excluded)
    base = {d['kind']: None for d in ds}
    ctx.cov['evaluations'] += len(ds)      # every (declaration, state) pair is one evaluation of the monitor (real verdict vs docs evaluator)
    for d in ds:
        rid = real_id(d)
        v = rid in ids
        if verdicts is not None:
            verdicts.setdefault(rid, set()).add(v)
        if n_criteria(d):
            if base[d['kind']] is None:
                base[d['kind']] = spec_kind(d, s) and _sel_spec(d['sel'], s['resource'])
            if v != base[d['kind']]:
                ctx.nontriv(['pair', d, s])
    if ids != exp:
        bad = set(ids) ^ set(exp)
        small = [d for d in ds if real_id(d) in bad] if len(ds) > 8 else ds
        if sorted(ids) == sorted(exp):
            what = 'selected handlers are not in registration order'
        else:
            what = 'selected handlers <> handlers whose declared criteria hold'
        # report per smallest explaining registry: re-run on the reduced registry so that the replay is self-contained
        if len(ds) > 8:
            r = Real(small)
            k2, ids2 = call_ids(lambda: r.sub(s['cls']).get_handlers(cause_real(s), excluded=frozenset(excluded)))
            exp2 = spec_selected(small, s, excluded)
            if k2 == 'ok' and ids2 != exp2:
                reported = False
                for d in small:       # one failure per declaration: narrow signatures, small replays
                    r1 = Real([d])
                    k3, ids3 = call_ids(lambda: r1.sub(s['cls']).get_handlers(cause_real(s), excluded=frozenset(excluded)))
                    exp3 = spec_selected([d], s, excluded)
                    if k3 == 'ok' and ids3 != exp3:
                        reported = True
                        ctx.fail(what, {'decls': [d], 'state': s, 'excluded': list(excluded)}, observed=ids3, expected=exp3,
                                 sig='selected-set')
                if reported:
                    return
                ids, exp = ids2, exp2
        ctx.fail(what, {'decls': small, 'state': s, 'excluded': list(excluded)}, observed=ids, expected=exp, sig='selected-set')


def single_cases(ctx: fw.Ctx, decls: list[dict], states: list[dict]) -> list[fw.Case]:
    """registries.match / registries.prematch on one handler: locates a disagreement and covers the raising paths."""
    from kopf._core.intents import registries
    out = []
    for d in decls:
        r = Real([d])
        h = r.handlers(KIND_CLASS[d['kind']])[0]
        for s in states:
            if s['cls'] != KIND_CLASS[d['kind']]:
                continue
            cause = cause_real(s)
            for fname, f in (('matches', registries.match), ('prematches', registries.prematch)):
                k, b = canon.run_res(lambda: f(handler=h, cause=cause))
                out.append(fw.Case(f'rbool_eqb ({fname} {decl_coq(d)} {cause_coq(s)}) {rbool_coq(k, b)}',
                                   {'decl': d, 'state': s, 'call': fname, 'outcome': k, 'value': b},
                                   diag=f'{fname} {decl_coq(d)} {cause_coq(s)}'))
                ctx.count(fname, f'{k}:{b}')
                # monitor, one handler at a time: in scope <=> its object-describing filters hold
                if (fname == 'prematches' and k == 'ok' and s['cls'] == 'changing' and wellformed(s) and consistent(s, [d])
                        and bool(b) != spec_static(d, s)):
                    ctx.fail('object in scope of the operator <> some handler\'s filters hold', {'decls': [d], 'state': s},
                             observed=bool(b), expected=spec_static(d, s), sig='scope')
    return out


CORPUS_DIR = fw.ROOT / 'corpus' / 'C15'


def load_corpus() -> list[dict]:
    out = []
    if CORPUS_DIR.is_dir():
        for p in sorted(CORPUS_DIR.glob('*.json')):
            c = json.loads(p.read_text())
            c['name'] = p.name
            out.append(c)
    return out


def run_case(ctx: fw.Ctx, decls: list[dict], s: dict, excluded: tuple[str, ...] = (), name: str = 'case',
             only_get: bool = False) -> list[fw.Case]:
    sw = Sweep(ctx, name, decls)
    sw.run_state(s, excluded=excluded, only_get=only_get)
    # inline the registry into each term: every case has its own
    cases = []
    for c in sw.cases:
        term, diag = c.term, c.diag
        for cls, ds in sw.by_cls.items():
            lit = cq.clist(decl_coq(d) for d in ds)
            term = term.replace(f'hs_{cls}', lit)
            diag = diag.replace(f'hs_{cls}', lit) if diag else diag
        cases.append(fw.Case(term, {**c.data, 'decls': decls}, diag))
    return cases


def run(ctx: fw.Ctx) -> int:
    ctx.matchers = {'F15a': match_f15a}
    ctx.proofs()
    ok, logtxt = fw.build_models(['Model/Match.v', 'Model/MatchCycle.v'])
    if not ok:
        ctx.correspondence_break('model build', logtxt[-1500:])
        return ctx.finish(RULE)
    logging.getLogger('kopf').setLevel(logging.CRITICAL)
    r = ctx.rng

    # ---------- corpus: hand-seeded dangerous cases (incl. the witnesses of the known findings) ----------
    corpus_cases: list[fw.Case] = []
    for c in load_corpus():
        if 'state' not in c:
            continue                        # end-to-end corpus cases ('body' + 'event') are run by e2e()
        corpus_cases += run_case(ctx, c['decls'], c['state'], tuple(c.get('excluded', ())), name=c['name'])
        ctx.count('corpus', 'cases')
    ctx.differential('corpus', HEADER, corpus_cases, shard=150)

    # ---------- bounded-exhaustive sweep 1: metadata criteria x metadata states ----------
    md = meta_decls()
    sw = Sweep(ctx, 'meta', md)
    attrs = sw.attrs_cases()
    bodies = meta_bodies()
    if not ctx.thorough:
        bodies = bodies[::1]
    for b in bodies:
        for cls in ('changing', 'watching', 'spawning', 'indexing'):
            if cls == 'changing':
                sw.run_state(state(cls, b, reason='create', old=None, new={'spec': {}}))
            else:
                sw.run_state(state(cls, b))
    ctx.count('pairs', 'meta', len(md) * len(bodies))
    ctx.sample({'sweep': 'meta', 'decl': md[37], 'state_body': bodies[5]})
    ctx.differential('meta', sw.header, sw.cases, shard=120)
    sweeps = [sw]

    # malformed metadata: the raising paths, one handler at a time
    mal_states = [state(cls, b, reason='create', new={}) for b in MALFORMED_BODIES
                  for cls in ('changing', 'watching', 'spawning', 'indexing')]
    mal_decls = [d for i, d in enumerate(md) if i % (7 if ctx.thorough else 23) == 0]
    ctx.differential('malformed', HEADER, single_cases(ctx, mal_decls, mal_states), shard=150)

    # ---------- bounded-exhaustive sweep 2: field/value/old/new/when x kinds x field states x causes ----------
    fd = field_decls()
    sw2 = Sweep(ctx, 'field', fd)
    attrs += sw2.attrs_cases()
    fs = field_states(ctx)
    if not ctx.thorough:
        # stratified: every (old, new) field combination with every reason once; initial/deleting alternate
        keep = []
        for i, s in enumerate(fs):
            if s['cls'] != 'changing':
                keep.append(s)
            else:
                deleting = 'deletionTimestamp' in s['body'].get('metadata', {})
                h = (ALL_REASONS.index(s['reason']) + len(json.dumps(s['old'], sort_keys=True)) + len(json.dumps(s['new']))) % 4
                if (s['initial'], deleting) == [(False, False), (True, False), (True, True), (False, True)][h]:
                    keep.append(s)
        fs = keep
    for s in fs:
        sw2.run_state(s)
    ctx.count('pairs', 'field', sum(len(sw2.by_cls.get(s['cls'], ())) for s in fs))
    ctx.sample({'sweep': 'field', 'decl': fd[20], 'state': fs[40]})
    ctx.differential('field', sw2.header, sw2.cases, shard=160)
    # the same alphabet one handler at a time (a registry-level prematch is satisfied by any one handler)
    sd = fd if ctx.thorough else fd[::6]
    ss = [s for i, s in enumerate(fs) if i % (29 if ctx.thorough else 19) == 0 or s['cls'] != 'changing']
    ctx.differential('field1', HEADER, single_cases(ctx, sd, ss), shard=150)
    ctx.differential('decorators', HEADER, attrs if ctx.thorough else attrs[::2], shard=200)
    sweeps.append(sw2)
    # ---------- bounded-exhaustive sweep 3: falsy criteria (0, False, '', [], {}) x falsy field values ----------
    zd = falsy_decls()
    sw3 = Sweep(ctx, 'falsy', zd)
    zs = falsy_states(ctx.thorough)
    for s in zs:
        sw3.run_state(s)
    ctx.count('pairs', 'falsy', sum(len(sw3.by_cls.get(s['cls'], ())) for s in zs))
    ctx.sample({'sweep': 'falsy', 'decl': zd[60], 'state': zs[30]})
    ctx.differential('falsy', sw3.header, sw3.cases, shard=160)
    ctx.differential('decorators_falsy', HEADER, sw3.attrs_cases(), shard=200)
    sweeps.append(sw3)
    for s_ in sweeps:     # non-triviality across states: a declaration with criteria whose verdict varies over the sweep
        for d in s_.decls:
            if n_criteria(d) and len(s_.verdicts.get(real_id(d), ())) == 2:
                ctx.nontriv(['decl-varies', s_.name, d])

    # ---------- bounded-exhaustive sweep 4: repeated registrations of one (function, id), all orders of small multisets ----------
    dd: list[fw.Case] = []
    for cls, kss in DEDUP_KINDS.items():
        for ks in kss:
            for b in DEDUP_B:
                for order in DEDUP_ORDERS:
                    decls = dedup_registry(order, ks, b, cls)
                    for j, s in enumerate(dedup_states(cls)):
                        if not ctx.thorough and cls == 'changing' and (j + len(order) + DEDUP_B.index(b)) % 3:
                            continue
                        dd += run_case(ctx, decls, s, name='dedup', only_get=True)
                        ctx.count('dedup', f"{cls}:{''.join(order)}")
    ctx.sample({'sweep': 'dedup', 'decls': dedup_registry(tuple('ABA'), DEDUP_KINDS['changing'][1], (1, 'b'), 'changing'),
                'state': dedup_states('changing')[0]}, limit=8)
    ctx.differential('dedup', HEADER, dd, shard=150)

    # ---------- random larger registries ----------
    n = ctx.scale(600, 8000)
    rnd: list[fw.Case] = []
    for i in range(n):
        cls = r.choice(['changing', 'changing', 'changing', 'watching', 'spawning', 'indexing'])
        decls = gen_decls(r, cls)
        s = gen_state(r, cls)
        ids_pool = [real_id(d) for d in decls]
        excluded = tuple(sorted(set(r.sample(ids_pool, 1)))) if r.random() < 0.15 else ()
        try:
            rnd += run_case(ctx, decls, s, excluded, name=f'random{i}')
        except cq.Unencodable:
            continue
        ctx.count('random_registry_size', str(len(decls)))
        ctx.count('random_cause', f"{cls}:{s['reason'] if cls == 'changing' else '-'}")
        if i < 2:
            ctx.sample({'sweep': 'random', 'decls': decls, 'state': s, 'excluded': list(excluded)})
    ctx.differential('random', HEADER, rnd, shard=120)

    # ---------- the decision skeleton of process_resource_causes against the real coroutine ----------
    cycle_tie(ctx, ctx.scale(500, 6000))

    # ---------- sub-handlers: the real decorator inside a running parent, and which of them run ----------
    sub_tie(ctx)

    # ---------- end to end: process_resource_event with a recording API ----------
    e2e(ctx, ctx.scale(250, 2500))

    return ctx.finish(RULE, level_note=[
        'user callbacks (when=, value callbacks) are oracles: arbitrary total functions in the theorems, a fixed named set in the tie',
        'resource selectors: exact names/group/version/category only (Selector.check without fn/EVERYTHING)',
        'the full-cycle statement of stealth (no write at all) belongs to the cycle model (C02/C06); here it is a monitor on '
        'process_resource_event plus the selection-level theorems'])


# --------------------------------------------------------------------------------------------------
# End-to-end monitors through kopf._core.reactor.processing.process_resource_event
# --------------------------------------------------------------------------------------------------
FINALIZER = 'kopf.zalando.org/KopfFinalizerMarker'


def _apply_writes(body: dict, writes: list[tuple[str, Any]]) -> dict:
    cur = copy.deepcopy(body)
    for ctype, payload in writes:
        if 'merge-patch' in ctype:
            cur = canon.merge7386(cur, payload)
        else:
            try:
                cur = canon.apply6902(cur, payload)
            except canon.PatchTestFailed:
                pass
    return cur


async def _one_event(real: Real, res: dict, raw_type: Any, body: dict, writes: list) -> None:
    import kopf
    from kopf._cogs.clients import api
    from kopf._cogs.configs import configuration
    from kopf._cogs.structs import ephemera
    from kopf._core.engines.indexing import OperatorIndexers
    from kopf._core.reactor import inventory, processing

    async def fake_patch(*, url: str, payload: Any, headers: Any = None, **_: Any) -> Any:
        writes.append(((headers or {}).get('Content-Type', ''), copy.deepcopy(payload)))
        return {}

    saved = api.patch
    api.patch = fake_patch          # module attribute inside this process only; restored below
    try:
        settings = configuration.OperatorSettings()
        settings.persistence.finalizer = FINALIZER
        indexers = OperatorIndexers()
        indexers.ensure(real.registry._indexing.get_all_handlers())
        await processing.process_resource_event(
            lifecycle=kopf.lifecycles.all_at_once, registry=real.registry, settings=settings, resource=_res_real(res),
            indexers=indexers, memories=inventory.ResourceMemories(), memobase=ephemera.Memo(),
            raw_event={'type': raw_type, 'object': copy.deepcopy(body)}, event_queue=asyncio.Queue(), no_throttling=True)
    finally:
        api.patch = saved


# --------------------------------------------------------------------------------------------------
# D-tie of Model/MatchCycle.v: the real process_resource_causes with recording handlers; only the daemon machinery
# (spawn/match/pause/stop_daemons) is replaced by recorders, nothing else
# --------------------------------------------------------------------------------------------------
async def _drive_causes(real: Real, res: dict, body: dict, raw_type: Any, *, noticed: bool, forever: list[str],
                        carried: dict, spawn_delays: list[float], recorder: list) -> dict:
    import kopf
    from kopf._cogs.configs import configuration
    from kopf._cogs.structs import bodies, finalizers, patches
    from kopf._core.actions import loggers
    from kopf._core.engines import daemons, posting
    from kopf._core.engines.indexing import OperatorIndexers
    from kopf._core.reactor import inventory, processing

    settings = configuration.OperatorSettings()
    settings.persistence.finalizer = FINALIZER
    memory = inventory.ResourceMemory(noticed_by_listing=noticed)
    memory.daemons_memory.forever_stopped = set(forever)
    b = bodies.Body(copy.deepcopy(body))
    patch = patches.Patch(copy.deepcopy(carried), body=b)
    obs: dict = {'spawn': None, 'stopped': False, 'cause': None, 'changing_ran': False}

    async def spawn_daemons(*, handlers: Any, **_: Any) -> list:
        obs['spawn'] = [h.id for h in handlers]
        return []

    async def match_daemons(**_: Any) -> list:
        return list(spawn_delays)

    async def pause_daemons(**_: Any) -> list:
        return []

    async def stop_daemons(**_: Any) -> list:
        obs['stopped'] = True
        return list(spawn_delays)

    real_detect = processing._detect_causes
    real_changing = processing.process_changing_cause

    def detect(**kw: Any) -> Any:
        out = real_detect(**kw)
        obs['cause'] = out.changing_cause
        return out

    async def changing(**kw: Any) -> Any:
        obs['changing_ran'] = True
        return await real_changing(**kw)

    saved = (daemons.spawn_daemons, daemons.match_daemons, daemons.pause_daemons, daemons.stop_daemons)
    daemons.spawn_daemons, daemons.match_daemons, daemons.pause_daemons, daemons.stop_daemons = \
        spawn_daemons, match_daemons, pause_daemons, stop_daemons
    processing._detect_causes, processing.process_changing_cause = detect, changing
    posting.event_queue_loop_var.set(asyncio.get_running_loop())
    posting.event_queue_var.set(asyncio.Queue())
    try:
        try:
            delays, matched = await processing.process_resource_causes(
                lifecycle=kopf.lifecycles.all_at_once, indexers=OperatorIndexers(), registry=real.registry, settings=settings,
                resource=_res_real(res), raw_event={'type': raw_type, 'object': body}, body=b, patch=patch, memory=memory,
                local_logger=loggers.LocalObjectLogger(body=b, settings=settings),
                event_logger=loggers.LocalObjectLogger(body=b, settings=settings),
                stream_pressure=None, operator_paused=None, consistency_time=None)
            obs['outcome'] = 'ok'
            obs['matched'] = bool(matched)
            obs['delays'] = bool(delays)
        except (TypeError, AttributeError, KeyError, ValueError) as e:
            obs['outcome'] = canon.classify_exc(e)
    finally:
        daemons.spawn_daemons, daemons.match_daemons, daemons.pause_daemons, daemons.stop_daemons = saved
        processing._detect_causes, processing.process_changing_cause = real_detect, real_changing
    obs['fns'] = ['B' if getattr(f, 'func', None) is finalizers.block_deletion else
                  'A' if getattr(f, 'func', None) is finalizers.allow_deletion else '?' for f in patch.fns]
    obs['patch'] = copy.deepcopy(dict(patch))
    obs['wcalls'] = [x[0] for x in recorder if x[4]]
    obs['ccalls'] = [x[0] for x in recorder if not x[4]]
    return obs


CYCLE_KINDS = ('create', 'update', 'delete', 'delete_opt', 'resume', 'resume_del', 'field', 'event', 'event', 'daemon', 'timer')


def gen_cycle(r: Any) -> dict:
    decls: list[dict] = []
    for j in range(r.choice([1, 2, 2, 3, 4, 5])):
        kind = r.choice(CYCLE_KINDS)
        d = decl(kind, f'q{j}', j, sel=copy.deepcopy(r.choice([SEL_KEX] * 5 + [['any', 'widgets']])))
        how = r.randrange(7)
        if how == 0:
            d['labels'] = {'l1': gen_crit(r, ['PRESENT', ['val', 'v'], 'ABSENT'])}
        elif how == 1:
            d['annotations'] = {'a1': gen_crit(r, ['PRESENT', ['val', 'v'], 'ABSENT'])}
        elif how == 2:
            d['when'] = r.choice(['F', ['spec_eq', 'g', 1]])
        elif how == 3:
            d['field'] = 'spec.f'
            if kind in UPDATE_KINDS and r.random() < 0.5:
                d['new'] = gen_crit(r, [['val', 1], ['val', 0], 'PRESENT', 'ABSENT'])
            else:
                d['value'] = gen_crit(r, [None, ['val', 1], 'PRESENT', 'ABSENT'])
        decls.append(d)
    meta: dict = {'name': 'x', 'namespace': 'ns', 'uid': 'u1', 'resourceVersion': '5'}
    if r.random() < 0.5:
        meta['labels'] = {'l1': r.choice(['v', 'w'])}
    if r.random() < 0.3:
        meta['annotations'] = {'a1': 'v'}
    if r.random() < 0.45:
        meta['finalizers'] = r.choice([[FINALIZER], ['other/fin'], ['other/fin', FINALIZER], []])
    if r.random() < 0.3:
        meta['deletionTimestamp'] = '2020-01-01T00:00:00Z'
    if r.random() < 0.03:
        meta['finalizers'] = r.choice([None, 5])
    spec: dict = {'g': r.choice([0, 1])}
    if r.random() < 0.6:
        spec['f'] = r.choice([0, 1, 2])
    body = {'apiVersion': 'kopf.dev/v1', 'kind': 'KopfExample', 'metadata': meta, 'spec': spec}
    if r.random() < 0.02:
        body['metadata'] = None
    handled = None
    if r.random() < 0.55 and isinstance(body['metadata'], dict):
        # handled before: a last-handled essence in the annotation, equal to or different from the current one
        prev = copy.deepcopy(body)
        how = r.randrange(3)
        if how == 1:
            prev['spec']['g'] = 7
        elif how == 2:
            prev['spec'].pop('f', None) if 'f' in prev['spec'] else prev['spec'].update(f=5)
        handled = prev
    spawning_ids = [real_id(d) for d in decls if KIND_CLASS[d['kind']] == 'spawning']
    return {'decls': decls, 'body': body, 'handled': handled,
            'event': r.choice([None, 'ADDED', 'MODIFIED', 'MODIFIED', 'DELETED']), 'noticed': r.random() < 0.4,
            'forever': sorted(set(x for x in spawning_ids if r.random() < 0.3)),
            'carried': {} if r.random() < 0.8 else {'status': {'carried': 1}},
            'spawn_delays': [] if r.random() < 0.7 else [3.0],
            'fail': sorted(set(d['fn'] for d in decls if r.random() < 0.15))}


def _with_last_handled(body: dict, prev: dict | None, extra_fields: set) -> dict:
    """The body as the server would have it after kopf stored `prev`'s essence as the last-handled configuration."""
    if prev is None:
        return body
    from kopf._cogs.configs import configuration
    from kopf._cogs.structs import bodies, patches
    st = configuration.OperatorSettings().persistence.diffbase_storage
    essence = st.build(body=bodies.Body(prev), extra_fields=extra_fields)
    p = patches.Patch()
    st.store(body=bodies.Body(body), patch=p, essence=essence)
    return canon.merge7386(body, dict(p))


def cycle_case(ctx: fw.Ctx, loop: Any, c: dict) -> fw.Case | None:
    decls = c['decls']
    recorder: list = []
    real = Real(decls, recorder, fail_fns=c['fail'])
    extra = set()
    for reg in (real.registry._watching, real.registry._changing, real.registry._spawning):
        extra |= reg.get_extra_fields(resource=_res_real(RES_KEX))
    body = _with_last_handled(c['body'], c['handled'], extra) if isinstance(c['body'].get('metadata'), dict) else c['body']
    obs = loop.run_until_complete(asyncio.wait_for(_drive_causes(
        real, RES_KEX, body, c['event'], noticed=c['noticed'], forever=c['forever'], carried=c['carried'],
        spawn_delays=c['spawn_delays'], recorder=recorder), 30))
    cause = obs['cause']
    reason = cause.reason.value if cause is not None else 'noop'
    o = lambda v: 'None' if v is None else f'(Some {cq.cjson(dict(v))})'
    by = lambda cls: cq.clist(decl_coq(d) for d in decls if KIND_CLASS[d['kind']] == cls)
    g = f"{{| g_watching := {by('watching')}; g_spawning := {by('spawning')}; g_changing := {by('changing')} |}}"
    i = (f"{{| i_resource := {_res_coq(RES_KEX)}; i_body := {cq.cjson(body)}; "
         f"i_old := {o(cause.old if cause is not None else None)}; i_new := {o(cause.new if cause is not None else None)}; "
         f"i_reason := R{reason.capitalize()}; i_initial := {cq.cbool(bool(cause.initial) if cause is not None else False)}; "
         f"i_finalizer := {cq.cstr(FINALIZER)}; i_deleted_event := {cq.cbool(c['event'] == 'DELETED')}; "
         f"i_forever_stopped := {cq.clist(cq.cstr(x) for x in c['forever'])}; i_patch_empty := {cq.cbool(not c['carried'])}; "
         f"i_achieved := true; i_spawn_delays := {cq.cbool(bool(c['spawn_delays']))}; "
         f"i_change_delays := delays_if_any {cq.clist(cq.cnat(x) for x in c['fail'])} |}}")
    nl = lambda l: cq.clist(cq.cnat(x) for x in l)
    if obs['outcome'] == 'ok':
        sp = 'None' if obs['spawn'] is None else f"(Some {cq.clist(cq.cstr(x) for x in obs['spawn'])})"
        ch = f"(Some {nl(obs['ccalls'])})" if obs['changing_ran'] else 'None'
        fns = cq.clist({'B': 'FBlock', 'A': 'FAllow'}[x] for x in obs['fns'])
        exp = f"(Ok ({nl(obs['wcalls'])}, {sp}, {fns}, {ch}, {cq.cbool(obs['matched'])}))"
    else:
        exp = canon.cres(obs['outcome'])
    data = {**c, 'body': body, 'observed': {k: obs.get(k) for k in ('outcome', 'wcalls', 'spawn', 'stopped', 'fns', 'ccalls',
                                                                    'changing_ran', 'matched', 'delays')}, 'reason': reason}
    ctx.count('cycle_reason', reason if cause is not None else 'no changing handlers')
    ctx.count('cycle_fns', ''.join(obs['fns']) or '-')
    ctx.count('cycle_outcome', obs['outcome'])
    if obs['outcome'] == 'ok':
        ctx.count('cycle_changing', 'ran:%d' % min(len(obs['ccalls']), 3) if obs['changing_ran'] else 'not run')
        ctx.count('cycle_watching', str(min(len(obs['wcalls']), 3)))
        ctx.count('cycle_spawning', 'stop_daemons' if obs['stopped'] else 'no cause' if obs['spawn'] is None else
                  'spawn:%d' % len(obs['spawn']))
        ctx.count('cycle_delays', f"spawn={bool(c['spawn_delays'])},returned={obs['delays']}")
        # the only writers of merge-patch content in this routine are the invoked watching handlers (results) and
        # process_changing_cause; if neither ran, the patch content is what was carried
        if not obs['wcalls'] and not obs['changing_ran'] and obs['patch'] != c['carried']:
            ctx.fail('patch content written although no watching handler was invoked and the changing cause was not processed',
                     {'decls': decls, 'body': body, 'event': c['event']}, observed=obs['patch'], expected=c['carried'],
                     sig='cycle-writes')
        if '?' in obs['fns']:
            ctx.correspondence_break('cycle: unknown patch function', obs['fns'])
        if obs['changing_ran'] or obs['wcalls'] or obs['fns']:
            ctx.nontriv(['cycle', decls, body, c['event']])
    return fw.Case(f'rcycle_eqb (cycle {g} {i}) {exp}', data, diag=f'cycle_show (cycle {g} {i})')


def cycle_tie(ctx: fw.Ctx, n: int) -> None:
    r = ctx.rng
    loop = asyncio.new_event_loop()
    cases: list[fw.Case] = []
    try:
        for k in range(n):
            c = gen_cycle(r)
            try:
                case = cycle_case(ctx, loop, c)
            except cq.Unencodable:
                continue
            except Exception as e:      # an observation point disappeared or the routine failed in an unmodelled way
                ctx.correspondence_break('cycle:process_resource_causes', {'error': repr(e)[:400], 'case': c})
                break
            if case is not None:
                cases.append(case)
            if k == 0:
                ctx.sample({'sweep': 'cycle', **case.data}, limit=9)
    finally:
        loop.close()
    ctx.differential('cycle', HEADER, cases, shard=120)


# --------------------------------------------------------------------------------------------------
# Sub-handlers: the real @kopf.subhandler inside a really running parent (process_resource_causes -> execute_handlers_once ->
# invoke_handler -> subhandling_context -> the parent function -> the decorator -> implicit execute())
# --------------------------------------------------------------------------------------------------
def sub_decl(parent: dict, id: str, fn: int, **kw: Any) -> dict:
    d = decl('sub', id, fn, **kw)
    d['parent_kind'], d['parent_id'] = parent['kind'], real_id(parent)
    return d


def sub_coq(parent: dict, d: dict) -> str:
    fld = 'None' if d['field'] is None else f"(Some {cq.cpath(d['field'].split('.'))})"
    pat = lambda m: cq.clist(cq.cpair(cq.cstr(k), _crit_coq(v)) for k, v in m.items())
    return (f"(sub_decorate {decl_coq(parent)} {cq.cstr(d['id'])} {cq.cnat(d['fn'])} {pat(d['labels'])} {pat(d['annotations'])} "
            f"{_when_coq(d['when'])} {fld} {_crit_coq(d['value'])} {_crit_coq(d['old'])} {_crit_coq(d['new'])})")


def sub_alphabet(parent: dict) -> list[dict]:
    out: list[dict] = []
    def add(**kw: Any) -> None:
        out.append(sub_decl(parent, f's{len(out) + 1}', len(out) + 1, **kw))
    add()
    add(field='spec.f')
    for v in (['val', 1], ['val', 2], 'PRESENT', 'ABSENT', ['cb', 'is_none']):
        add(field='spec.f', value=v)
    for o, n in ((None, ['val', 2]), (['val', 1], None), ('PRESENT', 'ABSENT'), ('ABSENT', 'PRESENT'), (['val', 1], ['val', 2]),
                 (None, ['val', 0])):
        add(field='spec.f', old=o, new=n)          # accepted only under @on.update / @on.field parents: TypeError otherwise
    add(field='spec.g')
    add(labels={'l1': ['val', 'v']})
    add(annotations={'a1': 'ABSENT'}, field='spec.f')
    add(when='F')
    add(when=['spec_eq', 'g', 0], field='spec.f', value='PRESENT')
    return out


def _narrow(o: Any, dotted: str | None) -> Any:
    """What a sub-handler sees as old/new under a parent with a field: that field (None when absent or null)."""
    if dotted is None or o is None:
        return o
    v = _lookup(o, dotted)
    return None if v is ABSENT else v


def sub_expected(parent: dict, subs: list[dict], s: dict, old_counts: bool = False) -> list[int]:
    """Docs: a sub-handler is a handler of the parent's reaction: it runs when the parent runs and its own filters hold;
    inside @on.update/@on.field that includes 'the field is affected'."""
    return [d['fn'] for d in subs if spec_static(d, s, old_counts) and spec_transition(d, s)]


def sub_scenarios() -> list[dict]:
    out = []
    fvals = [ABSENT, 1, 2]
    def body_of(f: Any, g: int, **meta: Any) -> dict:
        spec: dict = {'g': g}
        if f is not ABSENT:
            spec['f'] = f
        return {'apiVersion': 'kopf.dev/v1', 'kind': 'KopfExample',
                'metadata': {'name': 'x', 'namespace': 'ns', 'uid': 'u1', 'resourceVersion': '5', 'labels': {'l1': 'v'}, **meta},
                'spec': spec}
    for pk, pfield in (('update', None), ('field', None), ('update', 'spec'), ('field', 'spec.f')):
        for fo in fvals:
            for fn_ in fvals:
                g_old = 0 if (fo is ABSENT) != (fn_ is ABSENT) or fo != fn_ else 7      # always an essential change
                out.append({'parent': decl(pk, 'p', 0, field=pfield), 'body': body_of(fn_, 0), 'handled': body_of(fo, g_old),
                            'event': 'MODIFIED', 'noticed': False})
    for pk in ('create', 'field'):
        for f in fvals:
            out.append({'parent': decl(pk, 'p', 0), 'body': body_of(f, 0), 'handled': None, 'event': 'ADDED', 'noticed': False})
    for pk in ('delete', 'delete_opt', 'resume_del'):
        for fo, fn_ in ((1, 1), (1, 2), (ABSENT, 1)):
            out.append({'parent': decl(pk, 'p', 0), 'handled': body_of(fo, 0),
                        'body': body_of(fn_, 0, deletionTimestamp='2020-01-01T00:00:00Z', finalizers=[FINALIZER]),
                        'event': None, 'noticed': True})
    for pk in ('resume', 'resume_del'):
        for f in (ABSENT, 1):
            out.append({'parent': decl(pk, 'p', 0), 'body': body_of(f, 0), 'handled': body_of(f, 0), 'event': None, 'noticed': True})
    out.append({'parent': decl('event', 'p', 0), 'body': body_of(1, 0), 'handled': None, 'event': 'ADDED', 'noticed': False})
    return out


def sub_case(ctx: fw.Ctx, loop: Any, sc: dict) -> list[fw.Case]:
    import kopf
    from kopf._core.reactor import subhandling
    parent = sc['parent']
    subs = sub_alphabet(parent)
    recorder: list = []
    seen: dict = {'accepted': [], 'rejected': {}, 'handlers': None, 'ran': False}
    subfns = {d['fn']: Real._mkfn(d['fn'], recorder) for d in subs}

    async def parent_fn(**kwargs: Any) -> None:
        recorder.append((0, kwargs.get('reason'), None, None, 'event' in kwargs))
        seen['ran'] = True
        for d in subs:
            try:
                kopf.subhandler(id=d['id'], when=_when_real(d['when']), field=d['field'], value=_crit_real(d['value']),
                                old=_crit_real(d['old']), new=_crit_real(d['new']),
                                labels={k: _crit_real(v) for k, v in d['labels'].items()} or None,
                                annotations={k: _crit_real(v) for k, v in d['annotations'].items()} or None)(subfns[d['fn']])
                seen['accepted'].append(d['fn'])
            except (TypeError, ValueError) as e:
                seen['rejected'][d['fn']] = canon.classify_exc(e)
        try:
            seen['handlers'] = list(subhandling.subregistry_var.get().get_all_handlers())
        except LookupError:
            seen['handlers'] = []
    parent_fn.__name__ = parent_fn.__qualname__ = 'parent_fn'

    real = Real([parent], recorder, fn_override={0: parent_fn})
    extra = set()
    for reg in (real.registry._watching, real.registry._changing, real.registry._spawning):
        extra |= reg.get_extra_fields(resource=_res_real(RES_KEX))
    extra |= {('spec', 'f'), ('spec', 'g')}
    body = _with_last_handled(sc['body'], sc['handled'], extra)
    obs = loop.run_until_complete(asyncio.wait_for(_drive_causes(
        real, RES_KEX, body, sc['event'], noticed=sc['noticed'], forever=[], carried={}, spawn_delays=[], recorder=recorder), 30))
    ctx.cov['traces_validated_against_impl'] += 1
    cases: list[fw.Case] = []
    pk = parent['kind'] + ('[' + parent['field'] + ']' if parent['field'] else '')
    if obs['outcome'] != 'ok':
        ctx.correspondence_break('sub: the parent\'s cycle failed', {'scenario': sc, 'obs': obs.get('outcome')})
        return cases
    if not seen['ran']:
        # the parent itself does not match (e.g. its own field did not change): then no sub-handler may run either
        ctx.count('sub_invoked', f"{pk}:{obs['cause'].reason.value if obs['cause'] is not None else '-'}:parent not invoked")
        if [x for x in obs['ccalls'] if x != 0]:
            ctx.fail('a sub-handler ran although its parent did not', {'parent': parent, 'scenario': {k: v for k, v in sc.items() if k != 'parent'},
                     'subs': subs, 'sub_state': None}, observed=obs['ccalls'], expected=[], sig='sub-invoked')
        return cases
    P = decl_coq(parent)
    # ---- (1) the decorator: accepted / rejected, and the constants of every record it built
    handlers = seen['handlers'] or []
    if len(handlers) != len(seen['accepted']):
        ctx.correspondence_break('sub: registry of the parent', {'accepted': seen['accepted'], 'registered': len(handlers)})
        return cases
    by_fn = dict(zip(seen['accepted'], handlers))
    for d in subs:
        acc = d['fn'] in by_fn
        data = {'parent': parent, 'sub': d, 'accepted': acc, 'rejected_with': seen['rejected'].get(d['fn'])}
        cases.append(fw.Case(f"Bool.eqb (sub_allowed {P} {_crit_coq(d['old'])} {_crit_coq(d['new'])}) {cq.cbool(acc)}", data,
                             diag=f"sub_allowed {P} {_crit_coq(d['old'])} {_crit_coq(d['new'])}"))
        ctx.count('sub_decorator', f"{pk}:{'accepted' if acc else 'TypeError'}")
        if not acc:
            continue
        h = by_fn[d['fn']]
        rsn = getattr(h, 'reason', None)
        rs = 'None' if rsn is None else f'(Some R{str(rsn.value).capitalize()})'
        b = lambda a: cq.cbool(bool(getattr(h, a, None)))
        ok_shape = (type(h).__name__ == 'ChangingHandler' and h.selector is None
                    and (h.field or None) == (tuple(d['field'].split('.')) if d['field'] else None)
                    and (h.old is None) == (d['old'] is None) and (h.new is None) == (d['new'] is None)
                    and (h.value is None) == (d['value'] is None) and (h.when is None) == (d['when'] is None)
                    and set(h.labels or {}) == set(d['labels']) and set(h.annotations or {}) == set(d['annotations'])
                    and h.errors is None and h.timeout is None and h.retries is None and h.backoff is None)
        if not ok_shape:
            ctx.correspondence_break('sub: handler record', {'sub': d, 'handler': repr(h)})
        cases.append(fw.Case(f"kv_attrs_eqb {sub_coq(parent, d)} {cq.cstr(h.id)} HChanging {rs} {b('initial')} {b('deleted')} "
                             f"{b('requires_finalizer')} {b('field_needs_change')}", {**data, 'handler_id': h.id},
                             diag=f'kv_attrs {sub_coq(parent, d)}'))
        if h.id != real_id(d):
            ctx.fail('sub-handler id is not <parent id>/<id>', data, observed=h.id, expected=real_id(d), sig='handler-id')
    if KIND_CLASS[parent['kind']] != 'changing':
        return cases
    # ---- (2) which sub-handlers were invoked in the parent's cycle
    cause = obs['cause']
    called = [x for x in obs['ccalls'] if x != 0]
    accepted = [d for d in subs if d['fn'] in by_fn]
    o = lambda v: 'None' if v is None else f'(Some {cq.cjson(dict(v))})'
    C = (f"{{| c_class := CChanging; c_resource := {_res_coq(RES_KEX)}; c_body := {cq.cjson(body)}; c_old := {o(cause.old)}; "
         f"c_new := {o(cause.new)}; c_reason := R{cause.reason.value.capitalize()}; c_initial := {cq.cbool(bool(cause.initial))} |}}")
    S = cq.clist(sub_coq(parent, d) for d in accepted)
    term = (f"match get_handlers [] {S} (adjust_cause {P} {C}) with Ok l => nat_list_eqb (fns_of l) "
            f"{cq.clist(cq.cnat(x) for x in called)} | _ => false end")
    sub_state = state('changing', body, reason=cause.reason.value, initial=bool(cause.initial),
                      old=_narrow(None if cause.old is None else dict(cause.old), parent['field']),
                      new=_narrow(None if cause.new is None else dict(cause.new), parent['field']))
    case = {'parent': parent, 'subs': accepted, 'scenario': {k: v for k, v in sc.items() if k != 'parent'}, 'sub_state': sub_state}
    cases.append(fw.Case(term, {**case, 'called': called}, diag=f"rids (get_handlers [] {S} (adjust_cause {P} {C}))"))
    ctx.count('sub_invoked', f"{pk}:{cause.reason.value}:{len(called)}/{len(accepted)}")
    for d in accepted:
        ctx.cov['evaluations'] += 1
        if d['field'] and (d['fn'] in called) != (sub_alphabet(parent)[0]['fn'] in called):
            ctx.nontriv(['sub', parent, d, sc['body']['spec'], (sc['handled'] or {}).get('spec')])
    if parent['field'] is None:
        # ---- monitor (docs): invoked iff the parent ran and the sub-handler's own criteria hold, incl. "the field changed"
        exp = sub_expected(parent, accepted, sub_state)
        if called != exp:
            ctx.fail('sub-handlers invoked <> sub-handlers whose declared criteria hold (incl. "the field actually changed")',
                     case, observed=called, expected=exp, sig='sub-invoked')
    return cases


def sub_tie(ctx: fw.Ctx) -> None:
    loop = asyncio.new_event_loop()
    cases: list[fw.Case] = []
    try:
        for k, sc in enumerate(sub_scenarios()):
            try:
                cases += sub_case(ctx, loop, sc)
            except Exception as e:
                ctx.correspondence_break('sub:driver', {'error': repr(e)[:400], 'scenario': sc})
                break
            if k == 1:
                ctx.sample({'sweep': 'sub', 'parent': sc['parent'], 'body_spec': sc['body']['spec'],
                            'handled_spec': (sc['handled'] or {}).get('spec')}, limit=10)
    finally:
        loop.close()
    ctx.differential('sub', HEADER, cases, shard=150)


E2E_KINDS = ('create', 'update', 'delete_opt', 'delete', 'resume', 'resume_del', 'field', 'event', 'daemon', 'timer')


def gen_e2e(r: Any) -> tuple[list[dict], dict]:
    kinds = list(E2E_KINDS)
    decls: list[dict] = []
    for j in range(r.choice([1, 1, 2, 3, 4])):
        kind = r.choice(kinds)
        d = decl(kind, f'e{j}', j)
        how = r.randrange(6)
        if how == 0:
            d['labels'] = {'l1': gen_crit(r, ['PRESENT', ['val', 'v'], ['val', 'w'], ['cb', ['eq', 'v']]])}
        elif how == 1:
            d['annotations'] = {'a1': gen_crit(r, ['PRESENT', ['val', 'v'], 'ABSENT'])}
        elif how == 2:
            d['when'] = r.choice(['F', ['spec_eq', 'g', 1]])
        elif how == 3:
            d['field'] = 'spec.f'
            d['value'] = gen_crit(r, [None, ['val', 1], ['val', 2], 'PRESENT', 'ABSENT'])
        elif how == 4:
            d['labels'] = {'l1': gen_crit(r, ['ABSENT', ['val', 'v']])}
            d['field'] = 'spec.f'
            if kind in UPDATE_KINDS:
                d['new'] = gen_crit(r, [['val', 1], 'PRESENT'])
            else:
                d['value'] = gen_crit(r, [['val', 1], 'PRESENT'])
        decls.append(d)
    meta: dict = {'name': 'x', 'namespace': 'ns', 'uid': 'u1', 'resourceVersion': '5'}
    if r.random() < 0.5:
        meta['labels'] = {'l1': r.choice(['v', 'w', ''])}
    if r.random() < 0.4:
        meta['annotations'] = {'a1': r.choice(['v', 'w']), 'user/note': 'keep'}
    if r.random() < 0.25:
        meta['finalizers'] = r.choice([[FINALIZER], ['other/fin'], ['other/fin', FINALIZER]])
    if r.random() < 0.15:
        meta['deletionTimestamp'] = '2020-01-01T00:00:00Z'
    spec: dict = {'g': r.choice([0, 1])}
    if r.random() < 0.6:
        spec['f'] = r.choice([1, 2])
    return decls, {'apiVersion': 'kopf.dev/v1', 'kind': 'KopfExample', 'metadata': meta, 'spec': spec}


def spec_matched_by_any(decls: list[dict], body: dict, old_counts: bool = False) -> bool:
    """"matched by no handler": no declaration of any kind has its object-describing filters satisfied by the current object
    (for update handlers with a field: a fresh object has no old state, so only the current value counts)."""
    for d in decls:
        cls = KIND_CLASS[d['kind']]
        s = state(cls, body, reason='create', old=None, new=body)
        if spec_static(d, s, old_counts):
            return True
    return False


def e2e_allowed(decls: list[dict], body: dict, raw_type: Any, old_counts: bool = False) -> set[str]:
    """A fresh (never handled) object: which handlers may be called in the very first cycle."""
    deleting = spec_deleting(body)
    allowed = set()
    for d in decls:
        cls = KIND_CLASS[d['kind']]
        if cls == 'watching':
            if spec_static(d, state(cls, body), old_counts):
                allowed.add(d['id'])
            continue
        # no last-handled state => creation (or deletion if marked so); resuming is mixed in only for objects noticed by
        # the initial listing, and never into a creation
        reason = 'delete' if deleting else 'create'
        s = state('changing', body, reason=reason, initial=(raw_type is None and reason != 'create'), old=None, new=body)
        if spec_kind(d, s) and spec_static(d, s, old_counts) and spec_transition(d, s):
            allowed.add(d['id'])
    return allowed


def e2e_one(ctx: fw.Ctx, loop: Any, decls: list[dict], body: dict, raw_type: Any) -> dict | None:
    """One real processing cycle of a fresh object + all end-to-end monitors. None if skipped."""
    recorder: list = []
    writes: list = []
    real = Real(decls, recorder)
    matched = spec_matched_by_any(decls, body)
    spawning = any(KIND_CLASS[d['kind']] == 'spawning' for d in decls)
    if matched and spawning:
        ctx.count('e2e', 'skipped: matched with daemons/timers (tasks are not driven here)')
        return None
    loop.run_until_complete(asyncio.wait_for(_one_event(real, RES_KEX, raw_type, body, writes), 30))
    after = _apply_writes(body, writes)
    case = {'decls': decls, 'body': body, 'event': raw_type}
    ctx.cov['traces_validated_against_impl'] += 1
    calls = [x[0] for x in recorder]
    if not matched:
        ctx.count('e2e', 'unmatched' + (':stale-finalizer' if FINALIZER in body['metadata'].get('finalizers', []) else ''))
        ctx.nontriv(['stealth', decls, body])
        a0 = body['metadata'].get('annotations', {})
        a1 = after.get('metadata', {}).get('annotations', {}) or {}
        f0 = body['metadata'].get('finalizers', [])
        f1 = after.get('metadata', {}).get('finalizers', []) or []
        added_ann = sorted(k for k in a1 if k not in a0 or a1[k] != a0[k])
        added_fin = sorted(x for x in f1 if x not in f0)
        if added_ann or added_fin or recorder:
            ctx.fail('an object matched by no handler was touched (annotation/finaliser added or a handler called)', case,
                     observed={'writes': writes, 'annotations_added': added_ann, 'finalizers_added': added_fin,
                               'called': calls}, expected='no annotation, no finaliser, no call', sig='stealth')
        if FINALIZER in f0 and FINALIZER in f1:
            ctx.fail('an object matched by no handler keeps the operator\'s (stale) finaliser', case,
                     observed={'writes': writes, 'finalizers_after': f1}, expected='own finaliser removed', sig='stealth-finalizer')
        if any(k != 'metadata' for _, p in writes if isinstance(p, dict) for k in p):
            ctx.fail('an object matched by no handler got a write outside metadata', case, observed=writes, sig='stealth')
    else:
        # a fresh (never handled) object, matched: which handlers may be called in this very cycle
        ctx.count('e2e', 'matched')
        by_fn = {d['fn']: d['id'] for d in decls}
        called = sorted({by_fn.get(i, f'fn{i}') for i in calls})
        allowed = e2e_allowed(decls, body, raw_type)
        extra = [c for c in called if c not in allowed]
        if extra:
            ctx.fail('a handler whose declared criteria do not hold was invoked', case, observed=called,
                     expected=sorted(allowed), sig='invoked')
        # one function registered (however often, wherever in the registration order) under ONE id: at most one call per cause
        one_id = {fn for fn in by_fn if len({real_id(d) for d in decls if d['fn'] == fn}) == 1}
        twice = sorted(fn for fn in one_id if calls.count(fn) > 1)
        if twice:
            ctx.fail('one function registered under one id was invoked more than once for one cause', case,
                     observed={'calls_in_order': calls}, expected={'at_most_once': twice}, sig='invoked-twice')
        if called:
            ctx.nontriv(['invoked', decls, body])
        ctx.count('e2e_invoked', str(len(calls)))
    return {'sweep': 'e2e', 'decls': decls, 'body': body, 'writes': writes, 'called': calls}


def e2e(ctx: fw.Ctx, n: int) -> None:
    r = ctx.rng
    loop = asyncio.new_event_loop()
    try:
        jobs = [(c['decls'], c['body'], c.get('event')) for c in load_corpus() if 'state' not in c and 'body' in c]
        for _ in jobs:
            ctx.count('corpus', 'e2e cases')
        jobs += [(d, b, t) for d, b, t in e2e_dedup_jobs(ctx.thorough)]
        for i in range(n):
            decls, body = gen_e2e(r)
            jobs.append((decls, body, r.choice([None, 'ADDED', 'MODIFIED'])))
        for i, (decls, body, raw_type) in enumerate(jobs):
            try:
                res = e2e_one(ctx, loop, decls, body, raw_type)
            except Exception as e:      # the observation point is gone or the cycle fails: fail closed
                ctx.correspondence_break('e2e:process_resource_event', {'error': repr(e)[:400], 'decls': decls, 'body': body})
                return
            if res is not None and i in (0, len(jobs) - n):
                ctx.sample(res, limit=8)
    finally:
        loop.close()


def replay(ctx: fw.Ctx, body: dict) -> bool:
    """Re-evaluate the monitors on the recorded case against the current tree."""
    ctx.matchers = {}
    ctx.findings = []
    c = body.get('case') or {}
    if 'state' in c and 'decls' in c:
        run_case(ctx, c['decls'], c['state'], tuple(c.get('excluded', ())))
    elif 'parent' in c and 'scenario' in c:
        loop = asyncio.new_event_loop()
        try:
            sub_case(ctx, loop, {'parent': c['parent'], **c['scenario']})
        finally:
            loop.close()
    elif 'body' in c and 'decls' in c:
        loop = asyncio.new_event_loop()
        try:
            e2e_one(ctx, loop, c['decls'], c['body'], c.get('event'))
        finally:
            loop.close()
    return bool(ctx.failures)
