"""C08, function level — the real `patching.patch_obj` and `application.apply` against the Gallina model
coq/Model/PatchObj.v (differential), plus monitors which read the property text on what the real code did.

The API server is harness/kv/fakeapi.FakeAPI (RFC 7386 / RFC 6902 writes by the harness's own evaluators in
kv.canon) behind a small session wrapper which injects, per request index, a fault (404 / 422 / 409 / 200 with an
empty body) and, before the request number `slip`, a foreign write (edit / delete / delete-and-recreate under the
same name).  The model is fed the responses that the server gave (a script), the recorded question/answer pairs
of jsonpatch.from_diff (an oracle in the model), and must produce the same requests (method, URL kind, content
type, payload), the same returned body and the same remaining patch (identity of the fns) or the same exception.
"""
from __future__ import annotations

import asyncio
import copy
import functools
import itertools
import json
import logging
from typing import Any, Callable

import aiohttp

from kv import canon, clock, coqio as cq, fakeapi as fa, framework as fw, vloop

RULE_FN = ('function level: bounded-exhaustive product patch shape {body, status, both, status: None, body + status: None, fns only, all} x status subresource {yes,no} x '
           'fault plan {none; request i in 0..3 answered 404/422/409/200-with-empty-body} x foreign write {none; before request '
           '0..3: annotation edit / finalizer added / finalizer removed / delete / delete-and-recreate} on objects carrying foreign '
           'finalizers around kopf\'s own x fns {block, allow, idempotent list edit, status edit, block+status, '
           'list+status, raising, move spec->status, move status->spec, ensure-label(no-op)+list edit with the label removed by the foreign writer}; non-trivial iff >= 2 requests were sent or a fault/foreign write took effect; distinct by '
           '(shape, subresource, observed request kinds, statuses, outcome)')

HEADER = fw.STD_HEADER + 'From KV Require Import Base.Dicts Model.JsonPatch Model.Causes Model.PatchObj.\n'

FIN = 'kopf.zalando.org/KopfFinalizerMarker'
NS, NAME = 'ns1', 'x'
GROUP, VERSION, PLURAL = 'kopf.dev', 'v1', 'kopfexamples'
MAIN_PATH = f'/apis/{GROUP}/{VERSION}/namespaces/{NS}/{PLURAL}/{NAME}'
CT_MERGE = 'application/merge-patch+json'
CT_JSON = 'application/json-patch+json'
TOUCH_KEY = 'kopf.zalando.org/touch-dummy'
SLOTS = {('main', CT_MERGE): 0, ('status', CT_MERGE): 1, ('main', CT_JSON): 2, ('status', CT_JSON): 3}
LOGGER = logging.getLogger('kv.c08')
LOGGER.setLevel(logging.CRITICAL)


# ---------------------------------------------------------------------------------------------
# transformation functions: Python closure + the Coq term of the same function + exactly-once reading
# ---------------------------------------------------------------------------------------------

def _fn_listedit(body: dict) -> None:
    items = body.setdefault('spec', {}).setdefault('items', [])
    if 'x' not in items:
        items.append('x')


def _fn_statusedit(body: dict) -> None:
    body.setdefault('status', {})['y'] = 2


def _fn_append(body: dict) -> None:          # NOT idempotent: only in the differential, never in the exactly-once monitor
    body.setdefault('spec', {}).setdefault('items', []).append('z')


def _mk_move(src: str, dst: str, key: str) -> Callable[[dict], None]:
    def move(body: dict) -> None:
        s = body.get(src)
        if isinstance(s, dict) and key in s:
            body.setdefault(dst, {})[key] = s.pop(key)
    move.__name__ = f'move_{src}_{key}_to_{dst}'
    return move


_fn_move_to_status = _mk_move('spec', 'status', 'token')       # a value moved from the spec into the status ...
_fn_move_to_spec = _mk_move('status', 'spec', 'tok2')          # ... and the other way round: the ops cross the /status split


def _fn_ensure_label(body: dict) -> None:      # 'ensure'-style: a no-op on the body the operator knows (the label is there)
    body.setdefault('metadata', {}).setdefault('labels', {}).setdefault('app', 'demo')


def _fn_raise(body: dict) -> None:
    raise TypeError('a transformation that fails')


def make_fn(kind: str) -> Callable[[dict], None]:
    from kopf._cogs.structs import finalizers
    if kind == 'block':
        return functools.partial(finalizers.block_deletion, finalizer=FIN)
    if kind == 'allow':
        return functools.partial(finalizers.allow_deletion, finalizer=FIN)
    return {'listedit': _fn_listedit, 'statusedit': _fn_statusedit, 'append': _fn_append, 'raise': _fn_raise, 'ensure_label': _fn_ensure_label,
            'move_to_status': _fn_move_to_status, 'move_to_spec': _fn_move_to_spec}[kind]


def fn_term(kind: str, tag: int) -> str:
    f = {'block': f'(block_deletion {cq.cstr(FIN)})', 'allow': f'(allow_deletion {cq.cstr(FIN)})',
         'listedit': '(po_fn_add2 "spec" "items" (JStr "x"))', 'statusedit': '(po_fn_set2 "status" "y" (JNum 2%Z))',
         'append': '(po_fn_append2 "spec" "items" (JStr "z"))', 'raise': 'po_fn_raise',
         'ensure_label': '(po_fn_ensure3 "metadata" "labels" "app" (JStr "demo"))',
         'move_to_status': '(po_fn_move "spec" "status" "token")', 'move_to_spec': '(po_fn_move "status" "spec" "tok2")'}[kind]
    return f'(mkFn {cq.cnat(tag)} {f})'


def effect_count_ok(kind: str, obj: dict | None) -> bool | None:
    """Is the effect of an (idempotent) transformation present exactly once in the server object?"""
    if obj is None:
        return None
    if kind == 'block':
        return (obj.get('metadata', {}).get('finalizers') or []).count(FIN) == 1
    if kind == 'allow':
        return FIN not in (obj.get('metadata', {}).get('finalizers') or [])
    if kind == 'listedit':
        return (obj.get('spec', {}).get('items') or []).count('x') == 1
    if kind == 'statusedit':
        return (obj.get('status') or {}).get('y') == 2
    if kind == 'ensure_label':
        return (obj.get('metadata', {}).get('labels') or {}).get('app') == 'demo'
    return None


FN_VARIANTS: dict[str, list[str]] = {
    'block': ['block'], 'allow': ['allow'], 'listedit': ['listedit'], 'statusedit': ['statusedit'],
    'block+status': ['block', 'statusedit'], 'list+status': ['listedit', 'statusedit'], 'raise': ['statusedit', 'raise'],
    'move-to-status': ['move_to_status'], 'move-to-spec': ['move_to_spec'],
    'ensure+list': ['ensure_label', 'listedit'],          # a no-op on the known body next to an effective one
}
MOVE_KINDS = {'move_to_status': ('spec', 'token'), 'move_to_spec': ('status', 'tok2')}      # kind -> where the value comes from

SHAPES: dict[str, tuple[dict, bool]] = {   # merge-patch content, has fns
    'body': ({'metadata': {'annotations': {'k': 'v', 'keep': None}}, 'spec': {'b': 2}}, False),
    'status': ({'status': {'s': 1, 'old': None}}, False),
    'both': ({'metadata': {'labels': {'l': 'w'}}, 'status': {'s': 1, 'nested': {'p': [1, 2]}}}, False),
    'status-null': ({'status': None}, False),                                           # removes the whole status (F801, fixed in 0a8dc55)
    'body+status-null': ({'metadata': {'labels': {'l': 'w'}}, 'spec': {'b': 2}, 'status': None}, False),
    'fns': ({}, True),
    'all': ({'metadata': {'annotations': {'k': 'v'}}, 'spec': {'b': 2}, 'status': {'s': 1, 'old': None}}, True),
}


FOREIGN_FINS = ['other', 'other2']      # finalizers of other controllers, around kopf's own: [other, kopf, other2]
FOREIGN_ADDED = 'other3'


def initial_object(fns: list[str], deleting: bool = False, touched: bool = False, no_fins: bool = False) -> dict:
    fins = [FOREIGN_FINS[0]] + ([FIN] if 'allow' in fns else []) + [FOREIGN_FINS[1]]
    if no_fins:
        fins = [FIN] if 'allow' in fns else []
    if deleting:
        fins = [FIN]
    o: dict[str, Any] = {'spec': {'a': 1, 'items': ['i0'], 'token': 't-1'},
                         'metadata': {'finalizers': fins, 'annotations': {'keep': 'me'}, 'labels': {'app': 'demo'}},
                         'status': {'old': 0, 'tok2': 't-2'}}
    if touched:
        o['metadata']['annotations'][TOUCH_KEY] = '2029-12-31T00:00:00+00:00'
    return o


# ---------------------------------------------------------------------------------------------
# the server side: FakeAPI behind a scripting/recording session
# ---------------------------------------------------------------------------------------------

class Exchange:
    __slots__ = ('method', 'url', 'kind', 'ctype', 'payload', 'status', 'body', 'before', 'after', 'slipped', 'injected', 'slip_changed')

    def brief(self) -> dict:
        return {'method': self.method, 'url': self.kind, 'ctype': self.ctype, 'payload': self.payload, 'status': self.status,
                'slipped': self.slipped, 'injected': self.injected}


class ScriptedSession:
    """What kopf sees as aiohttp.ClientSession.  Request i: the foreign write (if slip == i), then either the
    injected fault or the FakeAPI; records the server object before/after."""

    def __init__(self, api: fa.FakeAPI, kind: fa.Kind, fault: tuple[int, str] | None, slip: tuple[int, str] | None) -> None:
        self.api, self.kind = api, kind
        self.inner = api.session('op')
        self.fault, self.slip = fault, slip
        self.log: list[Exchange] = []
        self.closed = False
        self.headers: dict[str, str] = {}
        self.index = 0            # continues over several calls sharing the session (apply: patch, then touch)

    def foreign(self, how: str) -> None:
        api, kind = self.api, self.kind
        if how == 'edit':
            api.edit(kind, NS, NAME, lambda b: b['metadata'].setdefault('annotations', {}).__setitem__('foreign', f'w{api.rv}'), actor='foreign')
        elif how == 'fin_add':       # another controller attaches its finalizer
            api.edit(kind, NS, NAME, lambda b: b['metadata'].setdefault('finalizers', []).append(FOREIGN_ADDED), actor='foreign')
        elif how == 'fin_remove':    # another controller releases its (the first foreign) finalizer
            def drop(b: dict) -> None:
                fins = b['metadata'].get('finalizers') or []
                gone = [f for f in fins if f != FIN][:1]
                b['metadata']['finalizers'] = [f for f in fins if f not in gone]
            api.edit(kind, NS, NAME, drop, actor='foreign')
        elif how == 'clobber':       # somebody changes the very fields which the operator re-asserts with their last-seen values
            def clobber(b: dict) -> None:
                b.setdefault('status', {})['old'] = 5
                b['metadata'].setdefault('labels', {})['app'] = 'taken-over'
                b.setdefault('spec', {})['a'] = 7
            api.edit(kind, NS, NAME, clobber, actor='foreign')
        elif how == 'unlabel':       # somebody removes the label which an 'ensure' transformation keeps in place
            api.edit(kind, NS, NAME, lambda b: (b['metadata'].get('labels') or {}).pop('app', None), actor='foreign')
        elif how == 'delete':
            api.delete(kind, NS, NAME, actor='foreign', force=True)
        elif how == 'recreate':
            api.delete(kind, NS, NAME, actor='foreign', force=True)
            api.create(kind, NS, NAME, {'spec': {'a': 1, 'items': ['i0']}, 'metadata': {'labels': {'app': 'demo'}}}, actor='foreign')
        else:
            raise ValueError(how)

    async def request(self, method: str, url: str, json: Any = None, headers: dict | None = None, timeout: Any = None, **_: Any) -> fa.Response:
        i = self.index
        self.index += 1
        x = Exchange()
        x.method, x.url, x.payload = method, url, copy.deepcopy(json)
        x.ctype = (headers or {}).get('Content-Type')
        path = url.split('://', 1)[-1]
        path = path[path.index('/'):] if '/' in path else path
        x.kind = 'main' if path == MAIN_PATH else 'status' if path == MAIN_PATH + '/status' else f'other:{path}'
        x.slipped = None
        x.slip_changed = False
        if self.slip is not None and self.slip[0] == i:
            pre = self.api.get(self.kind, NS, NAME)
            self.foreign(self.slip[1])
            x.slipped = self.slip[1]
            x.slip_changed = self.api.get(self.kind, NS, NAME) != pre
        x.before = self.api.get(self.kind, NS, NAME)
        x.injected = None
        if self.fault is not None and self.fault[0] == i:
            x.injected = self.fault[1]
            if self.fault[1] == 'empty200':
                resp = fa.Response(200, {})
            elif self.fault[1] == 'lost':        # the server applies the write, the response never arrives
                resp = await self.inner.request(method, url, json=json, headers=headers, timeout=timeout)
                x.status, x.body, x.after = resp.status, copy.deepcopy(resp._payload), self.api.get(self.kind, NS, NAME)
                self.log.append(x)
                raise aiohttp.ClientConnectionError('fake: the response was lost')
            else:
                code = int(self.fault[1])
                resp = fa.Response(code, fa.status_payload(code, 'Injected'))
        else:
            resp = await self.inner.request(method, url, json=json, headers=headers, timeout=timeout)
        x.status = resp.status
        x.body = copy.deepcopy(resp._payload)
        x.after = self.api.get(self.kind, NS, NAME)
        self.log.append(x)
        return resp

    async def close(self) -> None:
        self.closed = True


class Env:
    """One loop, one logger, the kopf objects which do not depend on the case."""

    def __init__(self) -> None:
        from kopf._cogs.configs import configuration
        from kopf._cogs.structs import references
        clock.install()
        self.loop = vloop.new_loop()
        self.settings = configuration.OperatorSettings()
        self.settings.networking.error_backoffs = []      # the retry loop of api.request belongs to C12
        self.resources = {
            sub: references.Resource(group=GROUP, version=VERSION, plural=PLURAL, kind='KopfExample', singular='kopfexample',
                                     shortcuts=frozenset(), categories=frozenset(),
                                     subresources=frozenset(['status']) if sub else frozenset(),
                                     namespaced=True, preferred=True, verbs=frozenset(['patch']))
            for sub in (False, True)}

    def run(self, coro: Any) -> tuple[str, Any]:
        """-> ('ok', value) | ('exc', exception)"""
        with vloop.running(self.loop):
            task = self.loop.spawn(coro)
            self.loop.run_until(task.done, self.loop.time() + 100000.0)
            if not task.done():
                task.cancel()
                self.loop.settle()
                return 'exc', RuntimeError('the call did not finish')
            if task.exception() is not None:
                return 'exc', task.exception()
            return 'ok', task.result()

    def close(self) -> None:
        vloop.close_loop(self.loop)


class DiffRecorder:
    """Records every jsonpatch.JsonPatch.from_diff(src, dst) -> ops while active."""

    def __init__(self) -> None:
        self.calls: list[tuple[Any, Any, list]] = []

    def __enter__(self) -> 'DiffRecorder':
        import jsonpatch
        self.jp = jsonpatch
        self.orig = jsonpatch.JsonPatch.__dict__['from_diff']
        rec = self

        def from_diff(cls: Any, src: Any, dst: Any, *a: Any, **kw: Any) -> Any:
            res = rec.orig.__func__(cls, src, dst, *a, **kw)
            rec.calls.append((copy.deepcopy(src), copy.deepcopy(dst), copy.deepcopy(res.patch)))
            return res
        jsonpatch.JsonPatch.from_diff = classmethod(from_diff)   # type: ignore[method-assign]
        return self

    def __exit__(self, *exc: Any) -> None:
        self.jp.JsonPatch.from_diff = self.orig   # type: ignore[method-assign]


def set_vault(sess: Any) -> None:
    from kopf._cogs.clients import auth
    from kopf._cogs.structs import credentials
    auth.vault_var.set(credentials.Vault({credentials.VaultKey('k'): credentials.AiohttpSession(server='http://fake', aiohttp_session=sess)}))


# ---------------------------------------------------------------------------------------------
# encoders
# ---------------------------------------------------------------------------------------------

def cobj(d: dict) -> str:
    return cq.clist(cq.cpair(cq.cstr(k), cq.cjson(v)) for k, v in d.items())


def cop(op: dict) -> str:
    k = op['op']
    p = cq.cstr(op['path'])
    if k == 'add':
        return f'(OAdd {p} {cq.cjson(op["value"])})'
    if k == 'replace':
        return f'(OReplace {p} {cq.cjson(op["value"])})'
    if k == 'test':
        return f'(OTest {p} {cq.cjson(op.get("value"))})'
    if k == 'remove':
        return f'(ORemove {p})'
    if k == 'move':
        return f'(OMove {cq.cstr(op["from"])} {p})'
    if k == 'copy':
        return f'(OCopy {cq.cstr(op["from"])} {p})'
    raise cq.Unencodable(f'op {op!r}')


def cops(ops: list) -> str:
    return cq.clist(cop(o) for o in ops)


def creq(x: Exchange) -> str:
    url = {'main': 'UMain', 'status': 'UStatus'}[x.kind]
    payload = f'(PJson {cops(x.payload)})' if isinstance(x.payload, list) else f'(PMerge {cq.cjson(x.payload)})'
    return f'(mkReq {cq.cstr(x.method)} {url} {cq.cstr(x.ctype or "")} {payload})'


def cresp(x: Exchange) -> str:
    if x.status == 200:
        return f'(ROk {cq.cjson(x.body)})'
    if x.status == 404:
        return 'RNotFound'
    if x.status == 422:
        return 'RUnprocessable'
    return f'(RFail {cq.cZ(x.status)})'


def cerr(e: BaseException) -> str:
    from kopf._cogs.clients import errors
    if isinstance(e, errors.APIError):
        return f'(EApi {cq.cZ(int(e.status))})'
    if isinstance(e, KeyError):
        return 'EKey'
    if isinstance(e, (TypeError, AttributeError)):
        return 'EType'
    if isinstance(e, ValueError):
        return 'EValue'
    raise e


def cdiffs(calls: list) -> str:
    return cq.clist(f'({cq.cjson(s)}, {cq.cjson(d)}, {cops(o)})' for s, d, o in calls)


def ctags(remaining: Any, fns: list) -> str:
    if remaining is None:
        return 'None'
    tags = []
    for f in remaining.fns:
        idx = [i for i, g in enumerate(fns) if g is f]
        tags.append(idx[0] if idx else 4999)
    return f'(Some {cq.clist(cq.cnat(t) for t in tags)})'


# ---------------------------------------------------------------------------------------------
# one patch_obj case
# ---------------------------------------------------------------------------------------------

def share(term: str, values: list) -> str:
    """The same term with the bodies which occur several times bound once (`let`): the case files are parsed faster."""
    binds = []
    for v in values:
        if v is None:
            continue
        t = cq.cjson(v)
        if len(t) > 150 and term.count(t) > 1:
            name = f'kvb{len(binds)}'
            term = term.replace(t, name)
            binds.append(f'let {name} := {t} in ')
    return '(' + ''.join(binds) + term + ')' if binds else term


def case_desc(shape: str, sub: bool, fault: Any, slip: Any, fnv: str | None, extra: dict | None = None) -> dict:
    d = {'level': 'function', 'fn': 'patch_obj', 'shape': shape, 'subresource': sub, 'fault': list(fault) if fault else None,
         'slip': list(slip) if slip else None, 'fns': fnv}
    d.update(extra or {})
    return d


def run_patch_obj(env: Env, desc: dict) -> dict:
    """Drive the real patch_obj on one case; returns everything observed."""
    from kopf._cogs.clients import patching
    from kopf._cogs.structs import bodies, patches
    sub = desc['subresource']
    fn_kinds = FN_VARIANTS[desc['fns']] if desc.get('fns') else []
    fn_kinds = desc.get('fn_kinds', fn_kinds)
    content = copy.deepcopy(desc['patch']) if 'patch' in desc else copy.deepcopy(SHAPES[desc['shape']][0])
    kind = fa.Kind(GROUP, VERSION, 'KopfExample', PLURAL, status_subresource=sub)
    api = fa.FakeAPI([kind])
    obj0 = api.create(kind, NS, NAME, initial_object(fn_kinds, deleting=bool(desc.get('deleting')), no_fins=bool(desc.get('no_fins'))))
    if desc.get('deleting'):
        api.delete(kind, NS, NAME, actor='user')
        obj0 = api.get(kind, NS, NAME)
    sess = ScriptedSession(api, kind, tuple(desc['fault']) if desc.get('fault') else None, tuple(desc['slip']) if desc.get('slip') else None)
    set_vault(sess)
    fns = [make_fn(k) for k in fn_kinds]
    original = None if desc.get('no_original') else bodies.Body(copy.deepcopy(obj0))
    patch = patches.Patch(content, body=original, fns=fns)
    with DiffRecorder() as rec:
        how, val = env.run(patching.patch_obj(settings=env.settings, resource=env.resources[sub], namespace=NS, name=NAME,
                                              patch=patch, logger=LOGGER, silent=True))
    out = {'desc': desc, 'api': api, 'kind': kind, 'sess': sess, 'obj0': obj0, 'fns': fns, 'fn_kinds': fn_kinds, 'patch': patch,
           'content': content, 'diffs': rec.calls, 'how': how, 'val': val, 'original': None if original is None else copy.deepcopy(obj0)}
    return out


def patch_obj_case(o: dict) -> fw.Case:
    desc, sess = o['desc'], o['sess']
    fns_t = cq.clist(fn_term(k, i) for i, k in enumerate(o['fn_kinds']))
    orig_t = cq.copt(None if o['original'] is None else cq.cjson(o['original']))
    script = cq.clist(cresp(x) for x in sess.log)
    reqs = cq.clist(creq(x) for x in sess.log)
    if o['how'] == 'ok':
        body, remaining = o['val']
        out_t = f'(ReturnedT {cq.copt(None if body is None else cq.cjson(body))} {ctags(remaining, o["fns"])})'
    else:
        out_t = f'(RaisedT {cerr(o["val"])})'
    call = (f'(patch_obj po_script po_scripted (po_recorded_diff {cdiffs(o["diffs"])}) {cq.cbool(desc["subresource"])} '
            f'{cobj(o["content"])} {fns_t} {orig_t} {script})')
    term = f'(let r := {call} in po_obs_eqb (po_obs r) ({reqs}, {out_t}) && negb (po_nonempty (r_srv r)))'
    term = share(term, [x.body for x in reversed(sess.log)] + [o['original']])
    data = dict(desc, requests=[x.brief() for x in sess.log],
                outcome=(['returned', o['val'][0], None if o['val'][1] is None else len(o['val'][1].fns)] if o['how'] == 'ok' else ['raised', repr(o['val'])]))
    return fw.Case(term, data, diag=f'po_obs {call}')


def server_case(o: dict) -> fw.Case | None:
    """The same run in the CLOSED model: patch_obj against the Gallina stateful server po_wserve (instance po_fake_*), which must
    give the same requests, outcome and final server object as the real patch_obj against FakeAPI.  None: outside what the
    Gallina server mirrors (injected responses, delete/recreate, writes that change nothing, objects under deletion)."""
    desc, sess = o['desc'], o['sess']
    log = sess.log
    if o['original'] is None or desc.get('deleting') or not log or any(x.injected for x in log):
        return None
    fired = [(i, x) for i, x in enumerate(log) if x.slipped]
    if any(x.slipped not in ('edit', 'fin_add', 'fin_remove') or not x.slip_changed for _, x in fired):
        return None
    if any(x.status == 200 and x.after == x.before for x in log) or any(x.status not in (200, 422) for x in log):
        return None
    if fired:
        i, x = fired[0]
        f = {'edit': lambda: f'(po_fake_set_ann "foreign" {cq.cjson(x.before["metadata"]["annotations"]["foreign"])})',
             'fin_add': lambda: f'(po_fake_fin_add {cq.cstr(FOREIGN_ADDED)})',
             'fin_remove': lambda: f'(po_fake_fin_remove {cq.cstr(FIN)})'}[x.slipped]()
        slip_t, foreign_t = cq.cnat(i), f'(po_fake_edit {f})'
    else:
        slip_t, foreign_t = cq.cnat(9), '(fun o => o)'
    obj0 = o['original']
    c0 = int(obj0['metadata']['resourceVersion'])
    fns_t = cq.clist(fn_term(k, i) for i, k in enumerate(o['fn_kinds']))
    reqs = cq.clist(creq(x) for x in log)
    if o['how'] == 'ok':
        body, remaining = o['val']
        out_t = f'(ReturnedT {cq.copt(None if body is None else cq.cjson(body))} {ctags(remaining, o["fns"])})'
    else:
        out_t = f'(RaisedT {cerr(o["val"])})'
    final = o['api'].get(o['kind'], NS, NAME)
    sub_t = cq.cbool(desc['subresource'])
    call = (f'(patch_obj po_world (po_wserve po_fake_rvs po_fake_post {sub_t} {slip_t} {foreign_t}) (po_recorded_diff {cdiffs(o["diffs"])}) '
            f'{sub_t} {cobj(o["content"])} {fns_t} (Some {cq.cjson(obj0)}) (mkW (Some {cq.cjson(obj0)}) {cq.cnat(c0)} 0 nil))')
    term = f'(let r := {call} in po_obs_eqb (po_obs r) ({reqs}, {out_t}) && po_ojeqb (w_obj (r_srv r)) {cq.copt(None if final is None else cq.cjson(final))})'
    term = share(term, [final, obj0] + [x.body for x in reversed(log)])
    data = dict(desc, tie='closed model: po_wserve vs FakeAPI', requests=[x.brief() for x in log], final=final)
    return fw.Case(term, data, diag=f'(let r := {call} in (po_obs r, w_obj (r_srv r)))')


# ---------------------------------------------------------------------------------------------
# monitors: the property text evaluated on what the implementation did
# ---------------------------------------------------------------------------------------------

def norm(o: Any) -> Any:
    """A server object without the fields every write changes and without emptied K8s-managed stanzas."""
    if o is None:
        return None
    o = copy.deepcopy(o)
    md = o.get('metadata', {})
    for k in ('resourceVersion', 'generation'):
        md.pop(k, None)
    for k in ('annotations', 'labels', 'finalizers'):
        if k in md and not md[k]:
            del md[k]
    return o


def foreign_fins(obj: dict | None) -> list | None:
    if obj is None:
        return None
    return [f for f in (obj.get('metadata', {}).get('finalizers') or []) if f != FIN]


def norm_fins(x: Any) -> Any:
    """An emptied finalizers list and an absent one are the same object to the API server."""
    if isinstance(x, dict) and isinstance(x.get('metadata'), dict) and 'finalizers' in x['metadata'] and not x['metadata']['finalizers']:
        x = copy.deepcopy(x)
        del x['metadata']['finalizers']
    return x


def is_status_path(p: str) -> bool:
    return p == '/status' or p.startswith('/status/')


def monitor_patch_obj(ctx: fw.Ctx, o: dict) -> None:
    from kopf._cogs.clients import errors
    desc, sess, log = o['desc'], o['sess'], o['sess'].log
    sub = desc['subresource']
    content = o['content']
    fn_kinds = o['fn_kinds']
    case = dict(desc, requests=[x.brief() for x in log])
    ok = o['how'] == 'ok'
    body, remaining = o['val'] if ok else (None, None)
    statuses = [x.status for x in log]
    clean = all(s == 200 for s in statuses) and not any(x.injected for x in log)

    # ---- split rule: which URL, how often, in which order
    slots = []
    for x in log:
        if x.method.lower() != 'patch' or x.kind not in ('main', 'status') or (x.kind, x.ctype) not in SLOTS:
            ctx.fail('a request other than PATCH main|status with a merge-/JSON-patch content type', case, x.brief(), sig='unexpected-request')
            return
        slots.append(SLOTS[(x.kind, x.ctype)])
    if any(a >= b for a, b in zip(slots, slots[1:])):
        ctx.fail('requests repeated or out of order (merge body, merge status, JSON body, JSON status)', case, slots, sig='order')
    for x in log:
        if x.kind == 'status' and not sub:
            ctx.fail('the /status URL was used for a resource without a status subresource', case, x.brief(), sig='status-url-without-subresource')
        if x.ctype == CT_MERGE:
            keys = set(x.payload) if isinstance(x.payload, dict) else None
            if keys is None:
                ctx.fail('merge-patch payload is not an object', case, x.brief(), sig='payload')
            elif sub and x.kind == 'main' and 'status' in keys:
                ctx.fail('status sent to the main URL although the resource has a status subresource', case, x.brief(), sig='status-to-main')
            elif x.kind == 'status' and keys != {'status'}:
                ctx.fail('non-status fields sent to /status', case, x.brief(), sig='nonstatus-to-status')
        else:
            ops = x.payload
            if not (isinstance(ops, list) and ops and ops[0].get('op') == 'test' and ops[0].get('path') == '/metadata/resourceVersion'):
                ctx.fail('a JSON-patch batch without the resourceVersion test in front', case, x.brief(), sig='no-test-op')
                continue
            rest = ops[1:]
            if not rest:
                ctx.fail('a JSON-patch batch with nothing but the test', case, x.brief(), sig='empty-batch')
            if sub and x.kind == 'main' and any(is_status_path(op['path']) for op in rest):
                ctx.fail('status ops sent to the main URL although the resource has a status subresource', case, x.brief(), sig='status-to-main')
            if x.kind == 'status' and not all(is_status_path(op['path']) for op in rest):
                ctx.fail('non-status ops sent to /status', case, x.brief(), sig='nonstatus-to-status')
    # everything accumulated is handed to the server (when nothing cut the sequence short)
    merged_sent: dict = {}
    for x in log:
        if x.ctype == CT_MERGE and isinstance(x.payload, dict):
            merged_sent.update(x.payload)
    cut = [i for i, x in enumerate(log) if x.status != 200]
    first_json = next((i for i, x in enumerate(log) if x.ctype == CT_JSON), len(log))
    if (not cut or cut[0] >= first_json) and merged_sent != content and (ok or cut):
        ctx.fail('a part of the accumulated merge-patch was sent to no URL', case, {'sent': merged_sent, 'patch': content},
                 expected='the union of the merge payloads is the patch', sig='merge-part-dropped')

    # ---- a vanished object ends patching silently
    if 404 in statuses:
        i = statuses.index(404)
        if not ok:
            ctx.fail('404 from the server escaped patch_obj as an exception', case, repr(o['val']), sig='404-raised')
        elif (body, remaining) != (None, None):
            ctx.fail('404 from the server: result is not (None, None)', case, [body, repr(remaining)], sig='404-result')
        if i != len(log) - 1:
            ctx.fail('requests continued after a 404', case, statuses, sig='404-continued')
    # ---- a conflict (422) on a JSON batch: nothing further, the fns are carried, exactly
    for i, x in enumerate(log):
        if x.status == 422 and x.ctype == CT_JSON:
            if i != len(log) - 1:
                ctx.fail('requests continued after a 422 on a JSON-patch batch', case, statuses, sig='422-continued')
            if not ok:
                ctx.fail('422 on a JSON-patch batch escaped as an exception', case, repr(o['val']), sig='422-raised')
            elif remaining is None or len(remaining.fns) != len(o['fns']) or any(a is not b for a, b in zip(remaining.fns, o['fns'])) \
                    or dict(remaining) != {}:
                ctx.fail('422 on a JSON-patch batch: the remaining patch does not carry exactly the transformations', case,
                         repr(remaining), expected=f'Patch(fns=<the {len(o["fns"])} fns>)', sig='fns-not-carried')
            if x.after != x.before:
                ctx.fail('a rejected JSON-patch batch changed the server object', case, {'before': x.before, 'after': x.after}, sig='rejected-but-written')
        if x.status == 422 and x.ctype == CT_MERGE and ok:
            ctx.fail('422 on a merge-patch was swallowed', case, statuses, sig='422-merge-swallowed')
    if ok and clean and remaining is not None:
        ctx.fail('every request succeeded but a remaining patch was returned', case, repr(remaining), sig='remaining-after-success')
    if not ok and isinstance(o['val'], errors.APIError) and o['val'].status in (404,):
        pass

    # ---- atomicity of the state-dependent part: a JSON batch is applied to exactly the version it was computed from, or not at all
    seen: Any = o['original']
    for i, x in enumerate(log):
        if x.ctype == CT_JSON:
            rest = x.payload[1:] if isinstance(x.payload, list) else []
            if x.status == 200 and not x.injected:
                if x.before != seen:
                    ctx.fail('a JSON-patch batch was applied to a version other than the one the operator had seen', case,
                             {'server_before': x.before, 'operator_saw': seen, 'request': x.brief()}, sig='applied-to-stale')
                else:
                    try:
                        exp = canon.apply6902(x.before, rest)
                    except Exception as e:   # noqa: BLE001
                        exp = f'unappliable: {e!r}'
                    got_after = x.after
                    if sub and isinstance(exp, dict) and isinstance(got_after, dict):
                        # with the subresource the addressed URL persists its side of the result only
                        if x.kind == 'main':
                            exp, got_after = ({k: v for k, v in exp.items() if k != 'status'}, {k: v for k, v in got_after.items() if k != 'status'})
                        else:
                            exp, got_after = {'status': exp.get('status')}, {'status': got_after.get('status')}
                    if norm(exp) != norm(got_after) and norm(x.after) is not None:
                        ctx.fail('the server object after a JSON-patch batch is not the batch applied to the version it was computed from',
                                 case, {'after': x.after, 'expected': exp}, sig='json-batch-effect')
                # the ops are valid for the version they test: the batch, applied to the server object it was accepted on,
                # gives what the transformations give on that very object (main URL: everything but status when there is a
                # subresource; /status: the status)
                if x.before is not None and 'raise' not in fn_kinds:
                    want = copy.deepcopy(x.before)
                    try:
                        for f in o['fns']:
                            f(want)
                        got = canon.apply6902(x.before, rest)
                    except (TypeError, AttributeError, KeyError, ValueError, canon.PatchInvalid, canon.PatchTestFailed, IndexError):
                        want = got = None
                    if want is not None:
                        if sub and x.kind == 'main':
                            want, got = {k: v for k, v in want.items() if k != 'status'}, {k: v for k, v in got.items() if k != 'status'}
                        elif x.kind == 'status':
                            want, got = want.get('status'), got.get('status')
                        if norm_fins(want) != norm_fins(got):
                            ctx.fail('an accepted JSON-patch batch is not what the transformations yield on the version it was accepted on: '
                                     'the ops were computed from another (stale) body than the one whose version is tested', case,
                                     {'accepted_on': x.before, 'ops': rest, 'ops_give': got, 'transformations_give': want}, sig='ops-from-stale-body')
            if x.slipped in ('edit', 'fin_add', 'fin_remove', 'unlabel') and x.slip_changed and x.status == 200 and not x.injected:
                ctx.fail('a foreign write slipped in before a JSON-patch batch and the batch was still accepted', case, x.brief(), sig='stale-accepted')
        if x.status == 200 and x.body:
            seen = x.body
    # ---- finalizers of other controllers are never lost, duplicated or reordered by a framework write
    if o['obj0'] is not None:
        foreign_now = foreign_fins(o['obj0'])
        for x in log:
            if x.slipped:
                foreign_now = foreign_fins(x.before)
            if x.after is not None and not x.injected and foreign_fins(x.after) != foreign_now:
                ctx.fail('a framework write lost, duplicated or reordered finalizers of other controllers', dict(case, request=x.brief()),
                         {'server_before': foreign_fins(x.before), 'server_after': foreign_fins(x.after), 'foreign_writer_left': foreign_now},
                         sig='foreign-finalizers')
                break
    for s, d, ops in o['diffs']:
        try:
            if canon.apply6902(s, ops) != d:
                ctx.fail('from_diff law: applying the ops to the source does not give the destination', case, {'src': s, 'dst': d, 'ops': ops}, sig='from-diff-law')
        except Exception as e:   # noqa: BLE001
            ctx.fail('from_diff law: the ops do not apply to their source', case, {'src': s, 'ops': ops, 'error': repr(e)}, sig='from-diff-law')

    # ---- lands only on the object it was computed for
    if o['original'] is not None:
        uid0 = o['original']['metadata']['uid']
        for x in log:
            if x.status == 200 and not x.injected and x.after is not None and x.after != x.before and x.after['metadata']['uid'] != uid0:
                ctx.fail('a write computed for one object landed on a later object that reuses its name', dict(case, request=x.brief()),
                         observed={'landed_on': x.after['metadata']['uid'], 'computed_for': [uid0]}, sig='wrong-object')

    # ---- completeness: no fault, no foreign write -> the server object is the merge patch applied, then the transformations
    raising = 'raise' in fn_kinds
    undisturbed = not any(x.slipped or x.injected for x in log)
    if ok and undisturbed and not desc.get('deleting') and any(x.status == 422 for x in log):
        ctx.fail('a conflict (422) although nobody else wrote and nothing was injected: what was accumulated did not reach the server in this cycle',
                 case, statuses, sig='spurious-conflict')
    if ok and clean and not any(x.slipped for x in log) and not raising and not desc.get('deleting'):
        exp = canon.merge7386(o['obj0'], content)
        try:
            for f in o['fns']:
                f(exp)
        except (TypeError, AttributeError, KeyError, ValueError):
            exp = None          # the transformation itself fails on the merged body: nothing to compare with
        final = o['api'].get(o['kind'], NS, NAME)
        if exp is not None and norm(final) != norm(exp):
            ctx.fail('after an undisturbed patch_obj the server object is not (merge-patch, then transformations) applied to the object',
                     case, {'server': norm(final), 'expected': norm(exp), 'patch': content, 'sent': merged_sent}, sig='incomplete')
        ctx.count('fn_monitor', 'complete-checked')

    # ---- the whole effect of the transformations, on BOTH sides of the /status split: every request accepted, nothing carried ->
    #      the server object is the transformations applied to the server object the (first) JSON batch was accepted on
    jsons = [x for x in log if x.ctype == CT_JSON]
    if ok and clean and remaining is None and jsons and not raising and jsons[0].before is not None and not desc.get('deleting'):
        want = copy.deepcopy(jsons[0].before)
        try:
            for f in o['fns']:
                f(want)
        except (TypeError, AttributeError, KeyError, ValueError):
            want = None
        got = jsons[-1].after
        if want is not None and got is not None and norm(got) != norm(want):
            ctx.fail('every request was accepted and nothing is carried forward, but the server object is not the transformations applied '
                     'to the object their JSON-patch was accepted on: a part of their effect was lost', case,
                     {'server': norm(got), 'expected': norm(want), 'accepted_on': jsons[0].before,
                      'batches': [[x.kind, x.payload[1:]] for x in jsons]}, sig='fn-effect-incomplete')
        ctx.count('fn_monitor', 'fn-effect-checked')

    # ---- neither lost nor duplicated: the (idempotent) transformations take effect exactly once, now or in the next cycle
    idem = fn_kinds and all(k in ('block', 'allow', 'listedit', 'statusedit', 'ensure_label') for k in fn_kinds)
    foreign_kind = desc['slip'][1] if desc.get('slip') else None
    injected_other = any(x.injected and not (x.injected == '422' and x.ctype == CT_JSON) for x in log)
    if idem and ok and not injected_other and foreign_kind in (None, 'edit', 'fin_add', 'fin_remove', 'unlabel') and not desc.get('deleting') and not desc.get('random'):
        final = o['api'].get(o['kind'], NS, NAME)
        if remaining is not None:
            final = next_cycle(o, remaining)
            ctx.count('fn_monitor', 'next-cycle-run')
        if final is not None:
            for k in fn_kinds:
                if effect_count_ok(k, final) is False:
                    ctx.fail('a transformation was lost or duplicated (checked after the cycle that finally applied it)', case,
                             {'fn': k, 'server': norm(final)}, sig='fn-not-exactly-once')
            ctx.count('fn_monitor', 'exactly-once-checked')


def next_cycle(o: dict, remaining: Any) -> dict | None:
    """The next cycle as processing does it: Patch(remaining, body=<fresh body>) -> patch_obj, undisturbed."""
    from kopf._cogs.clients import patching
    from kopf._cogs.structs import bodies, patches
    env: Env = o['env']
    api, kind = o['api'], o['kind']
    for _ in range(3):
        fresh = api.get(kind, NS, NAME)
        if fresh is None or remaining is None:
            break
        sess = ScriptedSession(api, kind, None, None)
        set_vault(sess)
        p = patches.Patch(remaining, body=bodies.Body(fresh))
        how, val = env.run(patching.patch_obj(settings=env.settings, resource=env.resources[o['desc']['subresource']], namespace=NS,
                                              name=NAME, patch=p, logger=LOGGER, silent=True))
        if how != 'ok':
            return None
        remaining = val[1]
    if remaining is not None:
        return {'metadata': {}, 'never-converged': True}
    return api.get(kind, NS, NAME)


def match_f802(f: dict) -> bool:
    """F802: a transformation moved a value between the status and the rest of the object; with a status subresource the one `move`
    op is routed by its destination path only, so the removal at the source is not persisted.  Narrow: subresource, a moving fn,
    every request 200, and the ONLY difference between the server object and the expected one is the surviving source value."""
    c = f.get('case') or {}
    obs = f.get('observed') if isinstance(f.get('observed'), dict) else {}
    kinds = c.get('fn_kinds') or FN_VARIANTS.get(c.get('fns') or '', [])
    moving = [k for k in kinds if k in MOVE_KINDS]
    if f['sig'] not in ('fn-effect-incomplete', 'incomplete') or c.get('subresource') is not True or not moving:
        return False
    if any(r.get('status') != 200 or r.get('injected') for r in c.get('requests') or []):
        return False
    server, expected = copy.deepcopy(obs.get('server')), obs.get('expected')
    if not isinstance(server, dict) or not isinstance(expected, dict):
        return False
    survived = 0
    for k in moving:
        side, key = MOVE_KINDS[k]
        if isinstance(server.get(side), dict) and key in server[side] and key not in (expected.get(side) or {}):
            del server[side][key]
            survived += 1
    return survived > 0 and server == expected


# ---------------------------------------------------------------------------------------------
# application.apply
# ---------------------------------------------------------------------------------------------

APPLY_DELAYS: list[list[int]] = [[], [0], [5], [700], [-1], [3, 10]]


def run_apply(env: Env, desc: dict) -> dict:
    from kopf._cogs.aiokits import aiotime
    from kopf._cogs.structs import bodies, patches
    from kopf._core.actions import application, loggers
    sub = desc['subresource']
    fn_kinds = desc['fn_kinds']
    content = copy.deepcopy(desc['patch'])
    kind = fa.Kind(GROUP, VERSION, 'KopfExample', PLURAL, status_subresource=sub)
    api = fa.FakeAPI([kind])
    obj0 = api.create(kind, NS, NAME, initial_object(fn_kinds, deleting=bool(desc.get('deleting')), touched=desc['touched']))
    if desc.get('deleting'):
        api.delete(kind, NS, NAME, actor='user')
        obj0 = api.get(kind, NS, NAME)
    sess = ScriptedSession(api, kind, tuple(desc['fault']) if desc.get('fault') else None, tuple(desc['slip']) if desc.get('slip') else None)
    set_vault(sess)
    fns = [make_fn(k) for k in fn_kinds]
    body = bodies.Body(copy.deepcopy(obj0))
    patch = patches.Patch(content, body=body, fns=fns)
    storage = env.settings.persistence.progress_storage
    # the oracle values of the model: what touch() yields (computed by the harness, not taken from what apply did)
    cleared = patches.Patch(copy.deepcopy(content), fns=list(fns))
    if cleared:
        storage.touch(body=body, patch=cleared, value=None)
    sleeps: list[Any] = []
    orig_sleep = aiotime.sleep

    async def rec_sleep(delays: Any, wakeup: Any = None) -> Any:
        sleeps.append(delays)
        return await orig_sleep(delays, wakeup=wakeup)

    pressure = asyncio.Event()
    if desc['woken']:
        pressure.set()
    touch_values: list[Any] = []
    orig_touch = type(storage).touch

    def rec_touch(self: Any, *, body: Any, patch: Any, value: Any) -> None:
        touch_values.append(value)
        return orig_touch(self, body=body, patch=patch, value=value)

    aiotime.sleep = rec_sleep            # type: ignore[assignment]
    type(storage).touch = rec_touch      # type: ignore[method-assign]
    try:
        with DiffRecorder() as rec:
            how, val = env.run(application.apply(settings=env.settings, resource=env.resources[sub], body=body, patch=patch,
                                                 delays=list(desc['delays']), logger=loggers.LocalObjectLogger(body=body, settings=env.settings),
                                                 stream_pressure=pressure))
    finally:
        aiotime.sleep = orig_sleep       # type: ignore[assignment]
        type(storage).touch = orig_touch  # type: ignore[method-assign]
    stamp = [v for v in touch_values if v is not None]
    touch_patch = patches.Patch()
    storage.touch(body=body, patch=touch_patch, value=stamp[-1] if stamp else '<never-touched>')
    return {'desc': desc, 'api': api, 'kind': kind, 'sess': sess, 'obj0': obj0, 'fns': fns, 'fn_kinds': fn_kinds, 'content': content,
            'cleared': dict(cleared), 'touch_patch': dict(touch_patch), 'sleeps': sleeps, 'diffs': rec.calls, 'how': how, 'val': val,
            'touch_values': touch_values, 'patch': patch}


def apply_case(o: dict) -> fw.Case:
    desc, sess = o['desc'], o['sess']
    fns_t = cq.clist(fn_term(k, i) for i, k in enumerate(o['fn_kinds']))
    script = cq.clist(cresp(x) for x in sess.log)
    reqs = cq.clist(creq(x) for x in sess.log)
    slept = cq.copt(cq.cZ(o['sleeps'][0])) if o['sleeps'] else 'None'
    touched = any(v is not None for v in o['touch_values'])
    if o['how'] == 'ok':
        applied, rv, remaining = o['val']
        exp = (f'(mkApObs None {cq.cbool(applied)} {cq.copt(None if rv is None else cq.cjson(rv))} {ctags(remaining, o["fns"])} '
               f'{slept} {cq.cbool(touched)} {reqs})')
    else:
        exp = f'(mkApObs (Some {cerr(o["val"])}) false None None None false {reqs})'
    call = (f'(po_apply po_script po_scripted (po_recorded_diff {cdiffs(o["diffs"])}) {cq.cbool(desc["subresource"])} {cobj(o["content"])} '
            f'(fun _ => {cobj(o["cleared"])}) {fns_t} (Some {cq.cjson(o["obj0"])}) {cq.clist(cq.cZ(d) for d in desc["delays"])} '
            f'{cq.cbool(desc["woken"])} {cobj(o["touch_patch"])} {script})')
    term = share(f'(po_apply_obs_eqb (po_apply_observe {call}) {exp})', [x.body for x in reversed(sess.log)] + [o['obj0']])
    data = dict(desc, requests=[x.brief() for x in sess.log], sleeps=o['sleeps'],
                outcome=(['returned', o['val'][0], o['val'][1], None if o['val'][2] is None else len(o['val'][2].fns)] if o['how'] == 'ok'
                         else ['raised', repr(o['val'])]))
    return fw.Case(term, data, diag=f'po_apply_observe {call}')


def _deep_update(dst: dict, src: dict) -> dict:
    out = dict(dst)
    for k, v in src.items():
        out[k] = _deep_update(out[k], v) if isinstance(v, dict) and isinstance(out.get(k), dict) else copy.deepcopy(v)
    return out


def _deep_subset(a: Any, b: Any) -> bool:
    if isinstance(a, dict):
        return isinstance(b, dict) and all(k in b and _deep_subset(v, b[k]) for k, v in a.items())
    return a == b and type(a) is type(b)


def monitor_apply(ctx: fw.Ctx, o: dict) -> None:
    desc, log = o['desc'], o['sess'].log
    case = dict(desc, requests=[x.brief() for x in log], sleeps=o['sleeps'])
    p = bool(o['content']) or bool(o['fns'])
    delays = desc['delays']
    delay = min(delays) if delays else None
    if o['how'] != 'ok':
        if any(x.status == 404 for x in log):
            ctx.fail('apply: a 404 escaped as an exception', case, repr(o['val']), sig='apply-404-raised')
        return
    applied, rv, remaining = o['val']
    # every field of the accumulated merge-patch is sent exactly as accumulated, whatever the handled body says about it
    if o['content'] and log and not any(x.status != 200 for x in log):
        sent: dict = {}
        for x in log:
            if x.ctype == CT_MERGE and isinstance(x.payload, dict):
                sent = _deep_update(sent, x.payload)
        if not _deep_subset(o['content'], sent):
            ctx.fail('apply: a part of the accumulated merge-patch was sent to no URL (fields whose value equals the handled body are fields too)', case,
                     {'patch': o['content'], 'sent': sent}, expected='every field of the patch in a merge payload, as accumulated', sig='merge-part-dropped')
        # ... and right after the request that carries a side of the patch, the server object has the accumulated values of that side
        # (whoever wrote those fields before; a later foreign write may of course change them again)
        sub_ = desc['subresource']
        sides = {'main': {k: v for k, v in o['content'].items() if not (sub_ and k == 'status')},
                 'status': {'status': o['content']['status']} if sub_ and 'status' in o['content'] else {}}
        for side, part in sides.items():
            x = next((x for x in log if x.ctype == CT_MERGE and x.kind == side), None)
            if part and (x is None or x.after is None or canon.merge7386(x.after, part) != x.after):
                ctx.fail('apply: after the accepted merge-patch request the server object does not have the values the handlers accumulated', case,
                         {'side': side, 'accumulated': part, 'server_after_request': None if x is None else x.after}, sig='incomplete')
                break
    # the touch-dummy is removed whenever something is patched anyway
    if p and desc['touched'] and log:
        merged: dict = {}
        for x in log:
            if x.ctype == CT_MERGE and x.kind == 'main' and isinstance(x.payload, dict):
                merged = x.payload
                break
        anns = (merged.get('metadata') or {}).get('annotations') or {}
        if TOUCH_KEY not in anns or anns[TOUCH_KEY] is not None:
            ctx.fail('apply: patching an object which carries the touch-dummy does not remove the dummy', case, merged, sig='dummy-not-removed')
    # sleeps only if nothing was patched
    if p and o['sleeps']:
        ctx.fail('apply: slept although a patch was applied', case, o['sleeps'], sig='slept-after-patch')
    if not p and delay is not None and delay > 0 and o['sleeps'] != [min(delay, 600)]:
        ctx.fail('apply: nothing to patch and a positive delay, but no sleep of min(delay, 600)', case, o['sleeps'], sig='no-sleep')
    # touches after an uninterrupted sleep (or a non-positive delay) when nothing was patched
    touched = [x for x in log if x.ctype == CT_MERGE and isinstance(x.payload, dict)
               and ((x.payload.get('metadata') or {}).get('annotations') or {}).get(TOUCH_KEY) is not None]
    want_touch = (not p) and delay is not None and not (delay > 0 and desc['woken'])
    if want_touch != bool(touched) and not any(x.status != 200 for x in log):
        ctx.fail('apply: touch-dummy patch ' + ('missing after an uninterrupted sleep' if want_touch else 'sent although not due'), case,
                 [x.brief() for x in touched], sig='touch-decision')
    if applied != ((not p) and delay is None):
        ctx.fail('apply: `applied` must hold exactly when there was nothing to patch and nothing to wait for', case, applied, sig='applied-flag')
    # the returned resource version is the one of the last write the operator made (what to wait for)
    last = next((x for x in reversed(log) if x.status == 200 and x.body), None)
    if not any(x.status != 200 for x in log):
        want = None if last is None else last.body.get('metadata', {}).get('resourceVersion')
        gone = last is not None and last.body.get('metadata', {}).get('deletionTimestamp') and not last.body.get('metadata', {}).get('finalizers')
        if gone:
            if not (isinstance(rv, str) and rv != want and rv.startswith(str(want))):
                ctx.fail('apply: the object is released; the awaited version must be one that never arrives', case, rv, sig='rv-released')
        elif rv != want:
            ctx.fail('apply: the returned resource version is not the version of the last write', case, rv, expected=want, sig='rv-returned')


# ---------------------------------------------------------------------------------------------
# enumeration
# ---------------------------------------------------------------------------------------------

FAULT_PLANS: list[tuple[int, str] | None] = [None] + [(i, c) for i in range(4) for c in ('404', '422', '409', 'empty200')]
SLIPS: list[tuple[int, str] | None] = [None] + [(i, k) for i in range(4) for k in ('edit', 'fin_add', 'fin_remove', 'delete', 'recreate')]


def patch_obj_descs() -> list[dict]:
    out = []
    for shape, (content, has_fns) in SHAPES.items():
        for fnv in (list(FN_VARIANTS) if has_fns else [None]):
            for sub in (False, True):
                for fault in FAULT_PLANS:
                    for slip in SLIPS + ([(i, 'unlabel') for i in range(4)] if fnv == 'ensure+list' else []):
                        # without transformations a foreign finalizer edit differs from the annotation edit only for the
                        # foreign-finalizers monitor: keep it before the first request and with no fault plan
                        if not has_fns and slip is not None and slip[1] in ('fin_add', 'fin_remove') and (slip[0] > 0 or fault is not None):
                            continue
                        out.append(case_desc(shape, sub, fault, slip, fnv))
    # hand-seeded cases outside the product
    extra = [
        case_desc('fns', False, None, None, 'block', {'no_original': True}),              # ValueError: no reference body
        case_desc('all', True, None, None, 'block', {'no_original': True}),
        case_desc('fns', True, (0, 'empty200'), None, 'statusedit', {'no_original': True}),
        case_desc('custom', False, None, None, None, {'patch': {}, 'fn_kinds': []}),       # nothing at all
        case_desc('custom', True, None, None, None, {'patch': {'status': {}}, 'fn_kinds': []}),
        case_desc('custom', False, None, None, None, {'patch': {'status': None}, 'fn_kinds': []}),
        case_desc('custom', True, None, (2, 'edit'), None, {'patch': {'spec': {'b': 1}, 'status': {'s': 1}}, 'fn_kinds': ['append', 'statusedit']}),
        case_desc('custom', True, None, (3, 'edit'), None, {'patch': {'spec': {'b': 1}, 'status': {'s': 1}}, 'fn_kinds': ['append', 'statusedit']}),
        # no finalizers at all when kopf attaches its own (a whole-list `add /metadata/finalizers`), another controller attaching concurrently
        *[case_desc('all', sub, None, (i, 'fin_add'), fnv, {'no_fins': True})
          for sub in (False, True) for i in range(4) for fnv in ('block', 'block+status')],
        *[case_desc('fns', sub, None, (i, 'fin_add'), 'block', {'no_fins': True}) for sub in (False, True) for i in range(2)],
        case_desc('custom', False, None, None, None, {'patch': {}, 'fn_kinds': ['allow'], 'deleting': True}),   # releases the object
        case_desc('custom', True, None, None, None, {'patch': {'status': {'s': 1}}, 'fn_kinds': ['allow'], 'deleting': True}),
    ]
    return out + extra


def random_descs(ctx: fw.Ctx, n: int) -> list[dict]:
    """Thorough tier: random merge-patch contents (keys with '/', '~', '', non-ASCII; nulls; nested objects and lists) and
    random fns / faults / foreign writes on top of the exhaustive product."""
    from kv import gen as g
    G = g.Gen(ctx.rng)
    r = ctx.rng
    out = []
    for _ in range(n):
        content: dict[str, Any] = {}
        if r.random() < 0.6:
            content['spec'] = G.obj(2)
        if r.random() < 0.6:
            content['status'] = G.obj(2) if r.random() < 0.93 else None
        if r.random() < 0.4:
            content['metadata'] = {r.choice(['annotations', 'labels']): {r.choice(['a', 'b', 'keep', 'app']): r.choice(['v', 'w', None])}}
        fn_kinds = r.sample(['block', 'allow', 'listedit', 'statusedit', 'append'], r.choice([0, 0, 1, 2]))
        fault = (r.randrange(4), r.choice(['404', '422', '409', 'empty200'])) if r.random() < 0.3 else None
        slip = (r.randrange(4), r.choice(['edit', 'fin_add', 'fin_remove', 'delete', 'recreate'])) if r.random() < 0.4 else None
        out.append(case_desc('random', r.random() < 0.5, fault, slip, None, {'patch': content, 'fn_kinds': fn_kinds, 'random': True}))
    return out


def corpus_descs(ctx: fw.Ctx) -> list[dict]:
    out = []
    d = fw.ROOT / 'corpus' / 'C08'
    for f in sorted(d.glob('fn_*.json')):
        body = json.loads(f.read_text())
        for c in body.get('cases', []):
            out.append(c)
    return out


def apply_descs() -> list[dict]:
    out = []
    contents: list[tuple[dict, list[str]]] = [({}, []), ({'spec': {'b': 2}, 'status': {'s': 1}}, []), ({}, ['block']),
                                              ({'status': {'s': 1}}, ['statusedit'])]
    for (content, fn_kinds), delays, woken, touched, sub in itertools.product(contents, APPLY_DELAYS, (False, True), (False, True), (False, True)):
        if sub and 'status' not in content:        # the subresource only matters where a status is patched
            continue
        for fault in (None, (0, '404'), (1, '422'), (0, '409')):
            out.append({'level': 'function', 'fn': 'apply', 'patch': content, 'fn_kinds': fn_kinds, 'delays': delays, 'woken': woken,
                        'touched': touched, 'subresource': sub, 'fault': list(fault) if fault else None})
    for sub in (False, True):
        out.append({'level': 'function', 'fn': 'apply', 'patch': {}, 'fn_kinds': ['allow'], 'delays': [], 'woken': False, 'touched': False,
                    'subresource': sub, 'fault': None, 'deleting': True})
    # the accumulated patch re-asserts values which the handled body already has (a phase, a label, a result equal to the stored
    # one), alone and next to new values; a foreign writer changes those very fields before the operator's requests
    same = [({'status': {'old': 0}}, []), ({'metadata': {'labels': {'app': 'demo'}}, 'status': {'old': 0, 's': 1}}, []),
            ({'spec': {'a': 1, 'b': 2}, 'status': {'old': 0}}, ['statusedit']), ({'metadata': {'annotations': {'keep': 'me', 'gone': None}}}, [])]
    for (content, fn_kinds), sub, touched in itertools.product(same, (False, True), (False, True)):
        for slip in (None, (0, 'clobber'), (1, 'clobber'), (2, 'clobber')):
            for delays in ([], [5]):
                out.append({'level': 'function', 'fn': 'apply', 'patch': content, 'fn_kinds': fn_kinds, 'delays': delays, 'woken': False,
                            'touched': touched, 'subresource': sub, 'fault': None, 'slip': list(slip) if slip else None})
    return out


def trace_key(o: dict) -> list:
    log = o['sess'].log
    return [o['desc'].get('fn'), o['desc'].get('shape'), o['desc']['subresource'], o['desc'].get('fns') or o['desc'].get('fn_kinds'),
            [(x.kind, x.ctype, x.status, x.slipped, x.injected) for x in log],
            o['how'] if o['how'] != 'ok' else 'returned', type(o['val']).__name__ if o['how'] != 'ok' else [o['val'][0] is None, o['val'][-1] is None]]


class SigFilter:
    """A view of a Ctx that lets through only the failures whose signature is in `sigs` (used when another property
    re-uses this layer for the part of `apply` it relies on)."""
    def __init__(self, ctx: fw.Ctx, sigs: set[str]) -> None:
        self._ctx, self._sigs = ctx, sigs

    def fail(self, what: str, case: Any, observed: Any = None, expected: Any = None, sig: str = '') -> None:
        if sig in self._sigs:
            self._ctx.fail(what, case, observed, expected=expected, sig=sig)

    def __getattr__(self, name: str) -> Any:
        return getattr(self._ctx, name)


def apply_layer(ctx: fw.Ctx, env: 'Env', seen_terms: set[str], tie: str = 'apply', sigs: set[str] | None = None) -> None:
    """application.apply: real function vs po_apply on the enumerated (patch, fns, delays, woken, touched, fault) product."""
    mctx: Any = ctx if sigs is None else SigFilter(ctx, sigs)
    acases: list[fw.Case] = []
    for desc in [d for d in corpus_descs(ctx) if d.get('fn') == 'apply'] + apply_descs():
        o = run_apply(env, desc)
        try:
            c = apply_case(o)
        except cq.Unencodable as e:
            ctx.correspondence_break('D:apply', {'unencodable': str(e), 'case': desc})
            continue
        if c.term in seen_terms:
            continue
        seen_terms.add(c.term)
        acases.append(c)
        monitor_apply(mctx, o)
        p = bool(o['content']) or bool(o['fns'])
        d = min(desc['delays']) if desc['delays'] else None
        ctx.count('apply_branch', ('patched' if p else 'empty') + ':' + ('no-delay' if d is None else 'zero' if d == 0 else 'negative' if d < 0
                  else 'capped' if d > 600 else 'positive') + (':woken' if desc['woken'] else ''))
        if o['how'] == 'ok':
            ctx.count('apply_result', 'applied' if o['val'][0] else 'touched' if any(v is not None for v in o['touch_values']) else
                      'slept' if o['sleeps'] else 'patched' if p else 'idle')
        else:
            ctx.count('apply_result', 'raised:' + type(o['val']).__name__)
        if len(o['sess'].log) >= 2 or o['sleeps']:
            ctx.nontriv(['apply'] + trace_key(o) + [desc['delays'], desc['woken'], desc['touched']])
    ctx.differential(tie, HEADER, acases, shard=40)


def differential(ctx: fw.Ctx) -> None:
    ctx.matchers = dict(ctx.matchers)
    ctx.matchers.setdefault('F802', match_f802)
    ctx.notes.append(RULE_FN)
    ok, logtxt = fw.build_models(['Model/PatchObj.v', 'Model/Causes.v'])
    if not ok:
        ctx.correspondence_break('D:patch_obj model build', logtxt[-1500:])
        return
    env = Env()
    try:
        cases: list[fw.Case] = []
        scases: list[fw.Case] = []
        seen_terms: set[str] = set()
        seen_runs: set[tuple[str, str]] = set()
        for desc in corpus_descs(ctx) + patch_obj_descs() + random_descs(ctx, ctx.scale(0, 4000)):
            if desc.get('fn') != 'patch_obj':
                continue
            o = run_patch_obj(env, desc)
            o['env'] = env
            try:
                c = patch_obj_case(o)
            except cq.Unencodable as e:
                ctx.correspondence_break('D:patch_obj', {'unencodable': str(e), 'case': desc})
                continue
            # a fault / foreign write planned for a request which is never sent leaves the very same run: evaluate it once
            # the same dialogue may hide different server-side runs (a foreign write of another kind answered by the same 422):
            # the monitors see every distinct (dialogue, foreign writes that took place); the model is evaluated once per dialogue
            fired = repr([(i, x.slipped, x.slip_changed) for i, x in enumerate(o['sess'].log) if x.slipped])
            if (c.term, fired) in seen_runs:
                ctx.count('fn_product', 'same-run-as-an-earlier-case')
                continue
            seen_runs.add((c.term, fired))
            if c.term in seen_terms:
                ctx.count('fn_product', 'same-dialogue-other-foreign-write')
                monitor_patch_obj(ctx, o)
                continue
            seen_terms.add(c.term)
            ctx.count('fn_product', 'distinct-run')
            cases.append(c)
            sc = server_case(o)
            if sc is not None:
                scases.append(sc)
                ctx.count('server_tie', ('sub' if desc['subresource'] else 'nosub') + ':' + next((x.slipped for x in o['sess'].log if x.slipped), 'undisturbed')
                          + ':' + ('conflict' if any(x.status == 422 for x in o['sess'].log) else 'accepted'))
            else:
                ctx.count('server_tie', 'outside-the-mirrored-server')
            monitor_patch_obj(ctx, o)
            log = o['sess'].log
            ctx.count('fn_requests_sent', str(len(log)))
            ctx.count('fn_outcome', 'raised:' + type(o['val']).__name__ if o['how'] != 'ok' else
                      'gone(None,None)' if o['val'] == (None, None) else 'remaining' if o['val'][1] is not None else 'done')
            for x in log:
                ctx.count('fn_slot', f'{x.kind}:{"merge" if x.ctype == CT_MERGE else "json"}:{x.status}')
            effective = any(x.status != 200 or x.slipped or x.injected for x in log)
            if len(log) >= 2 or effective:
                ctx.nontriv(trace_key(o))
            if len(log) >= 3 and effective:
                ctx.sample({'case': {k: v for k, v in desc.items() if k != 'level'},
                            'requests': [[x.kind, x.ctype, x.status] for x in log], 'outcome': o['how']}, limit=2)
        ctx.differential('patch_obj', HEADER, cases, shard=40)
        ctx.differential('server', HEADER, scases, shard=40)

        apply_layer(ctx, env, seen_terms)

        from kv.props import c08_carry          # the carry-over of the fns from cycle to cycle (process_resource_event)
        c08_carry.carry_layer(ctx, env)
    finally:
        env.close()


def replay(ctx: fw.Ctx, body: dict) -> bool:
    """Re-run one function-level case (the `case` of a replay file) through the monitors."""
    ctx.matchers = dict(ctx.matchers)
    ctx.matchers = dict(ctx.matchers)
    ctx.matchers.setdefault('F802', match_f802)
    if (body.get('case') or {}).get('fn') == 'carry':
        from kv.props import c08_carry
        return c08_carry.replay(ctx, body)
    desc = {k: v for k, v in (body.get('case') or {}).items() if k not in ('requests', 'outcome', 'sleeps', 'request')}
    env = Env()
    try:
        if desc.get('fn') == 'apply':
            monitor_apply(ctx, run_apply(env, desc))
        else:
            o = run_patch_obj(env, desc)
            o['env'] = env
            monitor_patch_obj(ctx, o)
    finally:
        env.close()
    for f in ctx.failures:
        print('  still failing:', f['sig'], '-', f['what'])
    return bool(ctx.failures) or bool(ctx.known_hits)
