"""C20 — operator lifecycle: startup first, fail-fast, cleanup last, bounded exit.

SIGNAL SAFETY.  Some scenarios deliver a real SIGTERM with os.kill(os.getpid(), SIGTERM) to exercise kopf's signal_flag
path.  The signal is sent ONLY if `sigterm_is_safe(loop)` holds at that instant: (1) the event loop of this very scenario
has a handler registered for SIGTERM (that is what kopf's spawn_tasks does with loop.add_signal_handler in this process),
and (2) the process-level handler is asyncio's `_sighandler_noop` — so the default action (termination) is impossible and
no handler of a supervising process/harness can be hit.  If the guard fails nothing is sent and the scenario is reported
as `scenario-error` (fail closed, the check keeps running); outside the main thread (where kopf installs no handlers) the
scenario falls back to the stop flag.  The signal never goes to another pid or a process group; the operator has already
returned => nothing is sent.  Every World closes its loop (which removes the handlers and restores SIG_DFL) before the
next one is created.  Delivery is deterministic: the handler only writes to the loop's wake-up socket, and one loop step
is forced right after os.kill because the stepped loop polls its selector only when stepped.

Real `kopf.operator()` incarnations run in `kv.sim` (stepped virtual time, FakeAPI).  A recorder
(asyncio task factory + request hook + wrappers around `activities.run_activity`, the ready flag and
the harness's own stop triggers) yields one globally ordered event log per scenario.  The log is
 (T) translated into the labels of coq/Model/Lifecycle.v and replayed by the Gallina acceptor, and
 (monitors) read directly against the property text.
"""
from __future__ import annotations

import ast
import asyncio
import json
import os
import pathlib
import signal
import threading
from typing import Any, Callable

from kv import coqio as cq, fakeapi, framework as fw, sim

RULE = ('cases = whole-operator scenarios (startup handlers ok/slow/retried/failing x cleanup ok/failing/absent x 0-2 daemons of '
        'tempers obeys/cancellable/ignores/exits x in-flight slow handler x peering on/off x trigger: stop flag or cancellation '
        'of the operator task at every phase incl. during startup, failure of a root task (discovery 500s, unknown ERROR in the '
        'CRD stream), failure of an ensemble task (unknown ERROR in a resource stream, a worker raising, keep-alive failing)); '
        'non-trivial iff the operator got past startup with >= 1 running daemon or in-flight handler or peering record, or a '
        'task failure was injected; distinct by the scenario description')

HEADER = fw.STD_HEADER + 'From KV Require Import Model.Lifecycle.\n'

K = fakeapi.KOPFEXAMPLE
ROOT_NAMES = {
    'stop-flag checker': 'RStopper', 'ultimate termination': 'RUltimate', 'startup/cleanup activities': 'RAct',
    'daemon killer': 'RKiller', 'poster of events': 'RPoster', 'admission insights chain': 'RAdmChain',
    'admission validating configuration manager': 'RAdmVal', 'admission mutating configuration manager': 'RAdmMut',
    'admission webhook server': 'RAdmSrv', 'resource observer': 'RResObs', 'namespace observer': 'RNsObs',
    'multidimensional multitasker': 'ROrch',
}
ROOT_ORDER = list(ROOT_NAMES.values())
PEERING_NAME = 'c20peering'

CURRENT: dict[str, Any] = {'rec': None, 'patched': False}


# --------------------------------------------------------------------------------------------
# Recording
# --------------------------------------------------------------------------------------------

def _install_activity_wrapper() -> None:
    if CURRENT['patched']:
        return
    from kopf._core.engines import activities
    from kopf._core.reactor import running
    if not hasattr(activities, 'run_activity') or getattr(running, 'activities', None) is not activities:
        raise RuntimeError('observation point missing: running.activities.run_activity')
    orig = activities.run_activity

    async def run_activity_logged(**kw: Any) -> Any:
        rec = CURRENT['rec']
        name = getattr(kw.get('activity'), 'value', str(kw.get('activity')))
        if rec is not None:
            rec.add('act_begin', activity=name)
        try:
            res = await orig(**kw)
        except asyncio.CancelledError:
            if rec is not None:
                rec.add('act_end', activity=name, out='cancelled')
            raise
        except Exception as e:
            if rec is not None:
                rec.add('act_end', activity=name, out='err', exc=type(e).__name__)
            raise
        if rec is not None:
            rec.add('act_end', activity=name, out='ok')
        return res

    activities.run_activity = run_activity_logged  # type: ignore[assignment]
    CURRENT['patched'] = True


class Recorder:
    def __init__(self, world: sim.World) -> None:
        _install_activity_wrapper()
        self.w = world
        self.events: list[dict] = []
        self.main: asyncio.Task | None = None
        rec = self

        class LTask(asyncio.Task):  # type: ignore[type-arg]
            def cancel(self, msg: Any = None) -> bool:
                was_done = self.done()
                r = super().cancel(msg)
                if not was_done:
                    rec.add('cancel', task=self, by=_cur())
                return r

        def factory(loop: Any, coro: Any, **kw: Any) -> Any:
            t = LTask(coro, loop=loop, **kw)
            target = None
            if getattr(coro, '__qualname__', '') == 'stop_daemon' and getattr(coro, 'cr_frame', None) is not None:
                d = coro.cr_frame.f_locals.get('daemon')          # the Daemon this stopper was spawned for
                target = getattr(d, 'task', None)
            rec.add('new', task=t, by=_cur(), stops=target)
            t.add_done_callback(rec._done)
            return t

        world.loop.set_task_factory(factory)

        def on_request(req: fakeapi.Request) -> None:
            rec.events.append({'order': req.order, 'ev': 'req', 'task': _cur(), 'req': req, 't': rec.w.now})
        world.api.on_request = on_request
        CURRENT['rec'] = self

    def add(self, ev: str, **kw: Any) -> None:
        self.events.append({'order': self.w.api.next_order(), 'ev': ev, 't': self.w.now, **kw})

    def _done(self, task: asyncio.Task) -> None:  # type: ignore[type-arg]
        if task.cancelled():
            out, exc = 'cancelled', None
        else:
            exc = task.exception()
            out = 'ok' if exc is None else 'err'
        self.add('done', task=task, out=out, exc=exc)

    def watch_ready(self, inc: sim.Incarnation) -> None:
        flag = inc.ready_flag
        assert flag is not None
        orig = flag.set

        def logged_set() -> None:
            self.add('ready')
            orig()
        flag.set = logged_set  # type: ignore[method-assign]


def _cur() -> Any:
    try:
        return asyncio.current_task()
    except RuntimeError:
        return None


def task_label(t: Any) -> str:
    if t is None:
        return '-'
    n = t.get_name()
    if n.startswith('Task-'):
        c = t.get_coro()
        return 'anon:' + getattr(c, '__qualname__', type(c).__name__)
    return n


# --------------------------------------------------------------------------------------------
# Scenarios
# --------------------------------------------------------------------------------------------

DAEMON_SETS: dict[str, list[dict]] = {
    'none': [],
    'obeys': [{'temper': 'obeys', 'backoff': 1, 'timeout': 2}],
    'cancellable': [{'temper': 'cancellable', 'backoff': 1, 'timeout': 2}],
    'ignores': [{'temper': 'ignores', 'backoff': None, 'timeout': 2, 'ignore_max': 1}],
    'exits': [{'temper': 'exits', 'backoff': None, 'timeout': None, 'duration': 3}],
    'obeys+cancellable': [{'temper': 'obeys', 'backoff': None, 'timeout': None}, {'temper': 'cancellable', 'backoff': 1, 'timeout': 1}],
    'cancellable-notimeout': [{'temper': 'cancellable', 'backoff': 1, 'timeout': None}],
    'obeys+obeys': [{'temper': 'obeys', 'backoff': 1, 'timeout': 2}, {'temper': 'obeys', 'backoff': None, 'timeout': 2}],
    # slow to wind down: ignores the stop flag, exits only on the cancellation that follows a long backoff
    'slowstop': [{'temper': 'cancellable', 'backoff': 3, 'timeout': 3}],
    'slowstop+obeys': [{'temper': 'cancellable', 'backoff': 3, 'timeout': 2}, {'temper': 'obeys', 'backoff': 1, 'timeout': 2}],
}
STARTUPS = {
    'none': [], 'ok': [{'duration': 2, 'script': ['ok']}], 'slow': [{'duration': 6, 'script': ['ok']}],
    'two': [{'duration': 1, 'script': ['ok']}, {'duration': 3, 'script': ['ok']}],
    'retried': [{'duration': 1, 'script': ['temp:2', 'ok']}],
    'fail': [{'duration': 1, 'script': ['perm']}],
    'ok+fail': [{'duration': 1, 'script': ['ok']}, {'duration': 2, 'script': ['perm']}],
    # several handlers, several rounds of run_activity (temp:<delay> = TemporaryError, retried after <delay> seconds)
    'perm+retry': [{'duration': 1, 'script': ['perm']}, {'duration': 1, 'script': ['temp:2', 'ok']}],
    'retry+perm': [{'duration': 1, 'script': ['temp:3', 'ok']}, {'duration': 2, 'script': ['perm']}],
    'lateperm+ok': [{'duration': 1, 'script': ['temp:1', 'temp:2', 'perm']}, {'duration': 1, 'script': ['ok']}],
    'ok+retryperm': [{'duration': 1, 'script': ['ok']}, {'duration': 1, 'script': ['temp:2', 'perm']}],
    'three-mixed': [{'duration': 1, 'script': ['perm']}, {'duration': 1, 'script': ['temp:1', 'temp:2', 'ok']},
                    {'duration': 2, 'script': ['ok']}],
    'three-midperm': [{'duration': 1, 'script': ['temp:1', 'perm']}, {'duration': 1, 'script': ['temp:1', 'temp:3', 'ok']},
                      {'duration': 1, 'script': ['ok']}],
    'all-retried-ok': [{'duration': 1, 'script': ['temp:1', 'ok']}, {'duration': 1, 'script': ['temp:2', 'temp:1', 'ok']}],
}
CLEANUPS = {'none': [], 'ok': [{'duration': 1, 'script': ['ok']}], 'fail': [{'duration': 1, 'script': ['perm']}],
            'two': [{'duration': 1, 'script': ['ok']}, {'duration': 2, 'script': ['ok']}],
            'retried': [{'duration': 1, 'script': ['temp:1', 'ok']}, {'duration': 1, 'script': ['ok']}],
            'perm+retry': [{'duration': 1, 'script': ['perm']}, {'duration': 1, 'script': ['temp:2', 'ok']}],
            'ok+retryperm': [{'duration': 1, 'script': ['ok']}, {'duration': 1, 'script': ['temp:1', 'perm']}]}


def finally_fails(specs: list[dict]) -> bool:
    """Does some handler of the activity fail for good (its script reaches 'perm' before 'ok')?"""
    for h in specs:
        for x in h['script']:
            if x == 'perm':
                return True
            if x == 'ok':
                break
    return False


def activity_time(specs: list[dict]) -> float:
    """A generous upper bound of the virtual time an activity with these handlers takes (all rounds, all delays)."""
    return sum(len(h['script']) * h['duration'] + sum(float(x.split(':')[1]) for x in h['script'] if x.startswith('temp:'))
               for h in specs)
EXIT_TIMEOUT = 2


def handlers_of(sc: dict) -> list[dict]:
    hs: list[dict] = []
    for i, s in enumerate(STARTUPS[sc['startup']]):
        hs.append({'kind': 'startup', 'id': f'st{i}', 'duration': s['duration'], 'script': s['script'], 'kwargs': {'backoff': 1}})
    for i, s in enumerate(CLEANUPS[sc['cleanup']]):
        hs.append({'kind': 'cleanup', 'id': f'cl{i}', 'duration': s['duration'], 'script': s['script'], 'kwargs': {'backoff': 1}})
    for i, d in enumerate(DAEMON_SETS[sc['daemons']]):
        hs.append({'kind': 'daemon', 'id': f'dm{i}', 'temper': d['temper'], 'duration': d.get('duration', 1),
                   'ignore_max': d.get('ignore_max', 1000),
                   'kwargs': {'cancellation_backoff': d['backoff'], 'cancellation_timeout': d['timeout']}})
    hs.append({'kind': 'create', 'id': 'cr0', 'duration': sc.get('handler_duration', 0), 'script': ['ok'], 'kwargs': {}})
    hs.append({'kind': 'update', 'id': 'up0', 'duration': sc.get('handler_duration', 0), 'script': ['ok'], 'kwargs': {}})
    return hs


class Result:
    def __init__(self, sc: dict) -> None:
        self.sc = sc
        self.events: list[dict] = []
        self.calls: list[dict] = []
        self.requests: list[fakeapi.Request] = []
        self.main: Any = None
        self.inc: sim.Incarnation | None = None
        self.exited = False
        self.lingered: float | None = None      # virtual seconds the operator kept running after an injected task failure
        self.trigger_t: float | None = None
        self.trigger_order: int | None = None
        self.injected: str | None = None
        self.error: str | None = None
        self.peer_status: Any = None
        self.identity: str | None = None
        self.later_object_handled: bool | None = None
        self.forced = False
        self.signal_fallback = False
        self.inflight_at_trigger: list = []
        self.notes: list[str] = []


def is_discovery(req: fakeapi.Request) -> bool:
    parts = [p for p in req.path.split('/') if p]
    return req.method == 'GET' and (parts in (['api'], ['apis'], ['version']) or (parts[0] == 'api' and len(parts) == 2)
                                    or (parts[0] == 'apis' and len(parts) == 3))


def sigterm_is_safe(loop: Any) -> bool:
    """True iff sending SIGTERM to this very process is harmless and reaches the operator under test: the running loop of
    THIS scenario has an asyncio handler registered for SIGTERM (done by kopf's spawn_tasks via loop.add_signal_handler),
    and the process-level disposition is asyncio's no-op Python handler (so the default action 'terminate' cannot happen
    and no foreign handler of a supervisor is triggered)."""
    import asyncio.unix_events as ue
    handlers = getattr(loop, '_signal_handlers', None)
    return (isinstance(handlers, dict) and signal.SIGTERM in handlers
            and signal.getsignal(signal.SIGTERM) is getattr(ue, '_sighandler_noop', object()))


def run_scenario(sc: dict) -> Result:
    """sc: startup, cleanup, daemons, peering(bool), scanning(bool), handler_duration, objects(int),
    trigger: {'kind': stop|cancel|root500|crd_error|stream_error|worker_raise|keepalive_fail|none, 'at': t,
              'then': stop|cancel (after lingering), 'inflight': bool}"""
    res = Result(sc)
    kinds = [K] + ([fakeapi.KOPFPEERING] if sc.get('peering') else [])
    w = sim.World(kinds=kinds)
    rec = Recorder(w)
    api = w.api
    trig = sc['trigger']
    try:
        def configure(settings: Any) -> None:
            settings.queueing.exit_timeout = EXIT_TIMEOUT
            settings.queueing.idle_timeout = 5
            settings.scanning.disabled = not sc.get('scanning')
            settings.peering.lifetime = 20
            settings.peering.stealth = True

        kw: dict[str, Any] = {}
        if sc.get('peering'):
            api.create(fakeapi.KOPFPEERING, 'ns1', PEERING_NAME, {})
            kw['peering'] = {'peering_name': PEERING_NAME, 'priority': 100}
            kw['namespaces'] = ['ns1']
        inc = w.operator('op1', handlers_of(sc), configure=configure, **kw)
        res.inc = inc
        if trig['kind'] == 'root500':
            api.fault_hook = lambda req: fakeapi.Fault(status=500) if is_discovery(req) else None
        if trig['kind'] == 'keepalive_fail':
            def kf(req: fakeapi.Request) -> Any:
                if req.method == 'PATCH' and PEERING_NAME in req.path and w.now >= trig['at']:
                    return fakeapi.Fault(status=500)
                return None
            api.fault_hook = kf
        if sc.get('peering_latency'):
            # the server applies a PATCH of the peering object at once but answers only after the latency: the request is
            # "in flight, already applied" in between
            base_hook = api.fault_hook

            def slow_peering(req: fakeapi.Request) -> Any:
                f = base_hook(req) if base_hook is not None else None
                if f is None and req.method == 'PATCH' and PEERING_NAME in req.path:
                    return fakeapi.Fault(delay_after=sc['peering_latency'])
                return f
            api.fault_hook = slow_peering
        inc.start()
        rec.watch_ready(inc)
        rec.main = inc.task
        if trig['kind'] == 'worker_raise':
            orig_recall = inc.memories.recall

            async def recall(raw_body: Any, **kw2: Any) -> Any:
                if raw_body.get('metadata', {}).get('name') == 'bad':
                    raise sim.Scripted('injected: memories.recall fails for this object')
                return await orig_recall(raw_body, **kw2)
            inc.memories.recall = recall
        for i in range(sc.get('objects', 1)):
            api.create(K, 'ns1', f'obj{i}', {'spec': {'a': i}})

        def fire(kind: str) -> None:
            res.trigger_t = w.now
            res.trigger_order = api.next_order()
            if kind == 'stop' and trig.get('via') == 'signal' and inc.task is not None and inc.task.done():
                pass        # the operator has returned already (e.g. a failed startup): no process left to signal
            elif kind == 'stop' and trig.get('via') == 'signal':
                # a real SIGTERM to this process: asyncio's handler (installed by spawn_tasks on this loop) sets signal_flag.
                # The stepped loop only polls its selector when it is stepped, so one step is forced right away.
                if threading.current_thread() is not threading.main_thread():
                    # kopf installs no signal handlers outside the main thread ("OS signals are ignored"): use the flag
                    res.signal_fallback = True
                    rec.add('stopflag')
                    inc.stop()
                    return
                if not sigterm_is_safe(w.loop):
                    raise RuntimeError('observation point missing: spawn_tasks installed no SIGTERM handler on this loop '
                                       '(the signal is NOT sent)')
                rec.add('signal')
                os.kill(os.getpid(), signal.SIGTERM)
                w.loop.step()
            elif kind == 'stop':
                rec.add('stopflag')
                inc.stop()
            elif kind == 'cancel':
                rec.add('cancel_req')
                inc.cancel()

        at = trig.get('at', 0)
        if trig.get('peering_patch'):
            # the trigger comes `offset` seconds after the operator's n-th PATCH of the peering object reached the server
            n = trig['peering_patch']
            w.run_until(lambda: len([q for q in api.requests if q.method == 'PATCH' and PEERING_NAME in q.path]) >= n, 60)
            w.run_for(trig.get('offset', 0))
            res.inflight_at_trigger = [q.brief() for q in api.requests
                                       if q.method == 'PATCH' and PEERING_NAME in q.path and q.t <= w.now < q.t + sc.get('peering_latency', 0)]
            res.notes.append('trigger-while-peering-patch-in-flight' if res.inflight_at_trigger else 'trigger-between-peering-patches')
        elif trig.get('inflight'):
            # an object whose create handler is still running when the trigger comes
            w.run_for(max(0.0, at - 1))
            api.create(K, 'ns1', 'late', {'spec': {'late': True}})
            w.run_for(at - w.now)
        elif trig.get('delete_before') is not None:
            # an object (with its daemons) is deleted shortly BEFORE the trigger: its daemons are mid-termination (stopper set
            # for RESOURCE_DELETED by the object's worker, staged stop still in its backoff) when the operator is stopped
            w.run_for(max(0.0, at - trig['delete_before']))
            api.delete(K, 'ns1', 'obj0')
            res.notes.append('object-deleted-before-the-trigger')
            w.run_for(at - w.now)
        elif at > 0:
            w.run_for(at)
        if trig.get('settled'):
            w.settle()                  # let every ready callback run first (the trigger comes "right after")
        kind = trig['kind']
        if trig.get('create_at_trigger'):
            api.create(K, 'ns1', 'justnow', {'spec': {'justnow': True}})     # an object appears at the very instant of the trigger
        if kind in ('stop', 'cancel'):
            fire(kind)
        elif kind in ('root500', 'keepalive_fail', 'none'):
            res.injected = kind
            res.trigger_t = w.now if kind != 'root500' else 0.0
        elif kind == 'crd_error':
            res.injected = kind
            res.trigger_t = w.now
            for s in api.open_streams(fakeapi.CRD):
                s.inject.append({'type': 'ERROR', 'object': {'kind': 'Status', 'code': 500, 'reason': 'Weird', 'message': 'injected'}})
                s.wake.set()
        elif kind == 'stream_error':
            res.injected = kind
            res.trigger_t = w.now
            for s in api.open_streams(K):
                s.inject.append({'type': 'ERROR', 'object': {'kind': 'Status', 'code': 500, 'reason': 'Weird', 'message': 'injected'}})
                s.wake.set()
        elif kind == 'worker_raise':
            res.injected = kind
            res.trigger_t = w.now
            api.create(K, 'ns1', 'bad', {'spec': {'bad': True}})
        if trig.get('second'):          # a second trigger shortly after (e.g. stop flag, then cancellation)
            w.run_for(trig['second'].get('after', 0.5))
            fire(trig['second']['kind'])
        if kind in ('stop', 'cancel'):
            res.exited = inc.wait_exit(120)
        else:
            # an injected task failure: does the operator shut down by itself?
            horizon = 40.0
            res.exited = inc.wait_exit(horizon)
            if not res.exited:
                res.lingered = w.now - (res.trigger_t or 0.0)
                if kind in ('stream_error', 'worker_raise'):
                    n = len([c for c in w.calls if c['handler'] == 'cr0'])
                    api.create(K, 'ns1', 'afterwards', {'spec': {'x': 1}})
                    w.run_for(10)
                    res.later_object_handled = len([c for c in w.calls if c['handler'] == 'cr0']) > n
                fire(trig.get('then', 'stop'))
                res.exited = inc.wait_exit(120)
        if not res.exited:
            res.forced = True
            inc.kill()
        if sc.get('peering'):
            obj = api.get(fakeapi.KOPFPEERING, 'ns1', PEERING_NAME)
            res.peer_status = (obj or {}).get('status')
        w.run_for(0.5)
    except Exception as e:       # a stall or a crash of harness/operator is itself a result
        res.error = f'{type(e).__name__}: {e}'
    res.events = sorted(rec.events, key=lambda e: e['order'])
    res.calls = list(w.calls)
    res.requests = list(api.requests)
    res.main = rec.main
    res.now = w.now
    CURRENT['rec'] = None
    try:
        w.close()
    except Exception:
        pass
    return res


# --------------------------------------------------------------------------------------------
# Events -> labels of Model/Lifecycle.v
# --------------------------------------------------------------------------------------------

class Translation:
    def __init__(self) -> None:
        self.labels: list[str] = []
        self.origin: list[int] = []        # order number of the event each label came from
        self.problems: list[str] = []
        self.result: str | None = None     # result term if the operator returned
        self.tasks: dict[int, dict] = {}   # id(task) -> info
        self.brief: list[str] = []


def translate(res: Result) -> Translation:
    tr = Translation()
    main = res.main
    info: dict[int, dict] = tr.tasks
    counters = {'watcher': 0, 'keepalive': 0, 'daemon': 0}
    nworkers: dict[int, int] = {}
    exc_terms: dict[int, str] = {}
    st = {'main': 'wait', 'pending_cancel': False, 'act': 'startup', 'flag': False, 'swept': False, 'ostopped': False,
          'asked': [], 'graces': set(), 'withdrawn': set()}
    roots_done: set[str] = set()
    tphase: dict[str, str] = {}            # model term -> wait|run|cancelw|ending|done   (translator's own bookkeeping)
    for r in ROOT_ORDER:
        tphase[f'(TRoot {r})'] = 'run' if r in ('RStopper', 'RUltimate', 'RAct') else 'wait'
    tphase['TAuth'] = 'wait'
    tphase['TWaiter'] = 'run'
    daemons_live: dict[str, int] = {}

    def emit(lbl: str, e: dict) -> None:
        tr.labels.append(lbl)
        tr.origin.append(e['order'])

    def owner(t: Any) -> dict | None:
        """the modelled task on whose behalf t runs (itself, or the nearest modelled creator)"""
        seen = 0
        while t is not None and seen < 50:
            i = info.get(id(t))
            if i is None:
                return None
            if i['term'] is not None:
                return i
            t = i['by']
            seen += 1
        return None

    def classify(t: Any, by: Any) -> dict:
        name = task_label(t)
        i: dict[str, Any] = {'name': name, 'by': by, 'term': None, 'kind': 'aux'}
        if t is main:
            i['kind'] = 'main'
        elif name in ROOT_NAMES and by is main:
            i.update(kind='root', term=f'(TRoot {ROOT_NAMES[name]})', root=ROOT_NAMES[name])
        elif name == 'credentials retriever' and by is main:
            i.update(kind='auth', term='TAuth')
        elif name == 'stop-flag waiter':
            i.update(kind='waiter', term='TWaiter')
        elif by is main:
            i['kind'] = 'unknown-root'
            tr.problems.append(f'unknown task created by spawn_tasks: {name!r}')
        else:
            o = owner(by)
            if (name.startswith('watcher for ') or name.startswith('peering observer for ')) and o is not None and o.get('root') == 'ROrch':
                i.update(kind='watcher', idx=counters['watcher'], term=f"(TWatcher {counters['watcher']})")
                counters['watcher'] += 1
            elif name.startswith('peering keep-alive for ') and o is not None and o.get('root') == 'ROrch':
                i.update(kind='keepalive', idx=counters['keepalive'], term=f"(TKeepalive {counters['keepalive']})")
                counters['keepalive'] += 1
            elif name.startswith('worker for ') and o is not None and o['kind'] == 'watcher':
                n = nworkers.get(o['idx'], 0)
                nworkers[o['idx']] = n + 1
                i.update(kind='worker', w=o['idx'], term=f"(TWorker {o['idx']} {n})")
            elif name.startswith('runner of ') and o is not None and o['kind'] == 'worker':
                i.update(kind='daemon', idx=counters['daemon'], term=f"(TDaemon {counters['daemon']})")
                counters['daemon'] += 1
        return i

    def root_done_followups(e: dict) -> None:
        others = set(ROOT_ORDER) - {'RAct'}
        if st['act'] == 'waitroots' and others <= roots_done:
            emit('ActRootsGone', e)
            st['act'] = 'stopcore'
            if tphase['TAuth'] in ('wait', 'run'):
                tphase['TAuth'] = 'cancelw' if tphase['TAuth'] == 'wait' else 'ending'
        if set(ROOT_ORDER) <= roots_done:
            if st['main'] == 'stoproots':
                emit('RootsStopped', e)
                st['main'] = 'waithung'
            elif st['main'] == 'cstoproots':
                emit('RootsStopped', e)
                st['main'] = 'cstophung'

    def mark_cancelled(term: str) -> None:
        p = tphase.get(term)
        if p == 'wait':
            tphase[term] = 'cancelw'
        elif p == 'run':
            tphase[term] = 'ending'

    def cancel_act_phase() -> None:
        a = st['act']
        if a in ('startup', 'waitroots'):
            st['act'] = 'stopcore'
            mark_cancelled('TAuth')
        elif a == 'sleep':
            st['act'] = 'waitroots'
        elif a in ('stopcore', 'cleanup', 'cleanuprun'):
            st['act'] = 'end'

    def main_reacts_to_cancel(e: dict) -> None:
        emit('Cancel', e)
        st['pending_cancel'] = False
        m = st['main']
        if m == 'wait':
            st['main'] = 'cstoproots'
            for r in ROOT_ORDER:
                if r != 'RAct':
                    mark_cancelled(f'(TRoot {r})')
            if tphase['(TRoot RAct)'] != 'done':
                cancel_act_phase()
        elif m == 'waithung':
            st['main'] = 'cstophung'
        else:
            st['main'] = 'returned-cancelled'

    # daemons the killer's exit sweep really asked to stop: the targets of its 'exiting stopper' tasks
    asked_runners = {id(e['stops']) for e in res.events
                     if e['ev'] == 'new' and e.get('stops') is not None and task_label(e['task']).startswith('exiting stopper of ')}
    killer_cancelled_at = next((e['order'] for e in res.events if e['ev'] == 'cancel' and task_label(e['task']) == 'daemon killer'
                                and e['by'] is not None), None)

    def do_sweep(e: dict) -> None:
        st['swept'] = True
        st['asked'] = [d for d in daemons_live if tphase.get(d) != 'done']
        emit('Sweep', e)
        live_ids = {rid for rid, term in runner_of.items() if term in st['asked']}
        if not live_ids <= asked_runners or not asked_runners <= set(runner_of):
            tr.problems.append('the daemon killer\'s sweep is not a snapshot of the running daemons: stoppers made for '
                               f'{sorted(runner_of.get(r, "?") for r in asked_runners)}, running at the sweep {sorted(st["asked"])}')

    runner_of: dict[int, str] = {}
    hcalls = [{'order': c['order'], 'ev': 'hcall', 'h': int(c['handler'][2:]), 'outcome': c['outcome']}
              for c in res.calls if c['kind'] == 'startup' and c['handler'].startswith('st')]
    for e in sorted(res.events + hcalls, key=lambda x: x['order']):
        ev = e['ev']
        if ev == 'hcall':
            r = {'ok': 'HOk', 'perm': 'HPerm'}.get(e['outcome'] or '', 'HTemp')
            emit(f"StartupHandler {e['h']} {r}", e)
            continue
        if ev == 'new':
            t = e['task']
            i = classify(t, e['by'])
            info[id(t)] = i
            if i['kind'] == 'daemon' and not st['swept'] and tphase.get('(TRoot RKiller)') == 'ending' \
                    and id(t) not in asked_runners and killer_cancelled_at is not None and e['order'] > killer_cancelled_at:
                do_sweep(e)         # this daemon was born after the snapshot: the sweep (snapshot) lies before its creation
            if i['kind'] == 'daemon':
                runner_of[id(t)] = i['term']
            if i['kind'] in ('watcher', 'keepalive', 'worker', 'daemon'):
                o = owner(e['by'])
                emit(f"Spawn {i['term']} {o['term'] if o else 'TAuth'}", e)
                tphase[i['term']] = 'run'
                if i['kind'] == 'daemon':
                    daemons_live[i['term']] = i['idx']
        elif ev == 'req':
            o = owner(e['task'])
            req = e['req']
            if o is None:
                tr.problems.append(f"request {req.method} {req.path} by an unattributable task {task_label(e['task'])}")
                continue
            payload = req.payload if isinstance(req.payload, dict) else {}
            stt = payload.get('status') if isinstance(payload.get('status'), dict) else None
            if o['kind'] == 'keepalive' and req.method == 'PATCH' and stt and all(v is None for v in stt.values()):
                if o['idx'] not in st['withdrawn']:
                    st['withdrawn'].add(o['idx'])
                    if tphase.get(o['term']) == 'run':     # no cancellation seen: the body is failing, `finally` runs
                        emit(f"Fail {o['term']}", e)
                        tphase[o['term']] = 'ending'
                    emit(f"Withdraw {o['idx']}", e)
                    continue
            emit(f"Api {o['term']}", e)
        elif ev == 'stopflag':
            emit('StopFlag', e)
        elif ev == 'signal':
            emit('Signal', e)
            if tphase.get('(TRoot RStopper)') == 'run':
                tphase['(TRoot RStopper)'] = 'ending'
        elif ev == 'cancel_req':
            st['pending_cancel'] = True
        elif ev == 'ready':
            emit('Flag', e)
            st['act'] = 'sleep'
            st['flag'] = True
            for k2, p in list(tphase.items()):
                if p == 'wait':
                    tphase[k2] = 'run'
        elif ev == 'act_begin':
            if e['activity'] == 'cleanup':
                if st['act'] == 'stopcore':
                    emit('CoreStopped', e)
                    st['act'] = 'cleanup'
                emit('CleanupBegin', e)
                st['act'] = 'cleanuprun'
        elif ev == 'act_end':
            if e['activity'] == 'startup':
                if e['out'] == 'ok':
                    emit('StartupOk', e)
                    st['act'] = 'flag'
                elif e['out'] == 'err':
                    emit('StartupFail', e)
                    st['act'] = 'stopcore'
                    mark_cancelled('TAuth')
            elif e['activity'] == 'cleanup':
                if e['out'] == 'ok':
                    emit('CleanupOk', e)
                    st['act'] = 'end'
                elif e['out'] == 'err':
                    emit('CleanupFail', e)
                    st['act'] = 'end'
        elif ev == 'cancel':
            t, by = e['task'], e['by']
            if t is main:
                continue                          # the harness's own request, logged as cancel_req
            if by is None:
                continue                          # asyncio-internal (timeouts cancelling their own task)
            ti = info.get(id(t))
            if by is main:
                if st['pending_cancel']:
                    main_reacts_to_cancel(e)
                elif st['main'] == 'wait':
                    emit('MainStop', e)
                    st['main'] = 'stoproots'
                    for r in ROOT_ORDER:
                        if r != 'RAct':
                            mark_cancelled(f'(TRoot {r})')
                    if tphase['(TRoot RAct)'] != 'done':
                        cancel_act_phase()
                elif st['main'] == 'waithung':
                    emit('GraceTimeout GHung', e)
                    st['main'] = 'stophung'
                if ti is not None and ti['term'] is not None and ti.get('root') != 'RAct':
                    if ti['kind'] != 'root':
                        mark_cancelled(ti['term'])
                    emit(f"Cancelled {ti['term']}", e)
                continue
            bo = owner(by)
            if bo is not None and bo.get('root') == 'RKiller' and ti is not None and ti['term'] is None and not st['swept'] \
                    and tphase.get('(TRoot RKiller)') == 'ending':
                # daemon_killer's finally is past its sweep loop: it closes its own scheduler (cleaner/spawner tasks)
                do_sweep(e)
            if ti is None or ti['term'] is None or bo is None:
                continue
            if bo.get('root') == 'ROrch' and ti['kind'] in ('watcher', 'keepalive'):
                if not st['ostopped']:
                    st['ostopped'] = True
                    emit('OrchStop', e)
                    for term, p in list(tphase.items()):
                        if term.startswith('(TWatcher') or term.startswith('(TKeepalive'):
                            mark_cancelled(term)
            elif bo['kind'] == 'watcher' and ti['kind'] == 'worker' and ti['w'] == bo['idx']:
                g = f"GExit {bo['idx']}"
                if g not in st['graces']:
                    st['graces'].add(g)
                    emit(f'GraceTimeout ({g})', e)
                    for term in list(tphase):
                        if term.startswith(f"(TWorker {bo['idx']} "):
                            mark_cancelled(term)
            elif bo.get('root') == 'RKiller' and ti['kind'] == 'daemon':
                g = f"GBackoff {ti['idx']}"
                if g not in st['graces']:
                    st['graces'].add(g)
                    emit(f'GraceTimeout ({g})', e)
                    mark_cancelled(ti['term'])
            elif bo.get('root') == 'RAct' and ti['kind'] == 'auth':
                pass
            elif bo['term'] == ti['term']:
                continue                          # a task cancelling itself through a helper (watcher on a worker error)
            else:
                tr.problems.append(f"unmodelled cancellation of {ti['name']} by {bo['name']}")
                continue
            emit(f"Cancelled {ti['term']}", e)
        elif ev == 'done':
            t = e['task']
            ti = info.get(id(t))
            if t is main:
                if st['pending_cancel']:
                    main_reacts_to_cancel(e)
                if st['main'] == 'returned-cancelled':
                    tr.result = 'RCancelled'
                    continue
                if e['out'] == 'cancelled':
                    r = 'RCancelled'
                elif e['out'] == 'ok':
                    r = 'ROk'
                else:
                    r = exc_terms.get(id(e['exc']))
                    if r is None:
                        tr.problems.append(f"operator raised {type(e['exc']).__name__} which no root or hung task ended with")
                        r = 'RCancelled'
                    else:
                        r = f'(RErr {r})'
                if st['main'] == 'waithung':
                    emit('HungDone', e)
                emit(f'Return {r}', e)
                tr.result = r
                st['main'] = 'returned'
                continue
            if ti is None or ti['term'] is None:
                continue
            term = ti['term']
            if e['out'] == 'ok':
                o = 'OOk'
            elif e['out'] == 'cancelled':
                o = 'OCancelled'
            else:
                o = f'(OErr (EOf {term}))'
                exc_terms[id(e['exc'])] = f'(EOf {term})'
            if ti.get('root') == 'RAct':
                if st['act'] == 'stopcore':
                    emit('CoreStopped', e)
                if e['out'] == 'err':
                    # which error: the startup activity's, the cleanup activity's, or the core task's (reraise)
                    last = [x for x in res.events if x['ev'] == 'act_end' and x['order'] < e['order'] and x['activity'] in ('startup', 'cleanup')]
                    src = None
                    for x in reversed(last):
                        if x['out'] == 'err':
                            src = 'EStartup' if x['activity'] == 'startup' else 'ECleanup'
                            break
                    core_exc = [v for k2, v in exc_terms.items() if k2 == id(e['exc']) and v == '(EOf TAuth)']
                    if core_exc:
                        src = '(EOf TAuth)'
                    o = f'(OErr {src})'
                    exc_terms[id(e['exc'])] = src or '(EOf (TRoot RAct))'
                st['act'] = 'end'
                emit(f'IsDone {term} {o}', e)
                tphase[term] = 'done'
                roots_done.add('RAct')
                root_done_followups(e)
                continue
            p = tphase.get(term, 'run')
            if ti.get('root') == 'RKiller' and p == 'ending' and not st['swept']:
                do_sweep(e)
            if ti.get('root') == 'RKiller' and p == 'ending' and e['out'] != 'err':
                for dterm in st['asked']:
                    if tphase.get(dterm) != 'done':
                        emit(f"GraceTimeout (GAbandon {daemons_live[dterm]})", e)
            if ti.get('root') == 'ROrch' and p == 'ending' and e['out'] == 'cancelled' and not st['ostopped']:
                st['ostopped'] = True
                emit('OrchStop', e)
            if p == 'run' and e['out'] == 'err':
                emit(f'Fail {term}', e)
            if p == 'run' and e['out'] == 'cancelled':
                tr.problems.append(f"{ti['name']} ended cancelled without an observed cancellation request")
            emit(f'Finish {term} {o}', e)
            tphase[term] = 'done'
            if ti['kind'] == 'worker' and e['out'] == 'err':
                wt = f"(TWatcher {ti['w']})"
                if tphase.get(wt) == 'run':
                    tphase[wt] = 'ending'
            if ti['kind'] == 'root':
                roots_done.add(ti['root'])
                root_done_followups(e)
        if ev == 'new' and info[id(e['task'])]['kind'] == 'aux':
            # the daemon killer's per-daemon stoppers mark the finally-sweep
            i = info[id(e['task'])]
            o = owner(e['by'])
            if i['name'].startswith('exiting stopper of ') and o is not None and o.get('root') == 'RKiller' and not st['swept']:
                do_sweep(e)
    tr.brief = [f"{e['order']}:{e['ev']}:{task_label(e.get('task')) if e.get('task') is not None else e.get('activity', '')}"
                f"{':' + e['out'] if 'out' in e else ''}" for e in res.events if e['ev'] != 'req'][:400]
    return tr


# --------------------------------------------------------------------------------------------
# Monitors: the property text read on the recorded history
# --------------------------------------------------------------------------------------------

def describe(sc: dict) -> dict:
    return json.loads(json.dumps(sc))


def exit_bound(sc: dict) -> float:
    """Sum of the configured grace periods that can lie between the trigger and the return."""
    ds = DAEMON_SETS[sc['daemons']]
    per_daemon = max([(d['backoff'] or 0) + (d['timeout'] or 0) for d in ds] + [0])
    cleanup = activity_time(CLEANUPS[sc['cleanup']])
    return EXIT_TIMEOUT + 5 + per_daemon + cleanup + 3 + 0.5 + 2 * sc.get('peering_latency', 0)   # + error_backoffs [1, 2] of the final touch + its latency + slack


def monitors(ctx: fw.Ctx, res: Result, tr: Translation) -> None:
    sc = res.sc
    case = describe(sc)
    trig = sc['trigger']
    calls = res.calls
    startups = [c for c in calls if c['kind'] == 'startup']
    cleanups = [c for c in calls if c['kind'] == 'cleanup']
    daemons = [c for c in calls if c['kind'] == 'daemon']
    others = [c for c in calls if c['kind'] not in ('startup', 'cleanup', 'daemon')]
    reqs = res.requests
    ready = [e for e in res.events if e['ev'] == 'ready']
    ret = [e for e in res.events if e['ev'] == 'done' and e['task'] is res.main]
    st_end = [e for e in res.events if e['ev'] == 'act_end' and e['activity'] == 'startup']
    startup_ok = bool(st_end) and st_end[0]['out'] == 'ok'
    startup_failed = bool(st_end) and st_end[0]['out'] == 'err'
    expect_startup_fail = finally_fails(STARTUPS[sc['startup']])
    perm_startup = [c for c in startups if c['outcome'] == 'perm']
    trig_at = res.trigger_t if res.trigger_t is not None else trig.get('at', 0)

    if res.error:
        ctx.fail('the scenario did not run to its end', case, observed=res.error, sig='scenario-error')
        return

    # --- startup first
    if reqs:
        first = reqs[0]
        if not startup_ok or first.order < st_end[0]['order']:
            ctx.fail('an API request was made before the startup activity had succeeded', case,
                     observed={'request': first.brief(), 'startup': st_end[0]['out'] if st_end else 'not finished'}, sig='api-before-startup')
        for c in startups:
            if c['ended'] is None or first.t < c['ended'] or first.order < c['order']:
                ctx.fail('an API request was made before a startup handler had finished', case,
                         observed={'request': first.brief(), 'handler': c['handler'], 'ended': c['ended']}, sig='api-before-startup')
        if any(c['outcome'] == 'perm' for c in startups):
            ctx.fail('API requests although a startup handler failed', case, observed=first.brief(), sig='api-after-failed-startup')
    if ready:
        if not startup_ok or ready[0]['order'] < st_end[0]['order']:
            ctx.fail('the ready flag was raised before the startup activity had succeeded', case, sig='ready-before-startup')
        for c in startups:
            if c['ended'] is None or ready[0]['t'] < c['ended']:
                ctx.fail('the ready flag was raised before a startup handler had finished', case, observed=c['handler'], sig='ready-before-startup')
    elif startup_ok and not (trig['kind'] in ('stop', 'cancel') and trig_at <= (st_end[0]['t'] if st_end else 0)):
        ctx.fail('startup succeeded but the ready flag was never raised', case, sig='never-ready')
    # --- a stop request (flag, signal, cancellation) while the startup activity is still running (slow, retrying, ...):
    #     the unchanged operator abandons the startup at once ("only partially executed"), never goes on to the API, never
    #     raises the ready flag, runs no cleanup, and returns within the hung-tasks grace (5 s; 0 s unless a signal left
    #     the stop-flag waiter pending)
    during_startup = (trig['kind'] in ('stop', 'cancel') and not trig.get('second') and res.trigger_order is not None
                      and bool(STARTUPS[sc['startup']]) and not [e for e in st_end if e['order'] < res.trigger_order])
    if during_startup:
        T = res.trigger_t
        how = trig.get('via', 'flag') if trig['kind'] == 'stop' else 'cancellation'
        obs0 = {'trigger': how, 'at': T}
        for c in startups:
            if c['t'] > T:
                ctx.fail('a startup handler was invoked after the stop request', case, observed={**obs0, 'handler': c['handler'], 'invoked_at': c['t']},
                         sig='startup-continued-after-stop')
            elif c['ended'] is None or c['ended'] > T:
                ctx.fail('a startup handler kept running after the stop request', case, observed={**obs0, 'handler': c['handler'], 'ended': c['ended']},
                         sig='startup-continued-after-stop')
        if reqs:
            ctx.fail('API activity started although a stop was requested during startup', case,
                     observed={**obs0, 'request': reqs[0].brief()}, sig='api-after-stop-during-startup')
        if ready:
            ctx.fail('the ready flag was raised although a stop was requested during startup', case,
                     observed={**obs0, 'ready_at': ready[0]['t']}, sig='ready-after-stop-during-startup')
        if cleanups:
            ctx.fail('cleanup handlers ran although the startup was abandoned by a stop request', case,
                     observed={**obs0, 'cleanup': cleanups[0]['handler'], 'at': cleanups[0]['t']}, sig='cleanup-after-stop-during-startup')
        if ret and ret[0]['t'] - T > 5.5:
            ctx.fail('a stop request during startup was not followed by a return within the hung-tasks grace', case,
                     observed={**obs0, 'returned_after_s': ret[0]['t'] - T}, expected='<= 5 s', sig='slow-exit-during-startup')
        ctx.count('observed', f'stop-during-startup:{how}')
    if perm_startup and ready:
        ctx.fail('the ready flag was raised although a startup handler had failed for good', case,
                 observed={'handler': perm_startup[0]['handler'], 'failed_at': perm_startup[0]['ended'], 'ready_at': ready[0]['t']},
                 sig='ready-after-failed-startup')
    # a stop trigger that comes while the startup activity still runs, or within the 5 s of the hung-tasks phase after its
    # failure, legitimately changes how kopf.operator() ends
    t_fail = st_end[0]['t'] if st_end else None
    early_trigger = trig['kind'] in ('stop', 'cancel') and (t_fail is None or trig_at <= t_fail + 6)
    if (expect_startup_fail or perm_startup) and not early_trigger:
        exc = res.inc.exception if res.inc else None
        if not res.exited or res.forced or type(exc).__name__ != 'ActivityError':
            ctx.fail('a failed startup did not abort the operator with the failure', case,
                     observed={'exited': res.exited and not res.forced, 'raised': type(exc).__name__}, sig='failed-startup-not-raised')
        if reqs:
            ctx.fail('a failed startup was followed by API requests', case, observed=reqs[0].brief(), sig='api-after-failed-startup')
        if cleanups:
            ctx.count('observed', 'cleanup-after-failed-startup')

    # --- an essential task failed: the whole operator must shut down and re-raise
    if res.injected in ('root500', 'crd_error', 'stream_error', 'worker_raise', 'keepalive_fail') and not expect_startup_fail:
        failed_before = [task_label(e['task']) + ':' + type(e['exc']).__name__ for e in res.events
                         if e['ev'] == 'done' and e['out'] == 'err' and (res.trigger_order is None or e['order'] < res.trigger_order)]
        if res.lingered is not None and not failed_before:
            ctx.count('observed', 'injection-had-no-effect')      # e.g. the stream was paused: nothing failed, nothing to stop for
        elif res.lingered is not None:
            ctx.fail('an essential task failed but the operator keeps running half-alive', case,
                     observed={'failed': res.injected, 'still_running_after_s': res.lingered,
                               'later_object_handled': res.later_object_handled,
                               'tasks_failed': failed_before},
                     expected='kopf.operator() returns (re-raising) within the grace periods', sig='lingers-after-task-failure')
        else:
            exc = res.inc.exception if res.inc else None
            failed = [e for e in res.events if e['ev'] == 'done' and e['out'] == 'err' and e['task'] is not res.main]
            if exc is None or isinstance(exc, asyncio.CancelledError):
                ctx.fail('the operator returned without re-raising the failure of its task', case,
                         observed={'raised': type(exc).__name__, 'failed': [task_label(e['task']) for e in failed]}, sig='failure-not-reraised')
            elif not any(e['exc'] is exc for e in failed):
                ctx.fail('the operator raised something else than the failure of its task', case,
                         observed={'raised': type(exc).__name__, 'failed': [type(e['exc']).__name__ for e in failed]}, sig='other-exception-raised')
            if failed and ret and ret[0]['t'] - failed[0]['t'] > exit_bound(sc):
                ctx.fail('exit after a task failure took longer than the grace periods', case,
                         observed=ret[0]['t'] - failed[0]['t'], expected=exit_bound(sc), sig='slow-exit')

    # --- shutdown: everything else stops, then cleanup, then return
    if not res.exited or res.forced:
        ctx.fail('kopf.operator() did not return', case, observed={'lingered': res.lingered}, sig='no-return')
        return
    rt = ret[0]
    double = bool(trig.get('second'))
    cancelled_path = trig['kind'] == 'cancel' or trig.get('then') == 'cancel' or (trig.get('second') or {}).get('kind') == 'cancel'
    if res.trigger_t is not None and res.lingered is None and rt['t'] - res.trigger_t > exit_bound(sc) and trig['kind'] in ('stop', 'cancel'):
        ctx.fail('exit took longer than the sum of the grace periods', case, observed=rt['t'] - res.trigger_t, expected=exit_bound(sc), sig='slow-exit')
    cl_begin = [e for e in res.events if e['ev'] == 'act_begin' and e['activity'] == 'cleanup']
    cl_order = cl_begin[0]['order'] if cl_begin else None
    if startup_ok and ready and not double:
        if not cl_begin:
            if not (failed_core(res)):
                ctx.fail('the operator got past startup but the cleanup activity never ran', case, sig='no-cleanup')
        if CLEANUPS[sc['cleanup']] and len(cleanups) < 1 and cl_begin:
            ctx.fail('cleanup handlers were not invoked', case, sig='no-cleanup')
    if cl_order is not None:
        for e in res.events:
            if e['ev'] == 'done' and e['task'] is not res.main and e['order'] > cl_order:
                i = tr.tasks.get(id(e['task']))
                if i is None:
                    continue
                if i['kind'] in ('root', 'auth', 'watcher', 'keepalive', 'worker') and i.get('root') != 'RAct':
                    ctx.fail('a task of the operator was still running when the cleanup handlers started', case,
                             observed={'task': i['name'], 'finished_at_order': e['order'], 'cleanup_at_order': cl_order}, sig='cleanup-not-last')
                if i['kind'] == 'daemon':
                    facts = daemon_facts(res, tr, e['task'], daemons)
                    if facts['by_design']:
                        ctx.count('observed', 'abandoned-daemon-alive-during-cleanup')
                    else:
                        facts.pop('entry')
                        ctx.fail('a daemon was still running when the cleanup handlers started', case,
                                 observed={'task': i['name'], 'finished_at_order': e['order'], 'cleanup_at_order': cl_order, **facts},
                                 sig='daemon-after-cleanup')
        # the harness's own registry of daemon / timer invocations: none of this operator may still be running
        flagged = {id(e2['task']) for e2 in res.events if e2['ev'] == 'done' and e2['order'] > cl_order and e2['task'] is not res.main
                   and (tr.tasks.get(id(e2['task'])) or {}).get('kind') == 'daemon'}
        runners_all = [e2 for e2 in res.events if e2['ev'] == 'new' and task_label(e2['task']).startswith('runner of ')]
        for rn in runners_all:
            facts = daemon_facts(res, tr, rn['task'], daemons)
            d = facts.pop('entry')
            if d is None or id(rn['task']) in flagged:
                continue
            if d['t'] <= cl_begin[0]['t'] and (d['ended'] is None or d['ended'] > cl_begin[0]['t']):
                if facts['by_design']:
                    ctx.count('observed', 'abandoned-daemon-alive-during-cleanup')
                else:
                    ctx.fail('a daemon was still running when the cleanup handlers started', case,
                             observed={'task': task_label(rn['task']), 'invocation': {'object': d['name'], 'began': d['t'], 'ended': d['ended']},
                                       'cleanup_began': cl_begin[0]['t'], **facts}, sig='daemon-after-cleanup')
        for c in calls:
            if c['kind'] == 'timer' and c['t'] <= cl_begin[0]['t'] and (c['ended'] is None or c['ended'] > cl_begin[0]['t']):
                ctx.fail('a timer invocation was still running when the cleanup handlers started', case, observed=c['handler'], sig='timer-after-cleanup')
        late = [q for q in reqs if q.order > cl_order]
        if late:
            ctx.fail('API requests were made after the cleanup handlers started', case, observed=late[0].brief(), sig='api-after-cleanup')
        for c in others:
            if c['ended'] is None or c['ended'] > cl_begin[0]['t']:
                ctx.fail('a resource handler was still running when the cleanup handlers started', case, observed=c['handler'], sig='handler-after-cleanup')
    for c in cleanups:
        if c['ended'] is None or c['ended'] > rt['t'] or c['order'] > rt['order']:
            if not double and not (cancelled_path and c.get('aborted')):
                ctx.fail('kopf.operator() returned before a cleanup handler finished', case, observed=c['handler'], sig='return-before-cleanup')
    # daemons are stopped
    for d in daemons:
        if (d['ended'] is None or d['ended'] > rt['t']) and not double:
            ctx.fail('a daemon survived the return of kopf.operator()', case, observed={'daemon': d['handler'], 'ended': d['ended']}, sig='daemon-survives')
    runners = [e2 for e2 in res.events if e2['ev'] == 'new' and task_label(e2['task']).startswith('runner of ')]
    for rn in runners:
        facts = daemon_facts(res, tr, rn['task'], daemons)
        d = facts.pop('entry')
        if d is not None and d['outcome'] != 'exited' and not facts['ever_asked_to_stop'] and d.get('cancelled_at') is None \
                and not double and not facts['by_design']:
            ctx.fail('a running daemon was never asked to stop', case, observed={'task': task_label(rn['task']), 'object': d['name'], **facts},
                     sig='daemon-not-asked')
    for e2 in res.events:
        if e2['ev'] == 'done' and e2['out'] == 'err' and e2['task'] is not res.main and res.injected is None \
                and task_label(e2['task']) != 'startup/cleanup activities':
            ctx.fail('a task of the operator failed although nothing was injected', case,
                     observed={'task': task_label(e2['task']), 'exc': repr(e2['exc'])[:200]}, sig='internal-task-failure')
    # every task of the incarnation is gone at return
    if not double:
        for e in res.events:
            if e['ev'] == 'done' and e['order'] > rt['order'] and e['task'] is not res.main:
                ctx.fail('a task of the operator outlived kopf.operator()', case, observed=task_label(e['task']), sig='task-survives')
    # the peering record is withdrawn
    if sc.get('peering') and startup_ok and ready and not double:
        ka = [i for i in tr.tasks.values() if i['kind'] == 'keepalive']
        touched = [q for q in reqs if q.method == 'PATCH' and PEERING_NAME in q.path and q.status == 200
                   and isinstance(q.payload, dict) and any(v is not None for v in (q.payload.get('status') or {}).values())]
        if touched:
            mine = sorted({k for q in touched for k, v in q.payload['status'].items() if v is not None})     # this operator's identity
            left = {k: v for k, v in (res.peer_status or {}).items() if k in mine and v is not None}
            if left and trig['kind'] != 'keepalive_fail':         # (there the final PATCH cannot succeed)
                ctx.fail('at the return of kopf.operator() the peering object still holds a record of this operator', case,
                         observed={'record': left, 'requests_in_flight_at_the_trigger': res.inflight_at_trigger,
                                   'peering_patches': [(q.t, 'withdraw' if all(v is None for v in (q.payload.get('status') or {}).values()) else 'announce', q.status)
                                                       for q in reqs if q.method == 'PATCH' and PEERING_NAME in q.path][:8]},
                         sig='peering-not-withdrawn')
            wd = [q for q in reqs if q.method == 'PATCH' and PEERING_NAME in q.path and isinstance(q.payload, dict)
                  and (q.payload.get('status') or {}) and all(v is None for v in q.payload['status'].values())]
            if wd and cl_order is not None and wd[-1].order > cl_order:
                ctx.fail('the peering record was withdrawn only after the cleanup handlers started', case, sig='peering-after-cleanup')
        if not ka:
            ctx.count('observed', 'peering-without-keepalive')
    # what kopf.operator() raised
    exc = res.inc.exception if res.inc else None
    if res.injected is None and not expect_startup_fail:
        if trig['kind'] == 'stop' and not cancelled_path and not finally_fails(CLEANUPS[sc['cleanup']]) and exc is not None:
            ctx.fail('a graceful stop ended with an exception', case, observed=repr(exc), sig='stop-raises')
        if trig['kind'] == 'stop' and not cancelled_path and any(c['outcome'] == 'perm' for c in cleanups) and startup_ok and ready \
                and type(exc).__name__ != 'ActivityError':
            ctx.fail('a failed cleanup was not re-raised', case, observed=repr(exc), sig='cleanup-failure-not-raised')
        if trig['kind'] == 'cancel' and not isinstance(exc, asyncio.CancelledError):
            ctx.fail('a cancelled operator did not end cancelled', case, observed=repr(exc), sig='cancel-not-propagated')


def daemon_facts(res: Result, tr: Translation, task: Any, daemons: list[dict]) -> dict:
    """What the history says about one daemon (its runner task)."""
    name = task_label(task)[len('runner of '):]
    same = [x for x in res.events if x['ev'] == 'new' and task_label(x['task']) == task_label(task)]
    k = next((j for j, x in enumerate(same) if x['task'] is task), 0)
    entries = [d for d in daemons if d['handler'] == name]
    d = entries[k] if k < len(entries) else None
    born = same[k]['order'] if k < len(same) else None
    spec = next((h for h in handlers_of(res.sc) if h['id'] == name), None)
    # Documented (docs/daemons.rst): a daemon that neither exits on the stopper nor is given a cancellation_timeout is not
    # cancelled by the daemon killer at all, and one that swallows the cancellation is abandoned after its timeout; both
    # are left to run_tasks' "hung tasks" phase.
    by_design = spec is not None and (spec['temper'] == 'ignores' or
                                      (spec['temper'] in ('cancellable', 'exits') and spec['kwargs']['cancellation_timeout'] is None))
    killer_failed = any(x['ev'] == 'done' and x['out'] == 'err' and task_label(x['task']) == 'daemon killer' for x in res.events)
    return {'entry': d, 'by_design': by_design, 'killer_failed': killer_failed,
            'spawned_after_shutdown_began': born is not None and res.trigger_order is not None and born > res.trigger_order,
            'ever_asked_to_stop': bool(d and (d.get('flag_at') is not None or d.get('stop_seen') is not None)),
            'sweep_before_spawn': sweep_before(tr, born)}


def sweep_before(tr: Translation, born: int | None) -> bool:
    """Does the label Sweep precede, in the label trace, the Spawn of the daemon whose runner task was created at `born`?"""
    sw = [i for i, l in enumerate(tr.labels) if l == 'Sweep']
    sp = [i for i, (l, o) in enumerate(zip(tr.labels, tr.origin)) if o == born and l.startswith('Spawn (TDaemon')]
    return bool(sw) and bool(sp) and sw[0] < sp[0]


def failed_core(res: Result) -> bool:
    return any(e['ev'] == 'done' and e['out'] == 'err' and task_label(e['task']) == 'credentials retriever' for e in res.events)


def daemon_entry(daemons: list[dict], e: dict) -> dict | None:
    name = task_label(e['task'])            # 'runner of dm0'
    hid = name[len('runner of '):]
    cands = [d for d in daemons if d['handler'] == hid]
    return cands[-1] if cands else None


# --------------------------------------------------------------------------------------------
# Known findings
# --------------------------------------------------------------------------------------------

def match_f10(f: dict) -> bool:
    """F10: only a failure of an Ensemble task (resource watcher incl. via its worker, peering watcher, keep-alive)
    after which every root task keeps running; anything else (a root failing and the operator lingering) is NOT it."""
    if f['sig'] != 'lingers-after-task-failure':
        return False
    obs = f.get('observed') or {}
    failed = obs.get('tasks_failed') or []
    if obs.get('failed') not in ('stream_error', 'worker_raise', 'keepalive_fail') or not failed:
        return False
    ens = ('watcher for ', 'peering observer for ', 'peering keep-alive for ', 'worker for ', 'anon:touch:')
    return all(any(x.startswith(p) for p in ens) for x in failed)


def match_f2001(f: dict) -> bool:
    """F2001: only a daemon that was spawned after the shutdown began AND after the daemon killer's final sweep, and was
    never asked to stop.  A daemon that existed at the sweep and still outlives it is a different violation."""
    if f['sig'] not in ('daemon-after-cleanup', 'daemon-not-asked'):
        return False
    obs = f.get('observed') or {}
    return bool(obs.get('spawned_after_shutdown_began')) and bool(obs.get('sweep_before_spawn')) and not obs.get('ever_asked_to_stop') \
        and not obs.get('killer_failed')


# --------------------------------------------------------------------------------------------
# Structure of spawn_tasks read from the source (S-like tie for the static part of the model)
# --------------------------------------------------------------------------------------------

def spawn_table() -> list[tuple[str, bool, str]] | str:
    """[(task name, guarded by started_flag, list it is appended to)] in source order, unconditional ones only."""
    src = (fw.REPO / 'kopf/_core/reactor/running.py').read_text()
    tree = ast.parse(src)
    fn = next((n for n in ast.walk(tree) if isinstance(n, ast.AsyncFunctionDef) and n.name == 'spawn_tasks'), None)
    if fn is None:
        return 'spawn_tasks not found'
    out: list[tuple[str, bool, str]] = []

    def visit(stmts: list[ast.stmt], conditional: str | None) -> None:
        for s in stmts:
            if isinstance(s, ast.If):
                cond = ast.unparse(s.test)
                if cond in ('_command is not None',):
                    visit(s.orelse, None)       # the harness runs without _command: the else-branch is unconditional
                elif cond == 'liveness_endpoint':
                    continue                    # not configured in the harness
                else:
                    visit(s.body, cond)
                    visit(s.orelse, cond)
                continue
            if isinstance(s, ast.Expr) and isinstance(s.value, ast.Call) and isinstance(s.value.func, ast.Attribute) \
                    and s.value.func.attr == 'append' and isinstance(s.value.func.value, ast.Name) \
                    and s.value.func.value.id in ('tasks', 'core_tasks') and s.value.args:
                call = s.value.args[0]
                if not isinstance(call, ast.Call):
                    continue
                kws = {k.arg: k.value for k in call.keywords}
                name = kws.get('name')
                nm = name.value if isinstance(name, ast.Constant) else ast.unparse(name) if name is not None else '?'
                flag = kws.get('flag')
                guarded = flag is not None and ast.unparse(flag) == 'started_flag'
                maker = ast.unparse(call.func)
                if guarded and maker != 'aiotasks.create_guarded_task':
                    guarded = False
                out.append((nm + (f' [if {conditional}]' if conditional else ''), guarded, s.value.func.value.id))
    visit(fn.body, None)
    return out


def structure_cases() -> list[fw.Case]:
    tab = spawn_table()
    cases: list[fw.Case] = []
    if isinstance(tab, str):
        return [fw.Case('false', {'error': tab})]
    roots = [(n, g) for n, g, lst in tab if lst == 'tasks']
    core = [(n, g) for n, g, lst in tab if lst == 'core_tasks']
    idx = {v: i for i, v in enumerate(ROOT_ORDER)}
    enc = []
    for n, g in roots:
        if n not in ROOT_NAMES:
            return [fw.Case('false', {'error': f'unknown root task in spawn_tasks: {n}', 'table': tab})]
        enc.append(cq.cpair(cq.cnat(idx[ROOT_NAMES[n]]), cq.cbool(g)))
    cases.append(fw.Case(
        f'list_eqb (pair_eqb Nat.eqb Bool.eqb) (map (fun r => (root_idx r, guarded r)) all_roots) {cq.clist(enc)}',
        {'what': 'root tasks of spawn_tasks in creation order with their started_flag guard', 'table': tab},
        diag='map (fun r => (root_idx r, guarded r)) all_roots'))
    cases.append(fw.Case(
        cq.cbool(core == [('credentials retriever', True)]) + ' && match init_ph TAuth with PWaitFlag => true | _ => false end',
        {'what': 'the core task list is exactly the guarded credentials retriever', 'core': core}))
    return cases


# --------------------------------------------------------------------------------------------
# The scenario grid
# --------------------------------------------------------------------------------------------

def grid(ctx: fw.Ctx) -> list[dict]:
    scs: list[dict] = []

    def add(**kw: Any) -> None:
        sc = {'startup': 'ok', 'cleanup': 'ok', 'daemons': 'none', 'peering': False, 'scanning': False, 'handler_duration': 0, 'objects': 1}
        sc.update(kw)
        scs.append(sc)

    dsets_small = ['none', 'obeys', 'cancellable', 'ignores']
    # 1. stop triggers at every phase (startup lasts 2 s in 'ok', 6 s in 'slow')
    for kind in ('stop', 'cancel'):
        for startup in ('none', 'ok', 'fail'):
            add(startup=startup, trigger={'kind': kind, 'at': 0, 'settled': True})
        for startup, at in (('none', 0), ('none', 10), ('ok', 0), ('ok', 1), ('ok', 2), ('ok', 10), ('slow', 3), ('slow', 6), ('slow', 12),
                            ('two', 2), ('retried', 2), ('retried', 9), ('fail', 0.5), ('fail', 10), ('ok+fail', 1.5), ('ok+fail', 10)):
            for ds in dsets_small:
                add(startup=startup, daemons=ds, trigger={'kind': kind, 'at': at})
    # 2. more daemon sets, in-flight slow handlers, cleanup variants
    for kind in ('stop', 'cancel'):
        for ds in DAEMON_SETS:
            for cleanup in ('ok', 'none', 'fail', 'two'):
                add(daemons=ds, cleanup=cleanup, trigger={'kind': kind, 'at': 10})
            add(daemons=ds, handler_duration=4, objects=2, trigger={'kind': kind, 'at': 12, 'inflight': True})
            if ds != 'ignores':    # (a daemon that swallows the only cancellation it ever gets blocks the exit: by design)
                add(daemons=ds, objects=0, trigger={'kind': kind, 'at': 10, 'create_at_trigger': True})
                add(daemons=ds, objects=1, handler_duration=2, trigger={'kind': kind, 'at': 10, 'create_at_trigger': True, 'settled': True})
    # 2a. flag-type stop triggers INSIDE the startup phase (slow handler, between two handlers, in a retry delay), as the
    #     stop flag and as a real SIGTERM through signal_flag; and the signal after startup
    for startup, at in (('slow', 0.5), ('slow', 5.5), ('ok', 0.25), ('two', 0.5), ('two', 1), ('two', 3.5), ('retried', 0.5),
                        ('retried', 1.5), ('retried', 3.25), ('all-retried-ok', 2.5), ('all-retried-ok', 5.5)):
        for ds in ('none', 'obeys'):
            add(startup=startup, daemons=ds, trigger={'kind': 'stop', 'at': at})
            add(startup=startup, daemons=ds, trigger={'kind': 'stop', 'via': 'signal', 'at': at})
        add(startup=startup, peering=True, trigger={'kind': 'stop', 'at': at})
    for startup in ('ok', 'slow', 'retried'):
        add(startup=startup, trigger={'kind': 'stop', 'via': 'signal', 'at': 0, 'settled': True})
    for ds in dsets_small:
        add(daemons=ds, trigger={'kind': 'stop', 'via': 'signal', 'at': 10})
        add(daemons=ds, handler_duration=4, trigger={'kind': 'stop', 'via': 'signal', 'at': 12, 'inflight': True})
    add(peering=True, trigger={'kind': 'stop', 'via': 'signal', 'at': 10})
    # 2b. several startup / cleanup handlers over several rounds of run_activity (retries with distinct delays)
    multi = ['perm+retry', 'retry+perm', 'lateperm+ok', 'ok+retryperm', 'three-mixed', 'three-midperm', 'all-retried-ok']
    for startup in multi:
        for ds in ('none', 'obeys'):
            add(startup=startup, daemons=ds, trigger={'kind': 'stop', 'at': 25})
            add(startup=startup, daemons=ds, trigger={'kind': 'cancel', 'at': 25})
            add(startup=startup, daemons=ds, trigger={'kind': 'root500'})
        add(startup=startup, trigger={'kind': 'stop', 'at': 2})        # in the middle of the rounds
        add(startup=startup, trigger={'kind': 'cancel', 'at': 3.5})
        add(startup=startup, peering=True, trigger={'kind': 'stop', 'at': 25})
    for cleanup in ('retried', 'perm+retry', 'ok+retryperm'):
        for kind in ('stop', 'cancel'):
            for ds in ('none', 'obeys'):
                add(cleanup=cleanup, daemons=ds, trigger={'kind': kind, 'at': 10})
        add(cleanup=cleanup, startup='all-retried-ok', trigger={'kind': 'stop', 'at': 25})
        add(cleanup=cleanup, scanning=True, trigger={'kind': 'crd_error', 'at': 10})
    # 3. peering
    for kind in ('stop', 'cancel'):
        for ds in ('none', 'obeys'):
            for at in (1, 2, 10, 30):
                add(peering=True, daemons=ds, trigger={'kind': kind, 'at': at})
    # 3a. a daemon that is mid-termination when the operator is stopped: its object was deleted shortly before the trigger
    for ds in ('slowstop', 'slowstop+obeys', 'cancellable', 'obeys'):
        for kind in ('stop', 'cancel'):
            for before in (0.5, 1.5):
                # (the trigger must come before the object's own worker reaches the cancellation stage of the per-object
                #  termination, which Model/Lifecycle.v does not model: delete_before < cancellation_backoff)
                if before < min(d['backoff'] or 99 for d in DAEMON_SETS[ds]):
                    add(daemons=ds, objects=2, trigger={'kind': kind, 'at': 10, 'delete_before': before})
        add(daemons=ds, objects=1, trigger={'kind': 'stop', 'via': 'signal', 'at': 10, 'delete_before': 0.5})
        add(daemons=ds, objects=1, scanning=True, trigger={'kind': 'crd_error', 'at': 10, 'delete_before': 0.5})
        add(daemons=ds, objects=1, cleanup='two', trigger={'kind': 'stop', 'at': 10, 'delete_before': 0.75})
    # 3b. peering with a slow API for the peering object: stop triggers while a keep-alive PATCH is in flight (applied by the
    #     server, not yet answered) — the very first one, a later one — and between two of them
    for lat in (2, 0.5):
        for n, offs in ((1, (0.25, 0.5 * lat, lat - 0.125, lat + 1)), (2, (0.5 * lat,))):
            for off in offs:
                for ds in ('none', 'obeys'):
                    add(peering=True, peering_latency=lat, daemons=ds, trigger={'kind': 'stop', 'peering_patch': n, 'offset': off})
                    add(peering=True, peering_latency=lat, daemons=ds, trigger={'kind': 'cancel', 'peering_patch': n, 'offset': off})
                add(peering=True, peering_latency=lat, trigger={'kind': 'stop', 'via': 'signal', 'peering_patch': n, 'offset': off})
                add(peering=True, peering_latency=lat, scanning=True, trigger={'kind': 'crd_error', 'peering_patch': n, 'offset': off})
        add(peering=True, peering_latency=lat, startup='retried', trigger={'kind': 'stop', 'peering_patch': 1, 'offset': 0.25})
        add(peering=True, peering_latency=lat, cleanup='fail', trigger={'kind': 'cancel', 'peering_patch': 1, 'offset': 0.25})
    # 4. a root task fails
    for ds in dsets_small:
        for startup in ('ok', 'none', 'fail'):
            add(startup=startup, daemons=ds, trigger={'kind': 'root500'})
        for at in (8, 15):
            add(daemons=ds, scanning=True, trigger={'kind': 'crd_error', 'at': at})
            add(daemons=ds, scanning=True, handler_duration=4, trigger={'kind': 'crd_error', 'at': at, 'inflight': True})
        add(daemons=ds, scanning=True, trigger={'kind': 'stop', 'at': 10})
        add(daemons=ds, scanning=True, peering=True, trigger={'kind': 'crd_error', 'at': 10})
    # 5. an ensemble task fails (F10)
    for ds in ('none', 'obeys'):
        for then in ('stop', 'cancel'):
            add(daemons=ds, trigger={'kind': 'stream_error', 'at': 10, 'then': then})
            add(daemons=ds, trigger={'kind': 'worker_raise', 'at': 10, 'then': then})
        add(daemons=ds, peering=True, trigger={'kind': 'keepalive_fail', 'at': 10, 'then': 'stop'})
        add(daemons=ds, peering=True, trigger={'kind': 'stream_error', 'at': 10, 'then': 'stop'})
    # 6. two stop triggers in a row (outside the property's single-trigger quantifier; tie only + weak monitors)
    for ds in ('none', 'obeys', 'cancellable'):
        add(daemons=ds, handler_duration=4, trigger={'kind': 'stop', 'at': 10, 'inflight': True, 'second': {'kind': 'cancel', 'after': 0.5}})
        add(daemons=ds, trigger={'kind': 'cancel', 'at': 10, 'second': {'kind': 'stop', 'after': 0}})
    if ctx.thorough:
        r = ctx.rng
        for _ in range(1500):
            kind = r.choice(['stop', 'stop', 'cancel', 'cancel', 'crd_error', 'root500', 'stream_error', 'worker_raise'])
            sc = {'startup': r.choice(list(STARTUPS)), 'cleanup': r.choice(list(CLEANUPS)), 'daemons': r.choice(list(DAEMON_SETS)),
                  'peering': r.random() < 0.3, 'scanning': kind == 'crd_error' or r.random() < 0.2,
                  'handler_duration': r.choice([0, 0, 2, 4]), 'objects': r.choice([0, 1, 2, 3]),
                  'trigger': {'kind': kind, 'at': r.randrange(0, 160) / 8.0}}
            if kind in ('stream_error', 'worker_raise'):
                sc['trigger']['then'] = r.choice(['stop', 'cancel'])
                sc['trigger']['at'] = max(sc['trigger']['at'], 9.0)
                sc['startup'] = r.choice(['none', 'ok', 'two', 'all-retried-ok'])
            if kind == 'crd_error':
                sc['trigger']['at'] = max(sc['trigger']['at'], 9.0)
                sc['startup'] = r.choice(['none', 'ok', 'two', 'all-retried-ok'])
            if kind in ('stop', 'cancel') and sc['objects'] >= 1 and sc['trigger']['at'] >= 6 and r.random() < 0.25:
                sc['trigger']['delete_before'] = r.choice([0.25, 0.5, 0.75])
                sc['daemons'] = r.choice(['slowstop', 'slowstop+obeys', 'cancellable', 'obeys', 'obeys+cancellable'])
            if sc['peering'] and r.random() < 0.7:
                sc['peering_latency'] = r.choice([0.5, 1, 2, 3])
                if kind in ('stop', 'cancel', 'crd_error') and r.random() < 0.6:
                    sc['trigger'].pop('at', None)
                    sc['trigger'].update({'peering_patch': r.choice([1, 1, 1, 2]), 'offset': r.randrange(0, 33) / 8.0})
                    if kind == 'crd_error':
                        sc['scanning'] = True
                    sc['startup'] = r.choice(['none', 'ok', 'two', 'all-retried-ok'])
            if kind == 'stop' and r.random() < 0.3:
                sc['trigger']['via'] = 'signal'
                if sc['trigger'].get('at') == 0:
                    sc['trigger']['settled'] = True
            if kind in ('stop', 'cancel') and r.random() < 0.3 and sc['trigger'].get('at', 0) >= 1:
                sc['trigger']['inflight'] = True
            scs.append(sc)
    return scs


def check_scenario(ctx: fw.Ctx, sc: dict, cases: list[fw.Case], label: str = '') -> Result:
    res = run_scenario(sc)
    tr = translate(res)
    monitors(ctx, res, tr)
    data = {'scenario': describe(sc), 'labels': tr.labels, 'result': tr.result}
    if res.error:
        return res
    for p in tr.problems:
        ctx.correspondence_break('T:lifecycle', {'scenario': describe(sc), 'problem': p})
    lbls = cq.clist(tr.labels)
    if not any(i['kind'] == 'root' for i in tr.tasks.values()):
        ctx.count('observed', 'operator-cancelled-before-its-first-step')     # spawn_tasks never ran: nothing to replay
        return res
    if tr.result is not None:
        term = f'returned_with {lbls} {tr.result}'
    else:
        term = f'still_waiting {lbls}'
    cases.append(fw.Case(term, data, diag=f'rejected_at init {lbls} 0'))
    # the notion "internal step" (what the progress / termination theorems are about) against what the operator really did:
    #  - every label that is not the environment's or user code's doing must be an internal candidate where it happens;
    #  - where the real operator was seen doing nothing by itself for 40 virtual seconds, the model state is quiescent;
    #  - after the (single) stop trigger the model, driven by internal steps alone, reaches Return as the operator did.
    extra = ctx.__dict__.setdefault('c20_extra', {'internal': [], 'quiescent': [], 'driven': []})
    extra['internal'].append(fw.Case(f'internal_ok init {lbls}', data))
    if res.lingered is not None and res.trigger_order is not None:
        prefix = [l for l, o in zip(tr.labels, tr.origin) if o < res.trigger_order]
        # (with peering the lingering operator is not idle: the surviving keep-alive keeps producing peering events and
        #  short-lived workers; there only "the shutdown has not begun" is compared)
        pl = cq.clist(prefix)
        term = f'not_begun_after {pl}' if sc.get('peering') else f'quiescent_after {pl} && not_begun_after {pl}'
        extra['quiescent'].append(fw.Case(term, {'scenario': describe(sc), 'labels': prefix}))
        ctx.count('internal_tie', 'not-begun-where-the-operator-lingered(peering)' if sc.get('peering')
                  else 'quiescent-where-the-operator-lingered')
    trig_labels = [i for i, l in enumerate(tr.labels) if l in ('StopFlag', 'Cancel', 'Signal')]
    if tr.result is not None and len(trig_labels) == 1 and res.lingered is None and not sc['trigger'].get('second'):
        prefix = tr.labels[:trig_labels[0] + 1]
        extra['driven'].append(fw.Case(f'driven_within_mu {cq.clist(prefix)}', {'scenario': describe(sc), 'labels': prefix}))
        ctx.count('internal_tie', 'driven-to-return-after-' + tr.labels[trig_labels[0]])
    ctx.cov['traces_validated_against_impl'] += 1
    ctx.count('labels', 'total', len(tr.labels))
    for l in tr.labels:
        ctx.count('label_kind', l.split(' ')[0])
    ctx.count('trigger', sc['trigger']['kind'])
    for note in res.notes:
        ctx.count('peering_trigger', note)
    if sc.get('peering_latency'):
        ctx.count('peering_latency', str(sc['peering_latency']))
    ctx.count('startup', sc['startup'])
    ctx.count('daemons', sc['daemons'])
    nfailed = len([e for e in res.events if e['ev'] == 'done' and e['out'] == 'err' and e['task'] is not res.main
                   and (tr.tasks.get(id(e['task'])) or {}).get('kind') == 'root'])
    # aiotasks.reraise iterates a SET of tasks: with two failed roots, which error is raised depends on object addresses
    ctx.count('returned', str(tr.result) if nfailed <= 1 else 'RErr (one of several failed root tasks: set iteration order)')
    got_past = any(e['ev'] == 'ready' for e in res.events)
    busy = got_past and (DAEMON_SETS[sc['daemons']] or sc['trigger'].get('inflight') or sc.get('peering'))
    if busy or res.injected:
        ctx.nontriv(describe(sc))
    ctx.sample({'scenario': describe(sc), 'labels': len(tr.labels), 'returned': tr.result,
                'virtual_seconds_trigger_to_return': None if res.trigger_t is None else round(res.now - 0.5 - res.trigger_t, 3)})
    return res


def run(ctx: fw.Ctx) -> int:
    ctx.matchers = {'F10': match_f10, 'F2001': match_f2001}
    ctx.proofs()
    ok, logtxt = fw.build_models(['Model/Lifecycle.v'])
    if not ok:
        ctx.correspondence_break('model build', logtxt[-1500:])
        return ctx.finish(RULE)
    ctx.differential('structure', HEADER, structure_cases(), shard=10)
    cases: list[fw.Case] = []
    corpus = sorted((fw.ROOT / 'corpus' / 'C20').glob('*.json'))
    for p in corpus:
        sc = json.loads(p.read_text())['scenario']
        check_scenario(ctx, sc, cases)
        ctx.count('source', 'corpus')
    for sc in grid(ctx):
        check_scenario(ctx, sc, cases)
        ctx.count('source', 'grid')
    ctx.differential('lifecycle_trace', HEADER, cases, shard=40)
    extra = ctx.__dict__.get('c20_extra', {})
    ctx.differential('internal_notion', HEADER, extra.get('internal', []), shard=40)
    ctx.differential('quiescent_where_lingering', HEADER, extra.get('quiescent', []), shard=40)
    ctx.differential('driven_to_return', HEADER, extra.get('driven', []), shard=40)
    return ctx.finish(RULE, level_note=[
        'T-tie: label traces recorded from real kopf.operator() runs (asyncio task factory, request hook, wrappers of '
        'activities.run_activity / ready flag) are replayed by the Gallina acceptor Model/Lifecycle.v; S-like tie: the table '
        '(root task, started_flag guard) is read from the source of spawn_tasks with ast and compared with all_roots/guarded',
        'hypothesis of the bounded-exit clauses: handlers and daemons are cancellable (aiotasks.stop has no timeout; a daemon '
        'swallowing cancellation forever blocks the exit by design, docs/daemons.rst); sync handlers in threads, OS signals and '
        'ultimate_termination are outside the model'])


def replay(ctx: fw.Ctx, body: dict) -> bool:
    sc = (body.get('case') or {})
    if 'trigger' not in sc:
        return False
    ctx.matchers = {'F10': match_f10, 'F2001': match_f2001}     # what is left counts: failures no open finding explains
    res = run_scenario(sc)
    tr = translate(res)
    monitors(ctx, res, tr)
    return bool(ctx.failures)
