"""C13 — peering: lower-priority operators pause, exactly the top one is active."""
from __future__ import annotations

import asyncio
import datetime as dt
import itertools
import json
import random as _random
from typing import Any

from kv import clock, coqio as cq, framework as fw, vloop
from kv import peernet as pn

RULE = ('cases = (a) process_peering_event on generated status maps (0-4 records x priorities around own x deadlines '
        'before/at/after now x missing/malformed fields x toggle state x PATCH latency x sleep interruption), (b) keepalive '
        'for every lifetime 0..120 x jitter 5..10, (c) networks of 2-3 operators (real keepalive + watcher + '
        'process_peering_event + toggles + streaming_block) sharing one peering object through a stubbed API with '
        'start/exit/kill/foreign-record actions and delivery delays; non-trivial iff >= 2 operators overlap in time '
        '(networks) resp. >= 1 live foreign record (status maps); distinct after canonicalisation')

HEADER = fw.STD_HEADER + 'From KV Require Import Model.Peering.\n'
NET_HEADER = fw.STD_HEADER + 'From KV Require Import Model.Peering Model.PeerNet.\n'

MS = 1000


def ms(t: float) -> int:
    v = round(t * MS)
    assert abs(v - t * MS) < 1e-6, t
    return v


# ------------------------------------------------------------------------------------------
# encoders
# ------------------------------------------------------------------------------------------

def c_oZ(x: int | None) -> str:
    return cq.copt(cq.cZ(x) if x is not None else None)


def c_obool(x: bool | None) -> str:
    return cq.copt(cq.cbool(x) if x is not None else None)


def c_tab(tab: dict[str, int | None]) -> str:
    return '(tab_fn ' + cq.clist(cq.cpair(cq.cstr(k), c_oZ(v)) for k, v in tab.items()) + ')'


def c_cfg(cfg: dict) -> str:
    return (f"(mkCfg {cq.cstr(cfg['id'])} {cq.cZ(cfg['prio'])} {cq.cZ(cfg['life'])} {cq.cstr(cfg['name'])} "
            f"{cq.cbool(cfg['autoclean'])})")


def c_rec(r: Any) -> str:
    return cq.copt(f'({cq.cZ(r[0])}, {cq.cZ(r[1])}, {cq.cZ(r[2])})' if r is not None else None)


def c_obs(o: list) -> str:
    if o[0] == 'clean':
        return f'(ObsClean {cq.clist(cq.cstr(i) for i in o[1])})'
    if o[0] == 'turn':
        return f'(ObsTurn {cq.cbool(o[1])})'
    return f'(ObsTouch {cq.cZ(o[1])} {c_rec(o[2])})'


EXN = {'TypeError': 'TypeError', 'ValueError': 'ValueError', 'ParseError': 'ValueError', 'OverflowError': 'OverflowError',
       'AttributeError': 'AttributeError', 'APIServerError': 'ApiError'}


# ------------------------------------------------------------------------------------------
# generator of status maps
# ------------------------------------------------------------------------------------------

IDS = ['a', 'b', 'c', 'kopf@host/20300101000000/x1', 'dev@laptop']


def gen_lastseen(r: _random.Random, seen_ms: int) -> str:
    d = clock.EPOCH + dt.timedelta(milliseconds=seen_ms)
    k = r.randrange(6)
    if k == 0:
        return d.isoformat(timespec='microseconds')
    if k == 1:
        return d.isoformat()                                   # kopf's own as_dict() format
    if k == 2:
        return d.replace(tzinfo=None).isoformat(timespec='milliseconds') + 'Z'
    if k == 3:
        return d.replace(tzinfo=None).isoformat(timespec='milliseconds')   # naive: UTC assumed by iso8601
    if k == 4:
        tz = dt.timezone(dt.timedelta(hours=r.choice([2, -5, 5]), minutes=r.choice([0, 30])))
        return d.astimezone(tz).isoformat(timespec='milliseconds')
    return d.isoformat(timespec='milliseconds')


def gen_record(r: _random.Random, own_prio: int, now_ms: int, malformed: bool) -> Any:
    """One peering record; mostly well-formed, deadline placed before/at/after now."""
    rec: dict[str, Any] = {}
    if r.random() < 0.85:
        rec['priority'] = own_prio + r.choice([-1, -1, 0, 1, 1, 100, -100])
    life: Any = 60
    if r.random() < 0.85:
        life = r.choice([0, 1, 2, 10, 60, 60, 300, -5])
        rec['lifetime'] = life
    if r.random() < 0.9:
        # deadline - now in ms: dead long ago, just dead, exactly now, just alive, alive
        delta = r.choice([-600_000, -125, 0, 125, 250, 1000, 30_000, 59_875, 120_000])
        rec['lastseen'] = gen_lastseen(r, now_ms + delta - int(life) * 1000)
    elif r.random() < 0.3:
        rec['lastseen'] = None
    if r.random() < 0.3:
        rec[r.choice(['namespace', 'foo', '_', 'a b', 'version'])] = r.choice([None, 'x', 1, {'k': [1, 2]}, []])
    if malformed:
        k = r.randrange(12)
        if k == 0:
            rec['priority'] = r.choice([None, 'high', '7', [1], {'p': 1}])
        elif k == 1:
            rec['priority'] = r.choice([True, False])
        elif k == 2:
            rec['lifetime'] = r.choice(['30', ' 3_0 ', '0', '-1'])
        elif k == 3:
            rec['lifetime'] = r.choice(['abc', '', '1.5'])
        elif k == 4:
            rec['lifetime'] = r.choice([None, [], {}])
        elif k == 5:
            rec['lifetime'] = r.choice([True, False])
        elif k == 6:
            rec['lifetime'] = r.choice([10 ** 15, -10 ** 15, 86400 * 10 ** 9, 86399999999999, -86399999913600,
                                        -86399999913601, 252288000000, -66225600000, 2 ** 70])
        elif k == 7:
            rec['lastseen'] = r.choice(['abc', '', 'yesterday', '2030-13-45T00:00:00'])
        elif k == 8:
            rec['lastseen'] = r.choice([123, True, [], {}])
        elif k == 9:
            rec[r.choice(['self', 'identity'])] = 'x'
        elif k == 10:
            return r.choice([None, 'str', 5, [], True])
        else:
            rec.pop('lastseen', None)       # missing lastseen: immortal unless lifetime <= 0
    return rec


def gen_status(r: _random.Random, cfg: dict, now_ms: int) -> tuple[Any, bool]:
    n = r.choice([0, 1, 1, 2, 2, 3, 4])
    mal_case = r.random() < 0.25
    ids = r.sample(IDS + [cfg['id']], min(n, len(IDS) + 1))
    status: dict[str, Any] = {}
    for i in ids:
        status[i] = gen_record(r, cfg['prio'], now_ms, mal_case and r.random() < 0.6)
    return status, mal_case


def oracle_tables(status: Any) -> tuple[dict, dict]:
    """int(str) and iso8601.parse_date(str) for every string in lifetime / lastseen position."""
    import iso8601
    oint: dict[str, int | None] = {}
    odate: dict[str, int | None] = {}
    if isinstance(status, dict):
        for info in status.values():
            if not isinstance(info, dict):
                continue
            for lf in (info.get('lifetime'), info.get('priority')):
                if isinstance(lf, str):
                    try:
                        oint[lf] = int(lf)
                    except ValueError:
                        oint[lf] = None
            ls = info.get('lastseen')
            if isinstance(ls, str):
                try:
                    d = iso8601.parse_date(ls)
                    us = (d - clock.EPOCH) // dt.timedelta(microseconds=1)
                    if us % 1000:
                        raise cq.Unencodable('sub-millisecond lastseen')
                    odate[ls] = us // 1000
                except iso8601.ParseError:
                    odate[ls] = None
    return oint, odate


# ------------------------------------------------------------------------------------------
# the harness's own reading of the property on one status map (never the model, never kopf's code)
# ------------------------------------------------------------------------------------------

def wellformed(info: Any) -> bool:
    """Records inside the property's quantifier: unknown fields, missing lifetime/priority/lastseen, dead records."""
    if not isinstance(info, dict) or 'self' in info or 'identity' in info:
        return False
    if 'priority' in info and (isinstance(info['priority'], bool) or not isinstance(info['priority'], int)):
        return False
    if 'lifetime' in info and (isinstance(info['lifetime'], bool) or not isinstance(info['lifetime'], int)
                               or abs(info['lifetime']) > 10 ** 9):
        return False
    if info.get('lastseen') is not None:
        import iso8601
        try:
            iso8601.parse_date(info['lastseen'])
        except Exception:
            return False
    return True


def spec_view(cfg: dict, status: dict, now_ms: int) -> dict:
    """Who is dead / who blocks, straight from the property text."""
    import iso8601
    dead, blockers = [], {}
    for ident, info in status.items():
        prio = info.get('priority', 0)
        life = info.get('lifetime', 60)
        seen = info.get('lastseen')
        seen_ms = now_ms if seen is None else (iso8601.parse_date(seen) - clock.EPOCH) // dt.timedelta(milliseconds=1)
        deadline = seen_ms + life * 1000
        if deadline <= now_ms:
            dead.append(ident)
        elif ident != cfg['id'] and prio >= cfg['prio']:
            blockers[ident] = deadline
    return {'dead': dead, 'blockers': blockers}


# ------------------------------------------------------------------------------------------
# driving the real process_peering_event
# ------------------------------------------------------------------------------------------

def drive_event(case: dict) -> dict:
    """Run the real coroutine under virtual time with a recording stub for patching.patch_obj."""
    from kopf._cogs.aiokits import aiotoggles
    from kopf._cogs.clients import errors
    from kopf._core.engines import peering
    cfg = case['cfg']
    t0 = case['now0'] / MS
    loop = vloop.new_loop(start=t0)
    obs: list[list] = []
    calls = {'n': 0}

    async def patch_obj(*, settings: Any, resource: Any, namespace: Any, name: str, patch: Any, logger: Any,
                        silent: bool = False) -> tuple[Any, Any]:
        idx = calls['n']
        calls['n'] += 1
        st = dict(patch).get('status', {})
        now = ms(loop.time())
        if set(dict(patch)) != {'status'} or name != cfg['name']:
            obs.append(['odd-patch', dict(patch), name])
        elif pn.CALLSITE.get() == 'touch' and list(st) == [cfg['id']]:
            obs.append(['touch', now, pn.rec_of(st[cfg['id']])])
        elif pn.CALLSITE.get() != 'clean' or any(v is not None for v in st.values()):
            obs.append(['odd-patch', dict(patch), name])
        else:
            obs.append(['clean', list(st)])
            if case['lat']:
                await asyncio.sleep(case['lat'] / MS)
        if case['fail'] == idx:
            raise errors.APIServerError('injected', status=500, headers={})
        return {}, None

    with pn.stubbed_patch_obj(patch_obj), vloop.running(loop):
        toggle = None
        if case['toggle0'] is not None:
            toggle = aiotoggles.Toggle(case['toggle0'])
            orig_turn = toggle.turn_to

            async def turn_to(state: bool) -> None:
                obs.append(['turn', bool(state)])
                await orig_turn(state)
            toggle.turn_to = turn_to  # type: ignore[method-assign]
        pressure = None
        if case['interrupt'] != 'none':
            pressure = asyncio.Event()
            if case['interrupt'] == 'preset':
                pressure.set()
            else:
                loop.call_at(case['interrupt'] / MS, pressure.set)
        settings = pn.make_settings(cfg)
        meta = {} if case['name'] is None else {'name': case['name']}
        body: dict[str, Any] = {'metadata': meta}
        if case['status'] != '(absent)':
            body['status'] = case['status']
        coro = peering.process_peering_event(
            raw_event={'type': 'MODIFIED', 'object': body}, namespace=None, resource=pn.RESOURCE,
            identity=peering.Identity(cfg['id']), settings=settings, autoclean=cfg['autoclean'],
            stream_pressure=pressure, conflicts_found=toggle)
        task = loop.spawn(coro)
        loop.run_until(task.done, t0 + 10_000)
        exn = None
        if not task.done():
            exn = 'not-finished'
        elif task.exception() is not None:
            exn = type(task.exception()).__name__
        res = {'obs': obs, 'exn': exn, 'toggle': None if toggle is None else toggle.is_on(), 'end': ms(loop.time())}
    vloop.close_loop(loop)
    return res


def event_cases(ctx: fw.Ctx, n: int) -> list[fw.Case]:
    r = ctx.rng
    out: list[fw.Case] = []
    corpus = pn.load_corpus('event')
    for i in range(n):
        if i < len(corpus):
            case = corpus[i]
        else:
            cfg = {'id': r.choice(['me', 'me', 'kopf@pod-1', 'a']), 'prio': r.choice([0, 0, 1, 100, -3]),
                   'life': r.choice([60, 60, 10, 1, 0, 86400, 90000, 172860]), 'name': r.choice(['default', 'default', 'other']),
                   'autoclean': r.random() < 0.85}
            now0 = 1000 * r.randrange(1, 5000) + 125 * r.randrange(8)
            status, mal = gen_status(r, cfg, now0)
            k = r.random()
            if k < 0.04:
                status = r.choice(['(absent)', None, [], 'x', 5])
            name = cfg['name'] if r.random() < 0.92 else r.choice([None, 'another'])
            lat = r.choice([0, 0, 0, 125, 250, 1000])
            ir = r.random()
            interrupt: Any = 'none' if ir < 0.5 else 'preset' if ir < 0.65 else now0 + 125 * r.randrange(1, 80)
            fail = r.choice([None] * 12 + [0, 1])
            case = {'cfg': cfg, 'now0': now0, 'status': status, 'name': name, 'lat': lat, 'interrupt': interrupt,
                    'fail': fail, 'toggle0': r.choice([None, False, False, True, True]), 'malformed': mal}
        status = case['status']
        try:
            oint, odate = oracle_tables(status)
        except cq.Unencodable:
            continue
        res = drive_event(case)
        cfg = case['cfg']
        # ---- the model side
        exn = res['exn']
        if exn is not None and exn not in EXN:
            ctx.correspondence_break('D:event', {'case': case, 'unexpected exception': exn})
            continue
        # the instant of an interruption coinciding with the wake-up is scheduling-dependent: skip those
        wake_times = [o[1] for o in res['obs'] if o[0] == 'touch']
        c_int = 'None' if case['interrupt'] == 'none' else c_oZ(case['now0'] if case['interrupt'] == 'preset' else case['interrupt'])
        c_status = 'None' if status == '(absent)' else cq.copt(cq.cjson(status))
        args = (f"{c_tab(oint)} {c_tab(odate)} {c_cfg(cfg)} {c_obool(case['toggle0'])} "
                f"{cq.copt(cq.cstr(case['name']) if case['name'] is not None else None)} {c_status} "
                f"{cq.cZ(case['now0'])} {cq.cZ(case['lat'])} {c_int} {cq.copt(cq.cnat(case['fail']) if case['fail'] is not None else None)}")
        expected = f"({cq.clist(c_obs(o) for o in res['obs'])}, {cq.copt(EXN[exn] if exn else None)})"
        if any(o[0] == 'odd-patch' for o in res['obs']):
            ctx.correspondence_break('D:event', {'case': case, 'observed': res})
            continue
        out.append(fw.Case(f'run_eqb (run_event {args}) {expected}', {'case': case, 'observed': res},
                           diag=f'run_event {args}'))
        # ---- statistics
        ctx.count('event_outcome', exn or 'ok')
        ctx.count('event_records', str(len(status)) if isinstance(status, dict) else 'not-a-dict')
        for o in res['obs']:
            ctx.count('event_effect', o[0] if o[0] != 'turn' else f'turn-{o[1]}')
        ctx.count('event_interrupt', case['interrupt'] if isinstance(case['interrupt'], str) else 'timed')
        # ---- the monitor: the property text evaluated on what the implementation did
        monitor_event(ctx, case, res)
    return out


def monitor_event(ctx: fw.Ctx, case: dict, res: dict) -> None:
    cfg, status = case['cfg'], case['status']
    if case['name'] != cfg['name'] or not isinstance(status, dict) or case['fail'] is not None:
        return
    if not all(wellformed(v) for v in status.values()):
        return
    data = {k: case[k] for k in ('cfg', 'now0', 'status', 'toggle0', 'lat', 'interrupt')}
    if res['exn'] is not None:
        ctx.fail('process_peering_event raised on a well-formed status map', data, observed=res['exn'], sig='event-raised')
        return
    view = spec_view(cfg, status, case['now0'])
    if view['blockers']:
        ctx.nontriv(['event', cfg, status, case['now0']])
    ctx.sample({'kind': 'event', 'cfg': cfg, 'status': status, 'now_ms': case['now0'], 'observed': res['obs']})
    ctx.count('event_spec', 'blocked' if view['blockers'] else 'free')
    # paused iff a live peer of higher or equal priority exists
    if case['toggle0'] is not None and res['toggle'] != bool(view['blockers']):
        ctx.fail('pause toggle does not reflect the presence of a live peer of higher/equal priority', data,
                 observed={'paused': res['toggle']}, expected={'paused': bool(view['blockers']), 'blockers': view['blockers']},
                 sig='toggle-wrong')
    # expired records are cleaned up
    cleaned = [i for o in res['obs'] if o[0] == 'clean' for i in o[1]]
    if cfg['autoclean'] and sorted(cleaned) != sorted(view['dead']):
        ctx.fail('expired records are not (exactly) the ones cleaned up', data, observed=cleaned, expected=view['dead'],
                 sig='clean-wrong')
    # resumes once every blocker expired: an uninterrupted operator re-evaluates at the earliest blocker deadline
    touches = [o for o in res['obs'] if o[0] == 'touch']
    if view['blockers'] and case['interrupt'] == 'none':
        now1 = case['now0'] + (case['lat'] if cleaned else 0)
        due = max(now1, min(view['blockers'].values()))
        if [t[1] for t in touches] != [due]:
            ctx.fail('no self-touch (forced re-evaluation) at the earliest blocker deadline', data,
                     observed=[t[1] for t in touches], expected=[due], sig='wake-wrong')
    for t in touches:
        if cfg['life'] > 0 and (t[2] is None or t[2][1] != cfg['life'] or t[2][0] != cfg['prio'] or t[2][2] != t[1]):
            ctx.fail('the record an operator writes for itself does not carry its configured priority / lifetime / instant', data,
                     observed=t, expected=[cfg['prio'], cfg['life'], t[1]], sig='touch-record-wrong')
    if not view['blockers'] and touches:
        ctx.fail('self-touch without any blocker', data, observed=touches, sig='wake-spurious')


# ------------------------------------------------------------------------------------------
# keepalive: every lifetime 0..120 x every jitter 5..10
# ------------------------------------------------------------------------------------------

def drive_keepalive(life: int, jitter: int, prio: int = 7) -> dict:
    from kopf._core.engines import peering
    cfg = {'id': 'me', 'prio': prio, 'life': life, 'name': 'default', 'autoclean': True}
    loop = vloop.new_loop(start=100.0)
    touches: list[tuple[int, Any]] = []
    draws: list[tuple[int, int]] = []

    async def patch_obj(*, settings: Any, resource: Any, namespace: Any, name: str, patch: Any, logger: Any,
                        silent: bool = False) -> tuple[Any, Any]:
        st = dict(patch).get('status', {})
        touches.append((ms(loop.time()), pn.rec_of(st[cfg['id']]) if list(st) == [cfg['id']] else ['odd', dict(patch)]))
        return {}, None

    def randint(a: int, b: int) -> int:
        draws.append((a, b))
        return jitter

    with pn.stubbed_patch_obj(patch_obj), pn.patched_randint(randint), vloop.running(loop):
        task = loop.spawn(peering.keepalive(namespace=None, resource=pn.RESOURCE, identity=peering.Identity('me'),
                                            settings=pn.make_settings(cfg)))
        loop.run_until(lambda: len(touches) >= 3 or task.done(), 100.0 + 1000 + 3 * max(life, 0))
        n_before = len(touches)
        died = task.done()
        task.cancel()
        loop.settle()
        final = touches[n_before:]
    vloop.close_loop(loop)
    return {'touches': touches[:n_before], 'final': final, 'draws': draws, 'died': died}


def keepalive_cases(ctx: fw.Ctx) -> list[fw.Case]:
    out: list[fw.Case] = []
    # every lifetime 0..120, and lifetimes of a day and more (timedelta splits them into days + seconds)
    for life, jitter in itertools.product(list(range(0, 121)) + [86399, 86400, 90000, 172800, 172860], range(5, 11)):
        res = drive_keepalive(life, jitter)
        data = {'lifetime': life, 'jitter': jitter, 'observed': res}
        ts = [t for t, _ in res['touches']]
        if res['died'] or len(ts) < 3 or any(d != (5, 10) for d in res['draws']):
            ctx.correspondence_break('D:keepalive', data)
            continue
        periods = {ts[1] - ts[0], ts[2] - ts[1]}
        period = ts[1] - ts[0]
        cfg = c_cfg({'id': 'me', 'prio': 7, 'life': life, 'name': 'default', 'autoclean': True})
        recs_ok = ' && '.join(f'rec_eqb (touch_record {cfg} None {cq.cZ(t)}) {c_rec(rc)}' for t, rc in res['touches'])
        fin = res['final']
        fin_ok = (f'rec_eqb (touch_record {cfg} (Some 0) {cq.cZ(fin[0][0])}) {c_rec(fin[0][1])}' if len(fin) == 1 and
                  (fin[0][1] is None or len(fin[0][1]) == 3) else 'false')
        out.append(fw.Case(f'(ka_period {cq.cZ(life)} {cq.cZ(jitter)} * 1000 =? {cq.cZ(period)}) && {recs_ok} && {fin_ok}',
                           data, diag=f'ka_period {cq.cZ(life)} {cq.cZ(jitter)}'))
        ctx.count('keepalive_lifetime', '>= 1 day' if life >= 86400 else '< 1 day')
        ctx.count('keepalive_period_vs_lifetime', 'shorter' if period < life * MS else 'equal' if period == life * MS else 'longer')
        # ---- monitors (property text): renewed before expiry; removed on exit
        if len(periods) != 1:
            ctx.fail('keep-alive period is not constant for a fixed jitter', data, sig='ka-irregular')
        if life >= 2 and not period < life * MS:
            ctx.fail('a running operator does not renew its record before it expires', {'lifetime': life, 'jitter': jitter},
                     observed={'period_ms': period}, expected='< lifetime', sig='ka-late')
        if life >= 11 and not period <= (life - 5) * MS:
            ctx.fail('keep-alive margin is below 5 seconds', {'lifetime': life, 'jitter': jitter},
                     observed={'period_ms': period}, sig='ka-margin')
        if life <= 1:
            ctx.count('O1_boundary', f'lifetime={life}: record {"never written" if life == 0 else "renewed exactly at expiry"}')
        if life >= 1 and any(rc is None or rc[1] != life or rc[0] != 7 or rc[2] != t for t, rc in res['touches']):
            ctx.fail('keep-alive writes a wrong record', data, sig='ka-record')
        if [rc for _, rc in fin] != [None]:
            ctx.fail('record is not removed on graceful exit', {'lifetime': life, 'jitter': jitter}, observed=fin, sig='exit-not-removed')
    return out


# ------------------------------------------------------------------------------------------
# keepalive() against an API with latency / apply-then-fail, cancelled at every await point
# ------------------------------------------------------------------------------------------

KA_HEADER = fw.STD_HEADER + 'From KV Require Import Model.PeerKa.\n'


def drive_keepalive_cancel(case: dict) -> dict:
    """One run of the real keepalive(): PATCHes take `pre` s until the server applies them and `post` s more until
    the answer; `script[n]` makes the n-th PATCH fail before/after being applied; the task is cancelled at the
    virtual instants `cancels` (0 = before its first step)."""
    from kopf._cogs.clients import errors
    from kopf._core.engines import peering
    cfg = {'id': 'me', 'prio': 3, 'life': case['life'], 'name': 'default', 'autoclean': True}
    loop = vloop.new_loop(start=0.0)
    labels: list[str] = []
    server: dict[str, Any] = {'rec': None, 'writes': []}
    calls = {'n': 0}
    wfail = {'v': False}

    async def patch_obj(*, settings: Any, resource: Any, namespace: Any, name: str, patch: Any, logger: Any,
                        silent: bool = False) -> tuple[Any, Any]:
        st = dict(patch).get('status', {})
        if list(st) != ['me'] or name != 'default':
            labels.append('ODD')
            return {}, None
        idx = calls['n']
        calls['n'] += 1
        withdrawal = pn.CALLSITE.get() == 'touch-w'
        labels.append('KCallW' if withdrawal else 'KCall')
        mode = case['script'].get(str(idx), 'ok')
        if case['pre']:
            await asyncio.sleep(case['pre'])
        if mode == 'fail-before':
            labels.append('KFail')
            wfail['v'] = wfail['v'] or withdrawal
            raise errors.APIServerError('injected', status=500, headers={})
        server['rec'] = st['me']
        server['writes'].append((ms(loop.time()), st['me'] is not None))
        labels.append('KApply')
        if case['post']:
            await asyncio.sleep(case['post'])
        if mode == 'fail-after':
            labels.append('KFail')
            wfail['v'] = wfail['v'] or withdrawal
            raise errors.APIServerError('injected', status=500, headers={})
        labels.append('KReturn')
        return {}, None

    with pn.stubbed_patch_obj(patch_obj, withdrawal_site=True), pn.patched_randint(lambda a, b: 5), vloop.running(loop):
        task = loop.spawn(peering.keepalive(namespace=None, resource=pn.RESOURCE, identity=peering.Identity('me'),
                                            settings=pn.make_settings(cfg)))
        task.add_done_callback(lambda t: labels.append('KDone'))
        for tc in case['cancels']:
            if tc > 0:
                loop.run_until(lambda: False, tc)
                loop.advance_to(tc)
                loop.settle()
            if task.done():
                break
            labels.append('KCancel')
            task.cancel()
            loop.settle()
        # let everything in flight (the shielded withdrawal goes on after a second cancellation) finish
        end = loop.time() + case['pre'] + case['post'] + 1
        if not case['cancels']:
            end = case['horizon']
        loop.run_until(lambda: False, end)
        loop.advance_to(end)
        loop.settle()
        alive = not task.done()
        if alive:
            task.cancel()           # not part of the case: just tidy up (not judged, not labelled)
        if task.done() and not task.cancelled():
            task.exception()
    vloop.close_loop(loop)
    return {'labels': labels, 'record_left': server['rec'] is not None, 'withdrawal_failed': wfail['v'],
            'ended': not alive, 'writes': server['writes']}


def keepalive_cancel_cases(ctx: fw.Ctx) -> list[fw.Case]:
    out: list[fw.Case] = []
    corpus = pn.load_corpus('kacancel')
    cases: list[dict] = list(corpus)
    grid = [k * 0.125 for k in range(0, 27)]
    for life in (7, 0, 60):
        for pre, post in ((0.0, 0.0), (0.25, 0.25), (0.0, 0.5), (0.5, 0.0)):
            for script in ({}, {'0': 'fail-after'}, {'0': 'fail-before'}, {'1': 'fail-after'}, {'1': 'fail-before'}):
                for tc in grid:
                    cases.append({'life': life, 'pre': pre, 'post': post, 'script': script, 'cancels': [tc]})
                    if pre + post > 0 and int(tc * 8) % 3 == 0:
                        # a second cancellation while the shielded withdrawal is in flight
                        cases.append({'life': life, 'pre': pre, 'post': post, 'script': script, 'cancels': [tc, tc + 0.125]})
    # failing withdrawals (nothing can be promised then; the trace must still be a behaviour of the model)
    for tc in (0.125, 0.375, 1.0):
        for mode in ('fail-before', 'fail-after'):
            cases.append({'life': 7, 'pre': 0.25, 'post': 0.25, 'script': {'1': mode}, 'cancels': [tc]})   # call #1 IS the withdrawal
    seen: set[str] = set()
    for case in cases:
        res = drive_keepalive_cancel(case)
        labels = res['labels']
        data = {'case': case, 'observed': res}
        if 'ODD' in labels or not res['ended']:
            ctx.correspondence_break('T:kacancel', data)
            continue
        pos = cq.cbool(case['life'] > 0)
        out.append(fw.Case(f"kaccepts {pos} {cq.clist(labels)} {cq.cbool(res['record_left'])}", data,
                           diag=f"(krejected_at {pos} k0 {cq.clist(labels)} 0, krun {pos} k0 {cq.clist(labels)})"))
        where = phase_at_cancel(labels)
        ctx.count('kacancel_cancelled_in', where)
        ctx.count('kacancel_script', json.dumps(case['script'], sort_keys=True))
        key = ' '.join(labels)
        if key not in seen:
            seen.add(key)
            ctx.nontriv(['kacancel', case['life'] > 0, key])
        # ---- the property: ended by cancellation / failure => no record of this identity is left
        if not res['withdrawal_failed'] and res['record_left']:
            ctx.fail('keepalive() has ended but the peering object still holds a record of this identity',
                     case, observed={'labels': labels, 'writes_ms': res['writes']}, expected='record withdrawn (status.<identity> = null)',
                     sig='ka-exit-not-withdrawn')
    return out


def phase_at_cancel(labels: list[str]) -> str:
    """Which await the (first) cancellation hit, read off the labels before it."""
    if 'KCancel' not in labels:
        return 'never'
    before = labels[:labels.index('KCancel')]
    if not before:
        return 'before-first-step'
    last = before[-1]
    n_calls = before.count('KCall')
    which = 'first' if n_calls <= 1 else 'later'
    if last == 'KCall':
        return f'{which}-touch:request-in-flight'
    if last == 'KApply':
        return f'{which}-touch:applied-unanswered'
    if last == 'KReturn':
        return 'sleep'
    return 'withdrawal' if 'KCallW' in before else last


# ------------------------------------------------------------------------------------------
# known findings
# ------------------------------------------------------------------------------------------

def match_f1301(f: dict) -> bool:
    """F1301: a live record removed by clean() from a stale view (the monitor decides staleness narrowly)."""
    if f['sig'] != 'net-live-record-cleaned-stale-view':
        return False
    c = f['case']['clean']
    rec = f['case']['record']
    return (c['seen_version'] < c['current_version'] and rec in c['seen_status'] and rec in c['current_status']
            and c['seen_status'][rec] != c['current_status'][rec])


def match_f1302(f: dict) -> bool:
    """F1302: the wake-up touch of process_peering_event after the lifetime=0 withdrawal."""
    if f['sig'] == 'net-zombie-record-written-after-withdrawal':
        # the consequence, recognised by its cause: the surviving record IS that post-withdrawal touch of the same incarnation
        w = f['case'].get('post_withdrawal_touch')
        rec = (f.get('observed') or {}).get('record')
        return bool(w) and w['from'] == 'process_peering_event' and w['operator'] == f['case']['operator'] \
            and w['patch'].get('status', {}).get(w['operator']) is not None and rec is not None and rec[2] == w['at_ms']
    if f['sig'] != 'net-write-after-exit':
        return False
    w = f['case']['write']
    st = w['patch'].get('status', {})
    return w['from'] == 'process_peering_event' and list(st) == [w['operator']] and st[w['operator']] is not None


MATCHERS: dict[str, Any] = {'F1301': match_f1301, 'F1302': match_f1302}


def run(ctx: fw.Ctx) -> int:
    ctx.matchers = dict(MATCHERS)
    clock.install()
    import logging
    import warnings
    warnings.filterwarnings('ignore', category=RuntimeWarning, message='coroutine .* was never awaited')
    logging.getLogger('kopf').setLevel(logging.CRITICAL + 1)
    logging.getLogger('asyncio').setLevel(logging.CRITICAL + 1)
    ctx.proofs()
    ok, logtxt = fw.build_models(['Model/Peering.v', 'Model/PeerNet.v', 'Model/PeerKa.v'])
    if not ok:
        ctx.correspondence_break('model build', logtxt[-1500:])
        return ctx.finish(RULE)

    ev = event_cases(ctx, ctx.scale(1000, 16000))
    ctx.differential('event', HEADER, ev, shard=150)
    ka = keepalive_cases(ctx)
    ctx.differential('keepalive', HEADER, ka, shard=150)
    ctx.cov['exhaustive'] = {'keepalive': 'lifetime 0..120 and 86399, 86400, 90000, 172800, 172860 x jitter 5..10 = 756 runs of the real keepalive()',
                             'kacancel': 'cancellation on a 125 ms grid 0..3.25 s (every await: before the first step, request in '
                                         'flight, applied-unanswered, sleep, later touch, the shielded withdrawal) x PATCH latency '
                                         '(0/0, .25/.25, 0/.5, .5/0) x apply-then-fail / fail-before-apply of the 1st or 2nd PATCH '
                                         'x lifetime 7/0/60'}
    kc = keepalive_cancel_cases(ctx)
    ctx.differential('kacancel', KA_HEADER, kc, shard=400)

    pn.run_networks(ctx, NET_HEADER, ctx.scale(80, 800))
    pn.run_worlds(ctx, ctx.scale(30, 600))
    return ctx.finish(RULE, level_note=[
        'whole-operator scenarios (kv.sim + kv.fakeapi: real kopf.operator() x 2-3 on one ClusterKopfPeering) are monitor-only',
        "int(str) and iso8601.parse_date are oracles (their values on the strings of each case are supplied to the model)",
        'one wall clock shared by all operators (kv.clock shim follows the virtual loop time); clock skew is outside',
        'the API is a stub of patching.patch_obj + watching.infinite_watch applying RFC 7386 to one shared object',
    ])


def replay(ctx: fw.Ctx, body: dict) -> bool:
    """Re-run the failing input of a replay file against the current tree; True iff the property still fails."""
    import logging
    logging.getLogger('kopf').setLevel(logging.CRITICAL + 1)
    logging.getLogger('asyncio').setLevel(logging.CRITICAL + 1)
    clock.install()
    ctx.matchers = {}
    ctx.findings = []
    case = body.get('case') or {}
    if 'scenario' in case and 'steps' in case['scenario']:
        pn.run_world(ctx, case['scenario'])
    elif 'scenario' in case:
        pn.run_scenario(ctx, case['scenario'])
    elif 'lifetime' in case:
        res = drive_keepalive(case['lifetime'], case['jitter'])
        ts = [t for t, _ in res['touches']]
        period = ts[1] - ts[0] if len(ts) > 1 else None
        if period is None or (case['lifetime'] >= 2 and not period < case['lifetime'] * MS) or [rc for _, rc in res['final']] != [None] \
                or (case['lifetime'] >= 11 and not period <= (case['lifetime'] - 5) * MS):
            ctx.fail('keepalive', case, observed=res)
    elif 'cfg' in case and 'status' in case:
        full = {'name': case['cfg']['name'], 'fail': None, 'malformed': False, **case}
        monitor_event(ctx, full, drive_event(full))
    else:
        print('replay: this file names a broken proof/correspondence only (no failing input)')
        return False
    for f in ctx.failures[:3]:
        print('  still failing:', f['sig'], '-', f['what'])
    return bool(ctx.failures)
