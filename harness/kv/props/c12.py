"""C12 — infrastructure errors are retried, then contained per object, never fatal.

Layers (see DESIGN.md §8 C12):
  proof  : coq/Props/C12.v (models Model/Retry.v, Model/Vault.v, Model/Throttle.v)
  D:request   real api.request(context=...) on a fault-scripted fake aiohttp session under the virtual-time
              loop: attempt timestamps + outcome == Retry.request_obs
  D:call      real @authenticated + Vault + a scripted authenticator: timestamps across re-auth cycles == Retry.call
  D:throttle  real throttlers.throttled driven as an async context manager == Throttle.run_obs
  T:vault     real Vault + @authenticated + api.request with 1..5 concurrent requesters, a server that revokes
              credentials, and the real activities.authenticator with a scripted login handler; the critical
              sections are logged and replayed by Vault.accepts; final-state abstraction compared
  proc        real process_resource_event for two objects with one failing PATCH stream (containment monitor and
              per-object throttler states == Throttle model)
Monitors evaluate the property text on what the implementation did (own arithmetic, not the model).
"""
from __future__ import annotations

import asyncio
import itertools
import json
import logging
import pathlib
import types
from typing import Any, Callable

from kv import coqio as cq, framework as fw, vloop

RULE = ('cases = (fault sequence of length 0..12 over {ok, 4xx, 401, 403/429/5xx (each with and without Retry-After, header and details style), '
        'connection error, timeout, SSL-closed, session-closed, foreign exception} x backoff configuration {(), scalar, '
        'finite tuple/list, endless re-iterable} x enforce_retry_after) for api.request; (error-delay sequence x episodes '
        'of {ok, error, escalating} runs with wake-ups) for throttled; (1..5 requesters x revocation times x login '
        'results {fresh, equal-to-invalid, nothing}) for the vault; non-trivial iff the sequence contains >= 1 retried '
        'fault or a 401 (resp. >= 1 failing run / >= 1 revocation); distinct after canonicalisation')

HEADER = fw.STD_HEADER + 'From KV Require Import Model.Retry Model.Throttle Model.Vault.\n'

CORPUS = pathlib.Path(__file__).resolve().parents[3] / 'corpus' / 'C12'

logger = logging.getLogger('kv.c12')
logger.disabled = True
logger.propagate = False
logging.getLogger('kopf').addHandler(logging.NullHandler())   # kopf's own warnings are expected here; keep stderr clean
logging.getLogger('kopf').propagate = False


# ======================================================================================
# Fake aiohttp-like session (fault scripted)
# ======================================================================================

class FakeResponse:
    def __init__(self, status: int, headers: dict | None = None, payload: Any = None) -> None:
        self.status = status
        self.headers = headers or {}
        self._payload = payload
        self.closed = False

    async def json(self) -> Any:
        return self._payload

    async def text(self) -> str:
        return ''

    def raise_for_status(self) -> None:
        import aiohttp
        if self.status >= 400:
            self.closed = True
            raise aiohttp.ClientResponseError(types.SimpleNamespace(real_url='http://fake'), (), status=self.status,
                                              message='fault', headers=self.headers)

    def close(self) -> None:
        self.closed = True

    async def __aenter__(self) -> 'FakeResponse':
        return self

    async def __aexit__(self, *a: Any) -> None:
        self.close()


class ForeignError(ValueError):
    pass


class Server:
    """What is behind every session of one scenario: a fault script and the request log."""

    def __init__(self, script: list | None = None) -> None:
        self.script = list(script or [])
        self.log: list[dict] = []        # every attempt that reached `session.request`
        self.handler: Callable[[dict], Any] | None = None

    def next_fault(self, rec: dict) -> Any:
        if self.handler is not None:
            return self.handler(rec)
        return self.script.pop(0) if self.script else ('ok',)


class FakeSession:
    def __init__(self, server: Server, cred: Any = None) -> None:
        self.server = server
        self.cred = cred
        self.closed = False
        self.headers: dict[str, str] = {}

    async def request(self, method: str, url: str, json: Any = None, headers: Any = None, timeout: Any = None) -> FakeResponse:
        import aiohttp
        t = asyncio.get_running_loop().time()
        task = asyncio.current_task()
        rec = {'t': t, 'method': method, 'url': url, 'cred': self.cred, 'closed': self.closed,
               'task': task.get_name() if task else None, 'json': json}
        self.server.log.append(rec)
        if self.closed:
            rec['fault'] = ('closed-session',)
            raise RuntimeError('Session is closed')
        f = self.server.next_fault(rec)
        rec['fault'] = f
        kind = f[0]
        if kind == 'ok':
            return FakeResponse(200, {}, f[1] if len(f) > 1 else {})
        if kind == 'status':
            _, code, hdr, det = f
            hs = {} if hdr is None else {'Retry-After': str(hdr)}
            payload = None
            if det is not None:
                payload = {'kind': 'Status', 'code': code, 'message': 'fault', 'details': {'retryAfterSeconds': det}}
            elif code % 2 == 0:
                payload = {'kind': 'Status', 'code': code, 'message': 'fault'}
            return FakeResponse(code, hs, payload)
        if kind == 'conn':
            raise aiohttp.ClientConnectionError('connection dropped')
        if kind == 'timeout':
            raise asyncio.TimeoutError()
        if kind == 'ssl':
            raise aiohttp.ClientOSError(1, '[SSL: APPLICATION_DATA_AFTER_CLOSE_NOTIFY] application data after close notify')
        if kind == 'rtclosed':
            self.closed = True
            raise RuntimeError('Session is closed')
        if kind == 'rtopen':
            raise RuntimeError('something else')
        if kind == 'other':
            raise ForeignError('foreign')
        raise AssertionError(f)

    async def close(self) -> None:
        self.closed = True


class Endless:
    """A re-iterable endless source of backoffs a + b*i (not Sized)."""

    def __init__(self, a: int, b: int) -> None:
        self.a, self.b = a, b

    def __iter__(self) -> Any:
        return (self.a + self.b * i for i in itertools.count())


# ---- encoders to Coq ----

def coz(x: int | None) -> str:
    return 'None' if x is None else f'(Some {cq.cZ(x)})'


def cfault(f: tuple) -> str:
    k = f[0]
    if k == 'ok':
        return 'FOk'
    if k == 'status':
        return f'(FStatus {cq.cZ(f[1])} {coz(f[2])} {coz(f[3])})'
    return {'conn': 'FConn', 'timeout': 'FTimeout', 'ssl': 'FSsl', 'rtclosed': 'FRtClosed', 'rtopen': 'FRtOpen',
            'other': 'FOther'}[k]


def csrc(b: Any) -> str:
    """The configuration value as written by the operator -> Retry.src_of (BScalar | BList | BEndless)."""
    if b['kind'] == 'endless':
        return f"(src_of (BEndless (fun i => {cq.cZ(b['a'])} + {cq.cZ(b['b'])} * Z.of_nat i)))"
    if b['kind'] == 'scalar':
        return f"(src_of (BScalar {cq.cZ(b['v'])}))"
    return f"(src_of (BList {cq.clist(cq.cZ(x) for x in b['v'])}))"


def backoffs_value(b: Any) -> Any:
    if b['kind'] == 'endless':
        return Endless(b['a'], b['b'])
    if b['kind'] == 'scalar':
        return b['v']
    return tuple(b['v']) if b['kind'] == 'tuple' else list(b['v'])


def backoffs_list(b: Any, n: int) -> list[int | None]:
    """The harness's own reading of `the configured backoff list`, first n entries (None = no more retries)."""
    if b['kind'] == 'endless':
        return [b['a'] + b['b'] * i for i in range(n)]
    vs = [b['v']] if b['kind'] == 'scalar' else list(b['v'])
    return [vs[i] if i < len(vs) else None for i in range(n)]


def coutcome(kind: str, f: tuple | None) -> str:
    if kind == 'done':
        return 'ODone'
    return f"({'OReauth' if kind == 'reauth' else 'OEscalate'} {cfault(f)})"


# ---- generators ----

STATUSES_PLAIN = [400, 404, 409, 410, 422, 451, 499]
STATUSES_5XX = [500, 502, 503, 504, 599]


def gen_ra(r: Any) -> tuple:
    """(Retry-After header, details.retryAfterSeconds): both styles, alone and together, incl. 0."""
    k = r.randrange(6)
    if k < 2:
        return (None, None)
    if k < 4:
        return (r.choice([0, 1, 2, 3, 5, 7, 8, 13, 30, 40]), None)
    if k == 4:
        return (None, r.choice([0, 1, 4, 6, 9, 11]))
    return (r.choice([1, 2, 7, 30]), r.choice([0, 4, 9]))


def gen_fault(r: Any, _unused: bool = False) -> tuple:
    k = r.randrange(20)
    if k < 2:
        return ('ok',)
    if k < 6:
        return ('status', r.choice(STATUSES_5XX), *gen_ra(r))
    if k < 8:
        return ('status', 403, *gen_ra(r))
    if k < 12:
        return ('status', 429, *gen_ra(r))
    if k < 14:
        return ('conn',)
    if k < 16:
        return ('timeout',)
    if k == 16:
        return ('status', r.choice(STATUSES_PLAIN + [600, 700]), None, None)
    if k == 17:
        return ('status', 401, None, None)
    if k == 18:
        return (r.choice(['ssl', 'rtclosed']),)
    return r.choice([('rtopen',), ('other',), ('status', r.choice([200, 201, 204, 304, 399]), None, None)])


def gen_backoffs(r: Any) -> dict:
    k = r.randrange(10)
    if k == 0:
        return {'kind': 'tuple', 'v': []}
    if k == 1:
        return {'kind': 'scalar', 'v': r.choice([0, 1, 2, 5])}
    if k == 2:
        return {'kind': 'endless', 'a': r.choice([0, 1, 2]), 'b': r.choice([0, 1, 3])}
    n = r.choice([1, 2, 3, 3, 4, 6, 8, 12])
    return {'kind': r.choice(['tuple', 'list']), 'v': [r.choice([0, 1, 1, 2, 3, 5, 8, 13, 21]) for _ in range(n)]}


def is_transient(f: tuple) -> bool:
    """The property's own list: network errors, 5xx, 403, 429."""
    if f[0] in ('conn', 'timeout'):
        return True
    return f[0] == 'status' and (500 <= f[1] <= 599 or f[1] in (403, 429))


def requested_retry_after(f: tuple) -> int | None:
    """Server-requested delay: the Retry-After header, else the Status body's details.retryAfterSeconds."""
    if f[0] != 'status':
        return None
    if f[2] is not None:
        return f[2]
    return f[3] if f[3] else None


# ---- running the real api.request ----

def make_settings(backoffs: Any, enforce: bool) -> Any:
    from kopf._cogs.configs import configuration
    settings = configuration.OperatorSettings()
    settings.networking.error_backoffs = backoffs
    settings.networking.enforce_retry_after = enforce
    return settings


def classify_exc(e: BaseException | None) -> str:
    from kopf._cogs.clients import errors
    if e is None:
        return 'done'
    if isinstance(e, (errors.APIUnauthorizedError, errors.APISessionClosed)):
        return 'reauth'
    return 'escalate'


def exc_matches_fault(e: BaseException, f: tuple) -> bool:
    """Does the escalated exception describe the fault that the fake produced on the last attempt?"""
    import aiohttp
    from kopf._cogs.clients import errors
    k = f[0]
    if k == 'status':
        return isinstance(e, errors.APIError) and e.status == f[1]
    if k == 'conn':
        return isinstance(e, aiohttp.ClientConnectionError)
    if k == 'timeout':
        return isinstance(e, asyncio.TimeoutError)
    if k in ('ssl', 'rtclosed'):
        return isinstance(e, errors.APISessionClosed)
    if k == 'rtopen':
        return isinstance(e, RuntimeError)
    if k == 'other':
        return isinstance(e, ForeignError)
    return False


def run_request(script: list, b: dict, enforce: bool, start: int = 0) -> dict:
    """One real `api.request(..., context=ctx)` call under virtual time."""
    from kopf._cogs.clients import api, auth
    from kopf._cogs.structs import credentials
    loop = vloop.new_loop()
    server = Server(script)
    sess = FakeSession(server, cred='c0')
    settings = make_settings(backoffs_value(b), enforce)
    out: dict[str, Any] = {}

    async def main() -> None:
        ctx = auth.APIContext(credentials.AiohttpSession(server='http://fake', aiohttp_session=sess))
        if start:
            await asyncio.sleep(start)
        out['t0'] = loop.time()
        try:
            resp = await api.request('get', '/apis/x', settings=settings, logger=logger, context=ctx)
            out['exc'] = None
            out['status'] = resp.status
        except BaseException as e:   # noqa: the harness must see everything, incl. CancelledError
            out['exc'] = e
        out['t1'] = loop.time()

    try:
        with vloop.running(loop):
            t = loop.spawn(main())
            finished = loop.run_until(t.done, 10 ** 7)
            out['finished'] = finished
    finally:
        vloop.close_loop(loop)
    out['times'] = [rec['t'] for rec in server.log]
    out['faults'] = [rec['fault'] for rec in server.log]
    return out


def int_times(ts: list[float]) -> list[int] | None:
    if any(abs(t - round(t)) > 1e-9 for t in ts):
        return None
    return [int(round(t)) for t in ts]


def monitor_request(ctx: fw.Ctx, case: dict, out: dict) -> None:
    """The property text evaluated on the attempts the fake session saw."""
    script, b = case['script'], case['backoffs']
    times, seen = out['times'], out['faults']
    n = len(times)
    conf = backoffs_list(b, n + 1)
    if not out.get('finished'):
        ctx.fail('request never finished', case, observed={'attempts': n}, sig='request-hangs')
        return
    if n == 0 or times[0] != out['t0']:
        ctx.fail('the first attempt is not made at once', case, observed={'t0': out['t0'], 'times': times}, sig='sleep-before-first-attempt')
    if seen != [tuple(x) for x in script[:n]] and seen != (script + [('ok',)])[:n]:
        ctx.fail('harness: fault script and log disagree', case, observed=seen, sig='harness')
    for i in range(n):
        f = seen[i]
        last = i == n - 1
        if f[0] == 'ok' or (f[0] == 'status' and f[1] < 400):
            if not last or out['exc'] is not None:
                ctx.fail('a successful attempt is not returned to the caller', case, observed={'attempt': i, 'exc': repr(out['exc'])}, sig='success-not-returned')
            continue
        if is_transient(f):
            if conf[i] is None:
                # backoffs exhausted: escalate this error now
                if not last or out['exc'] is None or not exc_matches_fault(out['exc'], f):
                    ctx.fail('exhausted backoffs do not escalate the last error', case,
                             observed={'attempt': i, 'attempts': n, 'exc': repr(out['exc'])}, sig='no-escalation-after-exhaustion')
                continue
            if last:
                ctx.fail('a transient failure with backoffs left is not retried', case,
                         observed={'attempt': i, 'fault': f, 'backoff': conf[i], 'exc': repr(out['exc'])}, sig='transient-not-retried')
                continue
            gap = times[i + 1] - times[i]
            ra = requested_retry_after(f)
            if ra is not None and gap < ra:
                ctx.fail('retried sooner than the server-requested Retry-After', case,
                         observed={'attempt': i, 'fault': list(f), 'gap': gap, 'backoff': conf[i], 'retry_after': ra},
                         sig='waited-less-than-retry-after')
            elif gap < conf[i] and not (case['enforce'] and ra is not None):
                ctx.fail('retried sooner than the configured backoff', case,
                         observed={'attempt': i, 'fault': list(f), 'gap': gap, 'backoff': conf[i], 'retry_after': ra},
                         sig='waited-less-than-backoff')
            elif gap not in (conf[i], ra):
                ctx.fail('the wait is neither the configured backoff nor the Retry-After', case,
                         observed={'attempt': i, 'fault': list(f), 'gap': gap, 'backoff': conf[i], 'retry_after': ra},
                         sig='wait-not-prescribed')
        else:
            # other 4xx, 401, closed sessions, foreign errors: no retry inside request
            if not last:
                ctx.fail('a non-transient failure was retried by the request loop', case, observed={'attempt': i, 'fault': f}, sig='non-transient-retried')
            elif out['exc'] is None or not exc_matches_fault(out['exc'], f):
                ctx.fail('a non-transient failure is not escalated as itself', case,
                         observed={'attempt': i, 'fault': f, 'exc': repr(out['exc'])}, sig='wrong-escalation')


def request_case(ctx: fw.Ctx, case: dict, D: list) -> None:
    script = [tuple(x) for x in case['script']]
    case = {**case, 'script': script}
    out = run_request(script, case['backoffs'], case['enforce'])
    monitor_request(ctx, case, out)
    ts = int_times(out['times'])
    kind = classify_exc(out['exc'])
    lastf = out['faults'][-1] if out['faults'] else None
    for f in script:
        ctx.count('fault', f[0] if f[0] != 'status' else str(f[1]) + ('+RA' if requested_retry_after(f) is not None else ''))
    ctx.count('backoffs', case['backoffs']['kind'])
    ctx.count('request_outcome', kind)
    ctx.count('attempts', str(min(len(out['times']), 9)))
    if any(is_transient(f) or (f[0] == 'status' and f[1] == 401) for f in out['faults']):
        ctx.nontriv(['request', case['script'], case['backoffs'], case['enforce']])
    if ts is None or lastf is None:
        ctx.correspondence_break('D:request', {'detail': 'non-integer or missing attempt times', 'case': case, 'times': out['times']})
        return
    exp = f"({cq.clist(cq.cZ(t) for t in ts)}, {coutcome(kind, lastf)})"
    term = f"request_obs {cq.cbool(case['enforce'])} {csrc(case['backoffs'])} {cq.clist(cfault(f) for f in script)}"
    D.append(fw.Case(f'request_obs_eqb ({term}) {exp}', {**case, 'observed_times': ts, 'observed': kind}, diag=term))


def fault_class_cases(ctx: fw.Ctx, faults: list[tuple]) -> list:
    """Every distinct fault, alone against one backoff: is it followed by a second attempt (Retry.transient),
    does it leave request() as an authentication failure (Retry.is_reauth)?  The harness's own list of the
    property's transient failures must agree with both the code and the model."""
    D = []
    for f in faults:
        out = run_request([f], {'kind': 'tuple', 'v': [1]}, False)
        retried = len(out['times']) == 2
        reauth = classify_exc(out['exc']) == 'reauth'
        if retried != is_transient(f) and not (f[0] == 'ok' or (f[0] == 'status' and f[1] < 400)):
            ctx.fail('the set of retried failures is not (network errors, 5xx, 403, 429)', {'fault': list(f)},
                     observed={'retried': retried, 'transient_by_the_property': is_transient(f)}, sig='retried-set')
        ctx.count('fault_class', 'retried' if retried else 'reauth' if reauth else 'ok' if out['exc'] is None else 'escalated')
        D.append(fw.Case(f"Bool.eqb (transient {cfault(f)}) {cq.cbool(retried)} && Bool.eqb (is_reauth {cfault(f)}) {cq.cbool(reauth)}",
                         {'fault': list(f), 'retried': retried, 'reauth': reauth}, diag=f"(transient {cfault(f)}, is_reauth {cfault(f)})"))
    return D


def gen_request_case(r: Any) -> dict:
    n = r.choice([0, 1, 1, 2, 2, 3, 3, 4, 5, 6, 8, 10, 12])
    ra5 = r.random() < 0.3
    script = []
    for _ in range(n):
        f = gen_fault(r, ra5)
        script.append(f)
    # mostly retryable prefixes, so that long sequences are actually walked through
    if r.random() < 0.6:
        script = [f if (is_transient(f) or i == len(script) - 1) else gen_transient(r, ra5) for i, f in enumerate(script)]
    return {'script': script, 'backoffs': gen_backoffs(r), 'enforce': r.random() < 0.3}


def gen_transient(r: Any, ra5: bool) -> tuple:
    while True:
        f = gen_fault(r, ra5)
        if is_transient(f):
            return f


def exhaustive_request_cases(maxlen: int) -> list[dict]:
    """All sequences up to maxlen over an 8-letter fault alphabet, against one finite backoff list."""
    alphabet = [('ok',), ('status', 500, None, None), ('status', 503, None, 6), ('status', 403, None, None), ('status', 429, 4, None),
                ('conn',), ('status', 404, None, None), ('status', 401, None, None)]
    cases = []
    for n in range(maxlen + 1):
        for seq in itertools.product(alphabet, repeat=n):
            cases.append({'script': list(seq), 'backoffs': {'kind': 'tuple', 'v': [1, 2, 3][:max(0, maxlen - 2)] or [1]},
                          'enforce': False})
    return cases


# ======================================================================================
# @authenticated + Vault + scripted authenticator around api.request  (D:call)
# ======================================================================================

def run_call(script: list, b: dict, enforce: bool, lat: int) -> dict:
    from kopf._cogs.clients import api, auth
    from kopf._cogs.structs import credentials
    loop = vloop.new_loop()
    server = Server(script)
    settings = make_settings(backoffs_value(b), enforce)
    out: dict[str, Any] = {'logins': 0}

    async def main() -> None:
        vault = credentials.Vault({'k': credentials.AiohttpSession(server='http://fake', aiohttp_session=FakeSession(server, 0))})
        auth.vault_var.set(vault)

        async def authenticator() -> None:
            while True:
                await vault.wait_for_emptiness()
                out['logins'] += 1
                if lat:
                    await asyncio.sleep(lat)
                await vault.populate({'k': credentials.AiohttpSession(
                    server='http://fake', aiohttp_session=FakeSession(server, out['logins']))})

        at = asyncio.create_task(authenticator())
        try:
            resp = await api.request('get', '/apis/x', settings=settings, logger=logger)
            out['exc'] = None
        except BaseException as e:  # noqa
            out['exc'] = e
        at.cancel()

    try:
        with vloop.running(loop):
            t = loop.spawn(main())
            out['finished'] = loop.run_until(t.done, 10 ** 7)
    finally:
        vloop.close_loop(loop)
    out['times'] = [rec['t'] for rec in server.log]
    out['faults'] = [rec['fault'] for rec in server.log]
    out['creds'] = [rec['cred'] for rec in server.log]
    return out


def call_case(ctx: fw.Ctx, case: dict, D: list) -> None:
    script = [tuple(x) for x in case['script']]
    out = run_call(script, case['backoffs'], case['enforce'], case['lat'])
    if not out['finished']:
        ctx.fail('authenticated request never finished', case, observed={'attempts': len(out['times'])}, sig='call-hangs')
        return
    if type(out['exc']).__name__ == 'LoginError':
        ctx.fail('a request hit by a 401 failed although the re-authentication it caused succeeded', case,
                 observed={'exc': repr(out['exc']), 'logins': out['logins']}, sig='blocked-request-failed')
    faults = out['faults']
    n401 = sum(1 for f in faults if f[0] in ('ssl', 'rtclosed') or (f[0] == 'status' and f[1] == 401))
    # monitor: one login per authentication failure; the attempt after it uses the new credentials, at once after the login
    if out['logins'] != n401:
        ctx.fail('number of re-authentications differs from the number of 401/closed-session failures', case,
                 observed={'logins': out['logins'], 'auth_failures': n401}, sig='reauth-count')
    for i, f in enumerate(faults[:-1]):
        if f[0] in ('ssl', 'rtclosed') or (f[0] == 'status' and f[1] == 401):
            if out['creds'][i + 1] == out['creds'][i]:
                ctx.fail('invalidated credentials were used again', case, observed={'attempt': i + 1, 'cred': out['creds'][i]}, sig='invalid-reused')
            if out['times'][i + 1] - out['times'][i] != case['lat']:
                ctx.fail('the request did not proceed as soon as fresh credentials arrived', case,
                         observed={'attempt': i + 1, 'gap': out['times'][i + 1] - out['times'][i], 'login_latency': case['lat']}, sig='reauth-delay')
    ts = int_times(out['times'])
    kind = classify_exc(out['exc'])
    ctx.count('call_outcome', kind)
    ctx.count('call_reauths', str(min(out['logins'], 5)))
    if n401:
        ctx.nontriv(['call', case['script'], case['backoffs'], case['enforce'], case['lat']])
    if ts is None:
        ctx.correspondence_break('D:call', {'detail': 'non-integer attempt times', 'case': case})
        return
    lastf = faults[-1]
    term = (f"call {cq.cnat(len(script) + 1)} {cq.cbool(case['enforce'])} {csrc(case['backoffs'])} {cq.cZ(case['lat'])} 0 "
            f"{cq.clist(cfault(f) for f in script)}")
    exp_out = coutcome(kind, lastf)
    D.append(fw.Case(f"match {term} with (ts, o, n) => zlist_eqb ts {cq.clist(cq.cZ(t) for t in ts)} && outcome_eqb o {exp_out} "
                     f"&& Nat.eqb n {cq.cnat(out['logins'])} end",
                     {**case, 'observed_times': ts, 'observed': kind, 'logins': out['logins']}, diag=term))


def gen_call_case(r: Any) -> dict:
    c = gen_request_case(r)
    # make authentication failures frequent
    script = []
    for f in c['script']:
        if r.random() < 0.25:
            f = r.choice([('status', 401, None, None), ('status', 401, None, None), ('ssl',), ('rtclosed',)])
        script.append(f)
    return {**c, 'script': script, 'lat': r.choice([0, 0, 1, 3, 10])}


# ======================================================================================
# throttled()  (D:throttle + monitors)
# ======================================================================================

class Esc(BaseException):
    pass


class BodyError(Exception):
    pass


def delays_value(d: dict) -> Any:
    if d['kind'] == 'endless':
        return Endless(d['a'], d['b'])
    return tuple(d['v']) if d['kind'] == 'tuple' else list(d['v'])


def cdl(d: dict) -> str:
    if d['kind'] == 'endless':
        return f"(dl_fun (fun i => {cq.cZ(d['a'])} + {cq.cZ(d['b'])} * Z.of_nat i))"
    return f"(dl_list {cq.clist(cq.cZ(x) for x in d['v'])})"


def delay_at(d: dict, k: int) -> int | None:
    """The harness's own reading of `the configured error delays, growing per consecutive error`:
    the k-th consecutive error (k = 0, 1, ...) pauses for the k-th delay, the last one repeating."""
    if d['kind'] == 'endless':
        return d['a'] + d['b'] * k
    return d['v'][min(k, len(d['v']) - 1)] if d['v'] else None


def run_throttle(d: dict, eps: list[dict], esc_kind: str = 'base') -> list[dict]:
    """Drive the real `throttled` through a list of episodes; returns one observation per episode."""
    from kopf._core.actions import throttlers
    loop = vloop.new_loop()
    obs: list[dict] = []

    async def main() -> None:
        thr = throttlers.Throttler()
        ev = asyncio.Event()
        delays = delays_value(d)
        for e in eps:
            if e['gap']:
                await asyncio.sleep(e['gap'])
            ev.clear()
            if e['ev']:
                ev.set()
            entry = loop.time()
            rec: dict[str, Any] = {'entry': entry, 'until_before': thr.active_until}
            handles: list[Any] = []
            wk1 = None
            if e['wk1'] is not None and thr.active_until is not None and not e['ev']:
                remaining = thr.active_until - entry
                if e['wk1'] >= 0:      # early: inside the sleep, possibly at its very start
                    if remaining >= 1:
                        wk1 = e['wk1'] % int(remaining)
                else:                  # late: after the sleep would be over anyway
                    wk1 = int(max(remaining, 0)) + 1
            if wk1 is not None:
                handles.append(loop.call_later(wk1, ev.set))
            rec['wk1'] = wk1
            should = None
            try:
                async with throttlers.throttled(throttler=thr, delays=delays, wakeup=ev, logger=logger) as should_run:
                    should = should_run
                    rec['body_start'] = loop.time()
                    for h in handles:
                        h.cancel()
                    if e.get('evb'):
                        ev.set()           # a new event arrives while the block runs
                    if e['wk2'] is not None:
                        handles.append(loop.call_later(e['dur'] + e['wk2'], ev.set))
                    if e['dur']:
                        await asyncio.sleep(e['dur'])
                    rec['body_end'] = loop.time()
                    if e['body'] == 'err':
                        raise BodyError('scripted')
                    if e['body'] == 'esc':
                        raise (asyncio.CancelledError() if esc_kind == 'cancel' else Esc())
                escalated = False
            except BaseException as x:  # noqa
                escalated = True
                rec['exc'] = type(x).__name__
            for h in handles:
                h.cancel()
            rec.update(should=should, escalated=escalated, exit=loop.time(), has_source=thr.source_of_delays is not None,
                       last=thr.last_used_delay, until=thr.active_until)
            obs.append(rec)

    try:
        with vloop.running(loop):
            t = loop.spawn(main())
            fin = loop.run_until(t.done, 10 ** 8)
            if not fin:
                obs.append({'hang': True})
            elif t.exception() is not None:
                raise t.exception()  # type: ignore[misc]
    finally:
        vloop.close_loop(loop)
    return obs


def gen_throttle_case(r: Any) -> dict:
    k = r.randrange(8)
    if k == 0:
        d = {'kind': 'tuple', 'v': []}
    elif k == 1:
        d = {'kind': 'endless', 'a': r.choice([0, 2, 4]), 'b': r.choice([0, 2, 6])}
    else:
        d = {'kind': r.choice(['tuple', 'list']), 'v': [r.choice([0, 2, 2, 4, 6, 10, 16, 26]) for _ in range(r.choice([1, 2, 3, 3, 5]))]}
    eps = []
    for _ in range(r.choice([1, 2, 3, 4, 6, 8, 12])):
        body = r.choice(['ok', 'err', 'err', 'err', 'esc'] if r.random() < 0.2 else ['ok', 'err', 'err'])
        eps.append({'gap': r.choice([0, 0, 1, 3, 7, 30]), 'ev': r.random() < 0.1,
                    'wk1': r.choice([None, None, r.randrange(50), -1]),
                    'body': body, 'dur': r.choice([0, 0, 1, 5]),
                    'evb': r.random() < 0.1,
                    'wk2': r.choice([None, None, None, 0, 1, 3, 5, 9, 31])})
    return {'delays': d, 'eps': eps}


def throttle_case(ctx: fw.Ctx, case: dict, D: list) -> None:
    d, eps = case['delays'], case['eps']
    obs = run_throttle(d, eps, case.get('esc', 'base'))
    if obs and obs[-1].get('hang'):
        ctx.fail('throttled never finished', case, sig='throttle-hangs')
        return
    # ---- monitor: the property text, with the harness's own counter of consecutive errors ----
    k = 0
    until = None
    for i, (e, o) in enumerate(zip(eps, obs)):
        body = e['body']
        ran = bool(o['should'])
        if until is not None and o.get('body_start', o['exit']) >= until and not ran:
            ctx.fail('processing does not resume although the pause is over', case, observed={'episode': i, 'obs': _pub(o)}, sig='no-recovery')
        if until is not None and o.get('body_start', o['exit']) < until and ran:
            ctx.fail('the object is processed during its error pause', case, observed={'episode': i, 'obs': _pub(o)}, sig='ran-while-paused')
        if body == 'esc':
            if not o['escalated'] or o.get('exc') not in ('Esc', 'CancelledError'):
                ctx.fail('a cancellation / foreign BaseException was swallowed by throttled', case, observed={'episode': i, 'obs': _pub(o)}, sig='base-exception-swallowed')
        elif body == 'err' and ran:
            want = delay_at(d, k)
            if o['escalated']:
                ctx.fail('an unexpected error left throttled (would stop the worker)', case, observed={'episode': i, 'obs': _pub(o)}, sig='error-escalated')
            got = None if o['until'] is None and o['exit'] == o['body_end'] else (
                (o['until'] - o['body_end']) if o['until'] is not None else (o['exit'] - o['body_end']))
            if (want or 0) != (got or 0):
                ctx.fail('the pause after the k-th consecutive error is not the k-th configured delay', case,
                         observed={'episode': i, 'k': k, 'pause': got, 'expected': want, 'obs': _pub(o)}, sig='wrong-pause')
            k += 1
            until = o['body_end'] + (want or 0)
        elif body == 'ok' and ran:
            if o['escalated']:
                ctx.fail('a clean run raised', case, observed={'episode': i}, sig='clean-raised')
            k = 0
            until = None
        if ran and o['exit'] >= (until if until is not None else o['exit']) and o['until'] is not None and body != 'esc':
            ctx.fail('pause slept out but throttling still active', case, observed={'episode': i, 'obs': _pub(o)}, sig='stuck-active')
    ctx.count('throttle_delays', d['kind'] + ('-empty' if d.get('v') == [] else ''))
    for e, o in zip(eps, obs):
        ctx.count('throttle_branch', f"{e['body']}/{'run' if o['should'] else 'skip'}" + ('/woken' if o['until'] is not None and o['should'] else ''))
    if any(e['body'] == 'err' for e in eps):
        ctx.nontriv(['throttle', case])
    # ---- differential ----
    try:
        es = []
        for e, o in zip(eps, obs):
            ep = (f"{{| e_ev := {cq.cbool(e['ev'])}; e_wk1 := {coz(o['wk1'])}; e_body := {dict(ok='BOk', err='BErr', esc='BEsc')[e['body']]}; "
                  f"e_dur := {cq.cZ(e['dur'])}; e_evb := {cq.cbool(bool(e.get('evb')))}; e_wk2 := {coz(e['wk2'])} |}}")
            es.append(f"({cq.cZ(_int(o['entry']))}, {ep})")
        exp = cq.clist(
            f"({cq.cbool(bool(o['should']))}, {cq.cbool(o['escalated'])}, {cq.cZ(_int(o['exit']))}, {cq.cbool(o['has_source'])}, "
            f"{coz(_oint(o['last']))}, {coz(_oint(o['until']))})" for o in obs)
    except ValueError as x:
        ctx.correspondence_break('D:throttle', {'detail': f'non-integer observation: {x}', 'case': case})
        return
    term = f"run_obs {cdl(d)} {cq.clist(es)}"
    D.append(fw.Case(f"obs_list_eqb ({term}) {exp}", {**case, 'observed': [_pub(o) for o in obs]}, diag=term))


def _int(x: float) -> int:
    if abs(x - round(x)) > 1e-9:
        raise ValueError(x)
    return int(round(x))


def _oint(x: float | None) -> int | None:
    return None if x is None else _int(x)


def _pub(o: dict) -> dict:
    return {k: v for k, v in o.items()}


# ======================================================================================
# Vault + @authenticated + the real authenticator activity  (T:vault)
# ======================================================================================

class CredSession(FakeSession):
    """A session whose equality is that of its credentials (so that the KubeContext dataclass equality,
    which Vault._update_converted relies on, is the equality of the credentials' value)."""

    def __eq__(self, o: object) -> bool:
        return isinstance(o, CredSession) and o.cred == self.cred

    def __hash__(self) -> int:
        return hash(('CredSession', self.cred))


class AuthServer(Server):
    """Answers 401 to every request whose credentials are not (any more) valid; other requests succeed
    after `latency` seconds."""

    def __init__(self, valid: set, latency: int) -> None:
        super().__init__()
        self.valid = set(valid)
        self.latency = latency
        self.closed_at: dict[int, float] = {}      # credentials value -> first time a session with it was closed by invalidation
        self.closed_sessions: list[int] = []       # serials of the sessions closed (= items invalidated or expired)
        self.exp: dict[int, int] = {}              # credentials value -> expiration (s), if any
        self.expired_at: dict[int, float] = {}     # credentials value -> when the vault dropped them as expired
        self.n_sessions = 0


class AuthSession(CredSession):
    def __init__(self, server: 'AuthServer', cred: Any = None) -> None:
        super().__init__(server, cred)
        server.n_sessions += 1
        self.serial = server.n_sessions

    async def request(self, method: str, url: str, json: Any = None, headers: Any = None, timeout: Any = None) -> FakeResponse:
        loop = asyncio.get_running_loop()
        task = asyncio.current_task()
        rec = {'t': loop.time(), 'cred': self.cred, 'sess': self.serial, 'closed': self.closed,
               'task': task.get_name() if task else None}
        self.server.log.append(rec)
        if self.closed:
            rec['fault'] = ('closed-session',)
            raise RuntimeError('Session is closed')
        if self.server.latency:
            await asyncio.sleep(self.server.latency)
        rec['t_resp'] = loop.time()
        if self.closed:                      # closed while the request was in flight
            rec['fault'] = ('closed-in-flight',)
            raise RuntimeError('Session is closed')
        e = self.server.exp.get(self.cred)
        if self.cred not in self.server.valid or (e is not None and loop.time() >= e):
            rec['fault'] = ('status', 401, None, None)
            return FakeResponse(401, {}, {'kind': 'Status', 'code': 401, 'message': 'Unauthorized'})
        rec['fault'] = ('ok',)
        return FakeResponse(200, {}, {})

    async def close(self) -> None:
        now = asyncio.get_running_loop().time()
        if not self.closed:
            self.server.closed_sessions.append(self.serial)
            # closed because the vault invalidated it (after a 401 on it) or because it expired?
            rejected = any(r.get('sess') == self.serial and r.get('fault', ('',))[0] == 'status' for r in self.server.log)
            if rejected:
                self.server.closed_at.setdefault(self.cred, now)
            else:
                self.server.expired_at.setdefault(self.cred, now)
        self.closed = True


def run_vault(case: dict) -> dict:
    """case: {'init': [[key, cred, prio]...], 'latency': s, 'revoke': [[t, cred]...],
              'logins': [{'lat': s, 'give': [[key, cred, prio, valid]...]} ...],
              'requesters': [[start, n_requests, gap], ...]}"""
    import kopf
    from kopf._cogs.clients import api, auth
    from kopf._cogs.structs import credentials, ephemera
    from kopf._core.engines import activities, indexing
    from kopf._core.intents import registries
    from kv import clock
    clock.install()          # the vault reads the wall clock through credentials.datetime: EPOCH + loop.time()
    clock.set_offset(0)
    loop = vloop.new_loop()
    server = AuthServer({c for _, c, _ in case['init']}, case['latency'])
    server.exp = {int(c): e for c, e in case.get('exp', {}).items()}
    log: list[tuple] = []
    ids: dict[int, int] = {}
    items: list[Any] = []     # keep the objects alive so that id() is not recycled
    out: dict[str, Any] = {'logins': [], 'results': {}}

    def tname() -> str:
        t = asyncio.current_task()
        return t.get_name() if t else '?'

    class LoggedLock(asyncio.Lock):
        async def acquire(self) -> bool:  # type: ignore[override]
            res = await super().acquire()
            log.append(('acq', tname()))
            return res

    def mkinfo(key: str, cred: int, prio: int) -> Any:
        e = server.exp.get(cred)
        return credentials.AiohttpSession(server='http://fake', priority=prio, aiohttp_session=AuthSession(server, cred),
                                          expiration=None if e is None else clock.at(e))

    def number_new_items(vault: Any, keys: list[str]) -> None:
        for k in keys:
            it = vault._current.get(k)
            if it is not None and id(it) not in ids:
                ids[id(it)] = len(ids)
                items.append(it)

    async def main() -> None:
        vault = credentials.Vault({k: mkinfo(k, c, p) for k, c, p in case['init']})
        number_new_items(vault, [k for k, _, _ in case['init']])
        for name in ('_guard', 'select', 'invalidate', 'wait_for_emptiness', '_update_converted', 'populate', '_ready', '_current', '_invalid', '_expire'):
            if not hasattr(vault, name):
                raise RuntimeError(f'observation point missing: Vault.{name}')
        vault._guard = asyncio.Condition(lock=LoggedLock())
        orig_select, orig_invalidate = vault.select, vault.invalidate
        orig_wfe, orig_upd = vault.wait_for_emptiness, vault._update_converted

        def select() -> Any:
            try:
                k, it = orig_select()
            except credentials.LoginError:
                log.append(('select-err', tname()))
                raise
            log.append(('select', tname(), k, ids[id(it)]))
            return k, it

        async def invalidate(key: Any, info: Any, *, exc: Any = None) -> None:
            log.append(('inv-enter', tname(), key, info.aiohttp_session.cred))
            try:
                await orig_invalidate(key, info, exc=exc)
            except credentials.LoginError:
                log.append(('inv-exit', tname(), 'LoginError'))
                raise
            log.append(('inv-exit', tname(), 'ok'))

        async def wait_for_emptiness() -> None:
            await orig_wfe()
            log.append(('wake-empty',))

        def update_converted(src: Any) -> None:
            log.append(('populate', [(k, i.aiohttp_session.cred, i.priority) for k, i in src.items()],
                        frozenset(c for c in server.valid if server.exp.get(c) is None or loop.time() < server.exp[c]), frozenset(server.closed_at)))
            orig_upd(src)
            number_new_items(vault, list(src))

        orig_expire = vault._expire

        async def _expire() -> None:
            log.append(('expire-enter', tname(), loop.time()))
            await orig_expire()
            log.append(('expire-exit', tname()))

        vault._expire = _expire                                                 # type: ignore[method-assign]
        vault.select, vault.invalidate = select, invalidate                     # type: ignore[method-assign]
        vault.wait_for_emptiness, vault._update_converted = wait_for_emptiness, update_converted  # type: ignore[method-assign]
        auth.vault_var.set(vault)

        registry = registries.OperatorRegistry()
        script = list(case['logins'])

        @kopf.on.login(registry=registry, id='k0')
        async def login(**_: Any) -> Any:
            step = script.pop(0) if script else {'lat': 0, 'give': []}
            out['logins'].append(loop.time())
            if step['lat']:
                await asyncio.sleep(step['lat'])
            got = None
            for k, c, p, valid in step['give']:
                if valid:
                    server.valid.add(c)
                got = mkinfo(k, c, p)
            return got

        settings = make_settings((), False)
        at = asyncio.create_task(activities.authenticator(
            registry=registry, settings=settings, indices=indexing.OperatorIndexers().indices, vault=vault,
            memo=ephemera.Memo()), name='authenticator')

        async def revoker() -> None:
            t0 = 0
            for t, c in case['revoke']:
                await asyncio.sleep(max(0, t - t0))
                t0 = max(t, t0)
                server.valid.discard(c)

        async def requester(name: str, start: int, n: int, gap: int) -> None:
            res = out['results'].setdefault(name, [])
            if start:
                await asyncio.sleep(start)
            for j in range(n):
                t_begin = loop.time()
                log.append(('begin', name, j))
                try:
                    await api.request('get', f'/apis/{name}/{j}', settings=settings, logger=logger)
                    res.append({'begin': t_begin, 'end': loop.time(), 'exc': None})
                    log.append(('done', name))
                except BaseException as e:  # noqa
                    res.append({'begin': t_begin, 'end': loop.time(), 'exc': type(e).__name__})
                    log.append(('failed', name, type(e).__name__, j, frozenset(c for c in server.valid if server.exp.get(c) is None or loop.time() < server.exp[c]), frozenset(server.closed_at)))
                if gap:
                    await asyncio.sleep(gap)

        rv = asyncio.create_task(revoker(), name='revoker')
        rs = [asyncio.create_task(requester(f'r{i + 1}', *spec), name=f'r{i + 1}') for i, spec in enumerate(case['requesters'])]
        done, pending = await asyncio.wait(rs, timeout=case.get('horizon', 2000))
        out['unfinished'] = sorted(t.get_name() for t in pending)
        for t in list(pending) + [rv, at]:
            t.cancel()
        await asyncio.sleep(0)
        out['auth_failed'] = repr(at.exception()) if at.done() and not at.cancelled() and at.exception() else None
        out['final'] = {
            'current': [(k, ids[id(it)]) for k, it in vault._current.items()],
            'ready': vault._ready,
            'invalid': {k: [i.info.aiohttp_session.cred * 4 + i.info.priority for i in v] for k, v in vault._invalid.items() if v},
        }

    try:
        with vloop.running(loop):
            t = loop.spawn(main())
            out['finished'] = loop.run_until(t.done, 10 ** 6)
            if t.done() and t.exception() is not None:
                raise t.exception()  # type: ignore[misc]
    finally:
        vloop.close_loop(loop)
    out['log'] = log
    out['server_log'] = server.log
    out['closed_at'] = dict(server.closed_at)
    out['closed_sessions'] = list(server.closed_sessions)
    return out


def vault_labels(case: dict, log: list[tuple]) -> list[str]:
    """Per-task events -> labels of Model/Vault.v (one per critical section)."""
    keyn = lambda k: int(str(k)[1:])
    rn = lambda name: int(name[1:])
    exp = {int(c): e for c, e in case.get('exp', {}).items()}
    phase: dict[str, str] = {}
    labels: list[str] = []
    for i, e in enumerate(log):
        nxt = log[i + 1] if i + 1 < len(log) else None
        kind = e[0]
        if kind == 'expire-enter':
            waits = not (nxt is not None and nxt[0] == 'expire-exit' and nxt[1] == e[1])
            labels.append(f'Expire {rn(e[1])} {cq.cZ(_int(e[2]))} {cq.cbool(waits)}')
            if waits:
                phase[e[1]] = 'expwait'
        elif kind == 'expire-exit':
            if phase.get(e[1]) == 'expwait':
                phase.pop(e[1], None)
        elif kind == 'select':
            labels.append(f'Select {rn(e[1])} {keyn(e[2])} {e[3]}')
        elif kind == 'select-err':
            labels.append(f'SelectErr {rn(e[1])}')
        elif kind == 'done':
            labels.append(f'Done {rn(e[1])}')
        elif kind == 'inv-enter':
            phase[e[1]] = 'enter'
        elif kind == 'inv-exit':
            if e[2] == 'ok':
                phase[e[1]] = 'recheck'       # _items resumes after the yield: its re-check comes next
            else:
                phase.pop(e[1], None)
        elif kind == 'acq':
            ph = phase.get(e[1])
            exits = nxt is not None and nxt[0] == 'inv-exit' and nxt[1] == e[1]
            if ph == 'enter':
                labels.append(f'Invalidate {rn(e[1])} {cq.cbool(not exits)}')
                phase[e[1]] = 'blocked'
            elif ph == 'blocked':
                o = 'WStill' if not exits else ('WResumed' if nxt[2] == 'ok' else 'WLoginErr')
                labels.append(f'Wake {rn(e[1])} {o}')
            elif ph == 'expwait':
                resumed = nxt is not None and nxt[0] == 'expire-exit' and nxt[1] == e[1]
                labels.append(f"WakeExp {rn(e[1])} {'WResumed' if resumed else 'WStill'}")
            elif ph == 'recheck':
                # does the generator go round again, or does @authenticated fall out of its loop?
                later = [x for x in log[i + 1:] if len(x) > 1 and x[1] == e[1]
                         and x[0] in ('expire-enter', 'select', 'select-err', 'failed', 'done', 'inv-enter', 'begin')]
                stops = bool(later) and later[0][0] == 'failed' and later[0][2] == 'RuntimeError'
                labels.append(f'Recheck {rn(e[1])} {cq.cbool(not stops)}')
                phase.pop(e[1], None)
        elif kind == 'wake-empty':
            labels.append('WakeEmpty')
        elif kind == 'populate':
            labels.append('Populate ' + cq.clist(
                f'({keyn(k)}%nat, {cq.cZ(c * 4 + p)}, {cq.cZ(p)}, {coz(exp.get(c))})' for k, c, p in e[1]))
    return labels


def gen_vault_case(r: Any) -> dict:
    nreq = r.choice([1, 2, 3, 3, 4, 5])
    two_keys = r.random() < 0.25
    init = [['k0', 100, r.choice([0, 1])]]
    if two_keys:
        init.append(['k1', 200, r.choice([0, 1, 2])])
    latency = r.choice([0, 1, 2, 5])
    nrev = r.choice([0, 1, 1, 2, 3, 5])
    t = 0
    revoke = []
    fresh = 101
    logins = []
    cur = 100
    stale_pending = 0
    for j in range(nrev):
        t += r.choice([1, 2, 3, 7, 15])
        revoke.append([t, cur])
        style = r.choice(['fresh'] * 6 + ['same', 'none', 'stale', 'old'])
        if style == 'fresh':
            logins.append({'lat': r.choice([0, 1, 4]), 'give': [['k0', fresh, init[0][2], True]]})
            cur = fresh
            fresh += 1
        elif style == 'stale':      # new credentials, which the server does not accept: one more round
            logins.append({'lat': r.choice([0, 2]), 'give': [['k0', fresh, init[0][2], False]]})
            logins.append({'lat': 0, 'give': [['k0', fresh + 1, init[0][2], True]]})
            cur = fresh + 1
            fresh += 2
        elif style == 'same':
            logins.append({'lat': r.choice([0, 2]), 'give': [['k0', cur, init[0][2], False]]})
            logins.append({'lat': 0, 'give': [['k0', fresh, init[0][2], True]]})   # what a 2nd login would give
            cur = fresh
            fresh += 1
        elif style == 'old' and fresh > 102:
            logins.append({'lat': 0, 'give': [['k0', r.randrange(100, fresh - 1), init[0][2], True]]})
            cur = logins[-1]['give'][0][1]
        else:
            logins.append({'lat': 0, 'give': []})
            logins.append({'lat': 0, 'give': [['k0', fresh, init[0][2], True]]})
            cur = fresh
            fresh += 1
    requesters = [[r.choice([0, 0, 1, 2, 5]), r.choice([1, 2, 4, 8]), r.choice([0, 1, 3, 6])] for _ in range(nreq)]
    case = {'init': init, 'latency': latency, 'revoke': revoke, 'logins': logins, 'requesters': requesters}
    if r.random() < 0.25:      # some credentials carry an expiration (a function of their value)
        exp = {'100': r.choice([2, 4, 7, 12])}
        t_exp = exp['100']
        for c in range(101, fresh):
            if r.random() < 0.5:
                t_exp += r.choice([3, 6, 10, 40])
                exp[str(c)] = t_exp
        case['exp'] = exp
    return case


def burst_cases() -> list[dict]:
    """N in {2,3,5} requesters failing on the same single item while the re-authentication is pending:
    'together' = all 401s arrive at the same instant, before the login starts; 'staggered' = later 401s /
    closed-session errors arrive while the login is still running."""
    out = []
    for n in (2, 3, 5):
        for login_lat in (0, 3):
            out.append({'init': [['k0', 100, 0]], 'latency': 2, 'revoke': [[0, 100]],
                        'logins': [{'lat': login_lat, 'give': [['k0', 101, 0, True]]}],
                        'requesters': [[0, 2, 1] for _ in range(n)]})
            out.append({'init': [['k0', 100, 0]], 'latency': 3, 'revoke': [[1, 100]],
                        'logins': [{'lat': 5 + login_lat, 'give': [['k0', 101, 0, True]]}],
                        'requesters': [[i, 2, 1] for i in range(n)]})
            out.append({'init': [['k0', 100, 0]], 'latency': 0, 'revoke': [[2, 100], [9, 101]],
                        'logins': [{'lat': 4, 'give': [['k0', 101, 0, True]]}, {'lat': 1 + login_lat, 'give': [['k0', 102, 0, True]]}],
                        'requesters': [[2 + i, 3, 4] for i in range(n)]})
    return out


def expiry_cases() -> list[dict]:
    """Credentials with an expiration; 1..3 requests are in flight when it passes; another request enters the
    vault afterwards (it drops the expired item and re-authenticates) before / after the first ones come back
    with their 401 or closed session."""
    out = []
    for n in (1, 2, 3):
        for login_lat in (0, 3):
            for lat, late in ((4, 6), (6, 6), (3, 9)):
                # expiry at t=5; n requests start at t=3..4 (in flight across t=5); one more enters at t=`late`
                reqs = [[3 + (i % 2), 2, 2] for i in range(n)] + [[late, 2, 1]]
                out.append({'init': [['k0', 100, 0]], 'exp': {'100': 5, '101': 60}, 'latency': lat, 'revoke': [],
                            'logins': [{'lat': login_lat, 'give': [['k0', 101, 0, True]]}], 'requesters': reqs})
    # nobody else enters: the in-flight request itself gets the 401 for the expired token
    out.append({'init': [['k0', 100, 0]], 'exp': {'100': 5}, 'latency': 4, 'revoke': [],
                'logins': [{'lat': 1, 'give': [['k0', 101, 0, True]]}], 'requesters': [[3, 3, 0]]})
    # expiry with nothing in flight
    out.append({'init': [['k0', 100, 0]], 'exp': {'100': 5}, 'latency': 1, 'revoke': [],
                'logins': [{'lat': 0, 'give': [['k0', 101, 0, True]]}], 'requesters': [[0, 2, 0], [7, 2, 0]]})
    return out


def match_f1202(f: dict) -> bool:
    """F1202: credentials invalidated more than 3 invalidations (of the same key) ago are accepted again."""
    return f['sig'] == 'invalid-reused' and f['observed'].get('invalidations_since', 0) >= 3


def match_f1203(f: dict) -> bool:
    """F1203: after a re-authentication that produced nothing usable the vault stays ready-but-empty;
    later requests fail with LoginError without ever starting another re-authentication."""
    o = f['observed'] or {}
    return (f['sig'] == 'no-recovery-after-failed-login' and o.get('exc') == 'LoginError' and o.get('vault_ready') is True
            and o.get('vault_empty') is True and o.get('logins_after') == 0)


def vault_case(ctx: fw.Ctx, case: dict, T: list) -> None:
    out = run_vault(case)
    slog = out['server_log']
    n401_creds = sorted({rec['sess'] for rec in slog if rec.get('fault', ('',))[0] == 'status'})   # distinct sessions = items
    single_key = len(case['init']) == 1
    exps = {int(c): e for c, e in case.get('exp', {}).items()}
    # every login so far handed out exactly one set of valid credentials that had never been invalidated before
    # ... and that were not expired when handed out
    fresh_only = len(out['logins']) <= len(case['logins']) and all(len(s['give']) == 1 and s['give'][0][3]
                     and not (s['give'][0][1] in out['closed_at'] and out['closed_at'][s['give'][0][1]] <= t_login)
                     and not (exps.get(s['give'][0][1]) is not None and exps[s['give'][0][1]] <= t_login + s['lat'])
                     for s, t_login in zip(case['logins'], out['logins']))
    ctx.count('vault_expirations', 'none' if not exps else 'initial-only' if len(exps) == 1 else 'several')
    ctx.count('vault_expiry_waits', str(min(sum(1 for i, e in enumerate(out['log']) if e[0] == 'expire-enter'
                                                and not (i + 1 < len(out['log']) and out['log'][i + 1][0] == 'expire-exit')), 4)))
    ctx.count('vault_requesters', str(len(case['requesters'])))
    ctx.count('vault_reauths', str(min(len(out['logins']), 6)))
    ctx.count('vault_401_creds', str(min(len(n401_creds), 6)))
    if n401_creds:
        ctx.nontriv(['vault', case])
    if out['auth_failed']:
        ctx.fail('the authenticator task died', case, observed=out['auth_failed'], sig='authenticator-died')
    # ---- monitors on what the server and the login handler saw ----
    # (1) one re-authentication per reason.  The reasons, in the property's terms: a set of credentials that was
    #     handed out (initially or by a login; serial = order of creation) has ENDED when the server answered 401
    #     to it / its session got closed under a request, or when a request entered the vault at or after its
    #     expiration while it was the latest one handed out under its key.  A login without such a reason (or a
    #     login handler result that gave nothing usable before it) is an alarm.
    lg0 = out['log']
    pops = [i for i, e in enumerate(lg0) if e[0] == 'populate']
    instances: list[dict] = []        # {'serial', 'key', 'cred', 'from': log index}
    for k, c, _ in case['init']:
        instances.append({'serial': len(instances) + 1, 'key': k, 'cred': c, 'from': -1})
    for i in pops:
        for k, c, _ in lg0[i][1]:
            instances.append({'serial': len(instances) + 1, 'key': k, 'cred': c, 'from': i})
    ended_serials = set(n401_creds) | set(out['closed_sessions'])
    expired_serials = set()
    for inst in instances:
        e = exps.get(inst['cred'])
        if e is None:
            continue
        until = min([x['from'] for x in instances if x['key'] == inst['key'] and x['from'] > inst['from']] or [len(lg0)])
        if any(x[0] == 'expire-enter' and x[2] >= e for x in lg0[max(inst['from'], 0):until]):
            expired_serials.add(inst['serial'])
    ctx.count('vault_reauth_reasons', 'rejected-or-closed', len(ended_serials))
    ctx.count('vault_reauth_reasons', 'expired-at-entry', len(expired_serials - ended_serials))
    reasons = ended_serials | expired_serials
    barren = 0
    for i, t in enumerate(out['logins']):
        step = case['logins'][i] if i < len(case['logins']) else {'give': []}
        if not step['give'] or all(c in out['closed_at'] for _, c, _, _ in step['give']):
            barren += 1
    if len(out['logins']) > len(reasons) + barren:
        ctx.fail('more re-authentications than credentials that were rejected or had expired', case,
                 observed={'logins': out['logins'], 'rejected_or_closed_sessions': sorted(ended_serials),
                           'expired_when_a_request_entered': sorted(expired_serials), 'barren_logins': barren}, sig='extra-reauth')
    # exactly one login per reason, when there is one key and every login handed out fresh, unexpired credentials
    if single_key and fresh_only and len(out['logins']) != len(reasons):
        ctx.fail('a burst of 401s / an expiry of the same credentials did not cause exactly one re-authentication', case,
                 observed={'logins': out['logins'], 'rejected_or_closed_sessions': sorted(ended_serials),
                           'expired_when_a_request_entered': sorted(expired_serials)},
                 sig='reauth-count')
    # (2) invalidated credentials are not used again (requests that reach the server)
    inval_order = sorted(out['closed_at'], key=lambda c: out['closed_at'][c])
    for rec in slog:
        if not rec['closed'] and rec['cred'] in out['closed_at'] and rec['t'] > out['closed_at'][rec['cred']]:
            later = [c for c in inval_order if out['closed_at'][c] > out['closed_at'][rec['cred']]]
            ctx.fail('invalidated credentials were used again', case,
                     observed={'cred': rec['cred'], 'invalidated_at': out['closed_at'][rec['cred']], 'used_at': rec['t'],
                               'invalidations_since': len([c for c in later if out['closed_at'][c] <= rec['t']])},
                     sig='invalid-reused')
            break
    # (3) blocked requests proceed, and recover once the errors stop
    login_times = out['logins']
    for name, results in out['results'].items():
        for j, res in enumerate(results):
            if res['exc'] is None:
                continue
            later_logins = len([t for t in login_times if t >= res['begin']])
            would_work = len(login_times) < len(case['logins']) and any(g[3] for g in case['logins'][len(login_times)]['give'])
            if res['exc'] == 'LoginError' and would_work and later_logins == 0:
                ctx.fail('requests keep failing although a new login would succeed', case,
                         observed={'requester': name, 'request': j, 'exc': res['exc'], 'begin': res['begin'],
                                   'logins_after': later_logins, 'vault_ready': out['final']['ready'],
                                   'vault_empty': not out['final']['current']},
                         sig='no-recovery-after-failed-login')
            elif res['exc'] != 'LoginError':
                ctx.fail('a request failed with something else than a login error', case, observed={'requester': name, 'res': res}, sig='vault-request-error')
    if out['unfinished']:
        ctx.fail('requesters blocked forever', case, observed=out['unfinished'], sig='requester-blocked')
    # (4) "after which ALL blocked requests proceed with fresh credentials": a request that reported an
    #     authentication failure (401 / closed session) must not fail with a login error when the login that
    #     followed its report handed out credentials that are valid and not invalidated at the time it fails
    started = sum(len(v) for v in out['results'].values())
    succeeded = sum(1 for v in out['results'].values() for x in v if x['exc'] is None)
    login_errors = sum(1 for v in out['results'].values() for x in v if x['exc'] == 'LoginError')
    blocked_failed = 0
    lg = out['log']
    for i, e in enumerate(lg):
        if e[0] != 'failed' or e[2] != 'LoginError':
            continue
        name, j, valid_then, closed_then = e[1], e[3], e[4], e[5]
        b = max(k for k in range(i) if lg[k][0] == 'begin' and lg[k][1] == name and lg[k][2] == j)
        reports = [k for k in range(b, i) if lg[k][0] == 'inv-enter' and lg[k][1] == name]
        if not reports:
            continue            # never held credentials: the ready-but-empty vault (see F1203)
        nxt = [k for k in range(reports[-1], len(lg)) if lg[k][0] == 'populate']
        if not nxt:
            continue
        given = [c for _, c, _ in lg[nxt[0]][1]]
        if nxt[0] > i:          # it gave up before the login it had caused was over: judge the login's result then
            valid_then, closed_then = lg[nxt[0]][2], lg[nxt[0]][3]
        if any(c in valid_then and c not in closed_then for c in given):
            blocked_failed += 1
            ctx.fail('a request hit by the 401 burst failed although the re-authentication it caused succeeded', case,
                     observed={'requester': name, 'request': j, 'exc': 'LoginError', 'login_gave': given,
                               'failed_before_login_finished': nxt[0] > i,
                               'requests': {'started': started, 'succeeded': succeeded, 'login_errors': login_errors}},
                     sig='blocked-request-failed')
    ctx.count('vault_requests', 'started', started)
    ctx.count('vault_requests', 'succeeded', succeeded)
    ctx.count('vault_requests', 'failed_login_error', login_errors)
    ctx.count('vault_requests', 'failed_although_relogin_succeeded', blocked_failed)
    held = {}
    for e in lg:
        if e[0] == 'inv-enter':
            held.setdefault((e[2], e[3]), set()).add(e[1])
    ctx.count('vault_burst_size', str(min(max([len(v) for v in held.values()] or [0]), 6)))
    # ---- trace acceptance ----
    labels = vault_labels(case, out['log'])
    src = cq.clist(f"({int(k[1:])}%nat, {cq.cZ(c * 4 + p)}, {cq.cZ(p)}, {coz(exps.get(c))})" for k, c, p in case['init'])
    fin = out['final']
    chk = (f"(fun s => list_eqb (pair_eqb Nat.eqb Nat.eqb) (cur_ids s) "
           f"{cq.clist(f'({int(k[1:])}%nat, {i}%nat)' for k, i in fin['current'])} && Bool.eqb (ready s) {cq.cbool(fin['ready'])}"
           + ''.join(f" && zlist_eqb (inv_creds s {int(k[1:])}) {cq.clist(cq.cZ(c) for c in v)}" for k, v in sorted(fin['invalid'].items()))
           + ')')
    tr = cq.clist(f'({l})' if ' ' in l else l for l in labels)
    T.append(fw.Case(f"final_ok {src} {tr} {chk}", {**case, 'labels': labels, 'final': fin},
                     diag=f"(rejected_at (init {src}) {tr} 0, match Vault.run (init {src}) {tr} with Some s => Some (cur_ids s, ready s) | None => None end)"))
    ctx.cov['traces_validated_against_impl'] += 1


# ======================================================================================
# process_resource_event with two objects: containment, never fatal, recovery  (proc)
# ======================================================================================

def run_proc(case: dict, with_faults: bool) -> dict:
    """case: {'delays': {...}, 'backoffs': [..], 'events': [[t, name], ...],
              'windows': [[t_from, t_to, kind], ...]  (faults hit PATCHes of object 'a' inside a window)}"""
    import kopf
    from kopf._cogs.clients import auth
    from kopf._cogs.structs import credentials, ephemera, references
    from kopf._core.actions import lifecycles
    from kopf._core.engines import indexing
    from kopf._core.intents import registries
    from kopf._core.reactor import inventory, processing
    from kv import canon
    loop = vloop.new_loop()
    server = Server()
    bodies_: dict[str, dict] = {}
    out: dict[str, Any] = {'handled': [], 'fatal': [], 'returns': [], 'throttler': [], 'cycles': [], 'deliveries': {}}
    cur_cycle: dict[str, dict] = {}

    def fault_for(rec: dict) -> Any:
        name = rec['url'].rstrip('/').split('/')[-1]
        rec['name'] = name
        if name in cur_cycle:
            cur_cycle[name]['requests'].append(rec)
        wins = (case['windows'] if with_faults else []) if name == 'a' else case.get('windows_' + name, [])
        if True:
            for t0, t1, kind in wins:
                if t0 <= rec['t'] < t1:
                    return {'500': ('status', 500, None, None), '409': ('status', 409, None, None), 'conn': ('conn',),
                            'timeout': ('timeout',), 'other': ('other',), '429': ('status', 429, 3, None),
                            '503ra': ('status', 503, 3, None)}[kind]
        body = bodies_[name]
        if isinstance(rec['json'], dict):
            body = canon.merge7386(body, rec['json'])
            body['metadata']['resourceVersion'] = str(int(body['metadata']['resourceVersion']) + 1)
            bodies_[name] = body
        return ('ok', body)

    server.handler = fault_for

    async def main() -> None:
        vault = credentials.Vault({'k': credentials.AiohttpSession(server='http://fake', aiohttp_session=FakeSession(server, 0))})
        auth.vault_var.set(vault)
        settings = make_settings(tuple(case['backoffs']), False)
        settings.queueing.error_delays = delays_value(case['delays'])
        settings.posting.enabled = False
        registry = registries.OperatorRegistry()
        resource = references.Resource(group='kopf.dev', version='v1', plural='kopfexamples', kind='KopfExample',
                                       singular='kopfexample', shortcuts=frozenset(), categories=frozenset(),
                                       subresources=frozenset(), namespaced=True, preferred=True, verbs=frozenset(['patch', 'list', 'watch']))

        @kopf.on.event('kopfexamples', registry=registry)
        async def on_event(name: str, patch: Any, body: Any, **_: Any) -> None:
            out['handled'].append({'name': name, 't': loop.time(), 'seq': body.get('spec', {}).get('seq')})
            cur_cycle[name]['handled_at'] = loop.time()
            patch.status['seen'] = body.get('spec', {}).get('seq')

        memories = inventory.ResourceMemories()
        indexers = indexing.OperatorIndexers()
        names = sorted({n for _, n in case['events']})
        queues = {n: asyncio.Queue() for n in names}
        pressures = {n: asyncio.Event() for n in names}
        for n in names:
            bodies_[n] = {'apiVersion': 'kopf.dev/v1', 'kind': 'KopfExample',
                          'metadata': {'name': n, 'namespace': 'ns', 'uid': f'uid-{n}', 'resourceVersion': '1'}, 'spec': {'seq': 0}}

        async def worker(n: str) -> None:
            while True:
                ev = await queues[n].get()
                while not queues[n].empty():
                    ev = queues[n].get_nowait()
                if ev is None:
                    return
                pressures[n].clear()
                t_in = loop.time()
                cyc = {'name': n, 't_in': t_in, 'handled_at': None, 'requests': [], 'seq': ev['object']['spec']['seq'],
                       'fatal': False}
                cur_cycle[n] = cyc
                out['cycles'].append(cyc)
                try:
                    rv = await processing.process_resource_event(
                        lifecycle=lifecycles.all_at_once, indexers=indexers, registry=registry, settings=settings,
                        memories=memories, memobase=ephemera.Memo(), resource=resource, raw_event=ev,
                        event_queue=asyncio.Queue(), stream_pressure=pressures[n])
                    out['returns'].append({'name': n, 't_in': t_in, 't_out': loop.time(), 'rv': rv})
                except BaseException as e:  # noqa
                    out['fatal'].append({'name': n, 't': loop.time(), 'exc': repr(e)})
                    cyc['fatal'] = True
                    if isinstance(e, asyncio.CancelledError):
                        raise
                cyc['t_out'] = loop.time()
                mem = memories._items.get(f'uid-{n}')
                if mem is not None:
                    thr = mem.error_throttler
                    cyc['thr'] = {'name': n, 't': loop.time(), 'until': thr.active_until, 'last': thr.last_used_delay,
                                  'has_source': thr.source_of_delays is not None}
                    out['throttler'].append(cyc['thr'])

        async def deliver() -> None:
            t0 = 0
            seq = 0
            for i, (t, n) in enumerate(case['events']):
                # every delivery gets its own fraction of a second: no two instants of different origin coincide
                t = t + (i + 1) / 64
                await asyncio.sleep(max(0, t - t0))
                t0 = max(t0, t)
                seq += 1
                out['deliveries'].setdefault(n, []).append(loop.time())
                bodies_[n] = {**bodies_[n], 'spec': {'seq': seq}}
                queues[n].put_nowait({'type': 'MODIFIED', 'object': json.loads(json.dumps(bodies_[n]))})
                pressures[n].set()

        ws = [asyncio.create_task(worker(n), name=f'worker-{n}') for n in names]
        await deliver()
        await asyncio.sleep(case.get('tail', 400) + 1 / 128)
        for n in names:
            queues[n].put_nowait(None)
            pressures[n].set()
            out['deliveries'].setdefault(n, []).append(loop.time())
        done, pending = await asyncio.wait(ws, timeout=2000)
        out['stuck_workers'] = sorted(t.get_name() for t in pending)
        for t in pending:
            t.cancel()

    try:
        with vloop.running(loop):
            t = loop.spawn(main())
            out['finished'] = loop.run_until(t.done, 10 ** 6)
            if t.done() and t.exception() is not None:
                raise t.exception()  # type: ignore[misc]
    finally:
        vloop.close_loop(loop)
    pub = lambda r: {'t': r['t'], 'name': r.get('name'), 'fault': r['fault'][0] if r['fault'][0] != 'status' else r['fault'][1]}
    out['requests'] = [pub(r) for r in server.log]
    for c in out['cycles']:
        c['requests'] = [pub(r) for r in c['requests']]
    return out


def gen_proc_case(r: Any) -> dict:
    k = r.randrange(6)
    if k == 0:
        d = {'kind': 'tuple', 'v': []}
    elif k == 1:
        d = {'kind': 'endless', 'a': 2, 'b': r.choice([0, 2])}
    else:
        d = {'kind': 'tuple', 'v': [r.choice([2, 4, 6, 10, 20]) for _ in range(r.choice([1, 2, 3]))]}
    events = []
    t = 0
    names = r.choice([['a', 'a', 'b'], ['a', 'a', 'b'], ['a', 'b', 'c'], ['a', 'a', 'b', 'b', 'c']])
    for _ in range(r.choice([3, 5, 8, 12, 16])):
        t += r.choice([0, 1, 1, 2, 3, 5, 9, 15])
        events.append([t, r.choice(names)])
    if not any(n == 'b' for _, n in events):
        events.append([t + 1, 'b'])
    windows = []
    w0 = 0
    for _ in range(r.choice([1, 1, 2])):
        w0 += r.choice([0, 0, 3, 10])
        w1 = w0 + r.choice([1, 4, 10, 30, 80])
        windows.append([w0, w1, r.choice(['500', '500', 'conn', 'timeout', '409', 'other', '429', '503ra'])])
        w0 = w1 + r.choice([5, 20])
    case = {'delays': d, 'backoffs': r.choice([[], [1], [1, 2]]), 'events': events, 'windows': windows, 'tail': 400}
    if r.random() < 0.35:       # a second erroring object, in both runs: its pauses interleave with those of `a`
        b0 = r.choice([0, 2, 7])
        case['windows_b'] = [[b0, b0 + r.choice([3, 12, 40]), r.choice(['500', 'conn', '409'])]]
    return case


def proc_model_case(ctx: fw.Ctx, case: dict, run: dict, D: list, label: str) -> None:
    """The cycles of the real process_resource_event (all objects, in the order they started) against
    Throttle.wrun: time unit 1/128 s."""
    def q(x: float) -> int:
        y = x * 128
        if abs(y - round(y)) > 1e-6:
            raise ValueError(x)
        return int(round(y))
    d = case['delays']
    names = sorted({c['name'] for c in run['cycles']})
    uid = {n: i for i, n in enumerate(names)}
    evs, exp = [], []
    try:
        for c in run['cycles']:
            if 't_out' not in c or 'thr' not in c:
                continue
            n = c['name']
            sets = sorted(x for x in run['deliveries'].get(n, []) if x > c['t_in'])
            wk1 = q(sets[0] - c['t_in']) if sets else None
            if c['handled_at'] is not None:
                start = c['handled_at']
                body_end = c['requests'][-1]['t'] if c['requests'] else start
                body = 'BErr' if (c['requests'] and c['requests'][-1]['fault'] != 'ok') else 'BOk'
                evb = any(c['t_in'] < x <= body_end for x in sets)
                later = [x for x in sets if x > body_end]
                wk2 = q(later[0] - body_end) if later else None
                dur = q(body_end - start)
            else:
                wins = case['windows'] if (n == 'a' and label == 'faulty') else case.get('windows_' + n, []) if n != 'a' else []
                body = 'BErr' if any(t0 <= c['t_out'] < t1 for t0, t1, _ in wins) else 'BOk'   # what it would have done
                evb, wk2, dur = False, None, 0
            ctx.count('proc_cycle', f"{'run' if c['handled_at'] is not None else 'skip'}/{body}"
                                    + ('/woken' if c['thr']['until'] is not None and c['handled_at'] is not None else ''))
            ep = (f"{{| e_ev := false; e_wk1 := {coz(wk1)}; e_body := {body}; e_dur := {cq.cZ(dur)}; "
                  f"e_evb := {cq.cbool(evb)}; e_wk2 := {coz(wk2)} |}}")
            evs.append(f"({uid[n]}%nat, {cq.cZ(q(c['t_in']))}, {ep})")
            th = c['thr']
            exp.append(f"({uid[n]}%nat, ({cq.cbool(c['handled_at'] is not None)}, {cq.cbool(c['fatal'])}, {cq.cZ(q(c['t_out']))}, "
                       f"{cq.cbool(th['has_source'])}, {coz(None if th['last'] is None else q(th['last']))}, "
                       f"{coz(None if th['until'] is None else q(th['until']))}))")
    except ValueError as x:
        ctx.correspondence_break('D:proc', {'detail': f'time not on the 1/128 s grid: {x}', 'case': case})
        return
    if d['kind'] == 'endless':
        dl = f"(dl_fun (fun i => {cq.cZ(128 * d['a'])} + {cq.cZ(128 * d['b'])} * Z.of_nat i))"
    else:
        dl = f"(dl_list {cq.clist(cq.cZ(128 * x) for x in d['v'])})"
    term = f"wrun_obs {dl} {cq.clist(evs)}"
    D.append(fw.Case(f"wobs_list_eqb ({term}) {cq.clist(exp)}", {**case, 'run': label, 'cycles': len(evs)}, diag=term))
    ctx.count('proc_objects', str(len(names)))
    ctx.cov['traces_validated_against_impl'] += 1


def proc_case(ctx: fw.Ctx, case: dict, D: list | None = None) -> None:
    faulty = run_proc(case, True)
    clean = run_proc(case, False)
    if D is not None:
        proc_model_case(ctx, case, faulty, D, 'faulty')
        proc_model_case(ctx, case, clean, D, 'clean')
    d = case['delays']
    ctx.count('proc_delays', d['kind'] + ('-empty' if d.get('v') == [] else ''))
    # ---- never fatal ----
    for run, label in ((faulty, 'faulty'), (clean, 'clean')):
        if run['fatal'] or run['stuck_workers'] or not run['finished']:
            ctx.fail('an infrastructure error left process_resource_event / stopped the worker', case,
                     observed={'run': label, 'fatal': run['fatal'], 'stuck': run['stuck_workers']}, sig='proc-fatal')
    # ---- containment: the other object's timeline is identical with and without the faults of `a` ----
    tl = lambda run: ([h for h in run['handled'] if h['name'] != 'a'], [q for q in run['requests'] if q['name'] != 'a'])
    if tl(faulty) != tl(clean):
        ctx.fail('errors of one object changed when another object was processed', case,
                 observed={'with_faults': tl(faulty), 'without': tl(clean)}, sig='not-contained')
    # ---- the pause of `a`: grows per consecutive error, reset by a success, processing recovers ----
    # a cycle of `a` = one call of process_resource_event: handler invocation (unless skipped) + its PATCH attempts
    hs = [h for h in faulty['handled'] if h['name'] == 'a']
    qs = [q for q in faulty['requests'] if q['name'] == 'a']
    k = 0
    pause_until = None
    errors_seen = 0
    for c in faulty['cycles']:
        if c['name'] != 'a' or c['handled_at'] is None:
            continue
        if pause_until is not None and c['handled_at'] < pause_until:
            ctx.fail('the erroring object was processed during its error pause', case,
                     observed={'handled_at': c['handled_at'], 'paused_until': pause_until, 'k': k}, sig='ran-while-paused')
        if pause_until is not None and c['handled_at'] > max(pause_until, c['t_in']):
            ctx.fail('the erroring object was held back longer than its error pause', case,
                     observed={'handled_at': c['handled_at'], 'paused_until': pause_until, 'event_at': c['t_in'], 'k': k}, sig='paused-too-long')
        if not c['requests']:
            continue
        if c['requests'][-1]['fault'] != 'ok':
            errors_seen += 1
            want = delay_at(d, k)
            pause_until = c['requests'][-1]['t'] + (want or 0)
            k += 1
        else:
            k = 0
            pause_until = None
    if errors_seen:
        ctx.nontriv(['proc', case])
    ctx.count('proc_errors', str(min(errors_seen, 6)))
    # recovery: the latest event of `a` is handled, and at the latest when the pause it fell into is over
    a_events = [t for t, n in case['events'] if n == 'a']
    if a_events:
        last_seq = max(i + 1 for i, (t, n) in enumerate(case['events']) if n == 'a')
        got = [h for h in hs if h['seq'] == last_seq]
        if not got:
            ctx.fail('the latest state of the erroring object was never processed after the errors stopped', case,
                     observed={'handled': hs[-3:], 'last_event': a_events[-1]}, sig='no-recovery')
    # the throttler after the last cycle mirrors the harness's own counter
    th = [x for x in faulty['throttler'] if x['name'] == 'a']
    if th and hs:
        lastq = [q for q in qs if q['t'] >= hs[-1]['t']]
        if lastq and lastq[-1]['fault'] == 'ok' and (th[-1]['until'] is not None or th[-1]['last'] is not None or th[-1]['has_source']):
            ctx.fail('a successful cycle did not reset the throttler', case, observed=th[-1], sig='no-reset')


# ======================================================================================
# main
# ======================================================================================

def load_corpus() -> list[dict]:
    out = []
    if CORPUS.is_dir():
        for p in sorted(CORPUS.glob('*.json')):
            out.append(json.loads(p.read_text()))
    return out


def run(ctx: fw.Ctx) -> int:
    ctx.matchers = {'F1202': match_f1202, 'F1203': match_f1203}
    ctx.proofs()
    ok, logtxt = fw.build_models(['Model/Retry.v', 'Model/Throttle.v', 'Model/Vault.v'])
    if not ok:
        ctx.correspondence_break('model build', logtxt[-1500:])
        return ctx.finish(RULE)
    r = ctx.rng
    corpus = load_corpus()

    # ---------------- api.request ----------------
    D_req: list[fw.Case] = []
    for c in corpus:
        if c.get('kind') == 'request':
            request_case(ctx, c['case'], D_req)
    for c in exhaustive_request_cases(ctx.scale(3, 5)):
        request_case(ctx, c, D_req)
    for _ in range(ctx.scale(3000, 40000)):
        c = gen_request_case(r)
        request_case(ctx, c, D_req)
        ctx.sample({'request': c}, limit=2)
    ctx.differential('request', HEADER, D_req, shard=250)
    seen_faults = sorted({tuple(f) for c in D_req for f in c.data['script']}, key=repr)
    ctx.differential('fault_class', HEADER, fault_class_cases(ctx, seen_faults), shard=250)

    # ---------------- @authenticated around api.request ----------------
    D_call: list[fw.Case] = []
    for _ in range(ctx.scale(600, 8000)):
        c = gen_call_case(r)
        call_case(ctx, c, D_call)
        ctx.sample({'call': c}, limit=3)
    ctx.differential('call', HEADER, D_call, shard=250)

    # ---------------- throttled ----------------
    D_thr: list[fw.Case] = []
    for c in corpus:
        if c.get('kind') == 'throttle':
            throttle_case(ctx, c['case'], D_thr)
    for _ in range(ctx.scale(1500, 20000)):
        c = gen_throttle_case(r)
        if r.random() < 0.3:
            c['esc'] = 'cancel'
        throttle_case(ctx, c, D_thr)
        ctx.sample({'throttle': c}, limit=4)
    ctx.differential('throttle', HEADER, D_thr, shard=200)

    # ---------------- Vault / authenticated / authenticator ----------------
    T_vault: list[fw.Case] = []
    for c in corpus:
        if c.get('kind') == 'vault':
            vault_case(ctx, c['case'], T_vault)
    for c in burst_cases() + expiry_cases():
        vault_case(ctx, c, T_vault)
    for _ in range(ctx.scale(800, 8000)):
        c = gen_vault_case(r)
        vault_case(ctx, c, T_vault)
        ctx.sample({'vault': c}, limit=5)
    ctx.differential('vault_trace', HEADER, T_vault, shard=100)

    # ---------------- process_resource_event, two objects ----------------
    D_proc: list[fw.Case] = []
    for c in corpus:
        if c.get('kind') == 'proc':
            proc_case(ctx, c['case'], D_proc)
    for _ in range(ctx.scale(300, 2500)):
        c = gen_proc_case(r)
        proc_case(ctx, c, D_proc)
        ctx.sample({'proc': c}, limit=6)
    ctx.differential('proc', HEADER, D_proc, shard=100)

    return ctx.finish(RULE, level_note=['aiohttp / SSL internals are replaced by a fault-scripted fake session'])


def replay(ctx: fw.Ctx, body: dict) -> bool:
    """Re-run one recorded case on the current kopf; True iff the property (still) fails on it.
    Known-finding matchers are switched off: a replay answers for the input, not for the verdict."""
    ctx.matchers = {}
    ctx.findings = []
    case = body.get('case') or {}
    if 'requesters' in case:
        vault_case(ctx, case, [])
    elif 'events' in case:
        proc_case(ctx, case)
    elif 'eps' in case:
        throttle_case(ctx, case, [])
    elif 'lat' in case:
        call_case(ctx, case, [])
    elif 'script' in case:
        request_case(ctx, case, [])
    else:
        fw.log('replay: the file names no failing input (a broken proof / correspondence only)')
        return False
    return bool(ctx.failures)
