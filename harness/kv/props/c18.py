"""C18 — admission responses faithfully reflect handler outcomes and requested mutations.

Layers (DESIGN.md §8 C18):
  proof        coq/Props/C18.v over Model/{Admission,MergeDsl,JsonPatch}.v
  D-ties       select / response / dsl+law through the real serve_admission_request with a registry built by the
               real decorators; direct ties on Patch._apply_patch / as_json_patch, build_response, JSON pointers
  monitors     the property text evaluated on what the implementation did (call log + response), with the harness's own
               RFC 7386 / RFC 6902 evaluators and the jsonpatch library as independent references
"""
from __future__ import annotations

import asyncio
import base64
import copy
import itertools
import json
import logging
import os
import pathlib
import types
from typing import Any

from kv import canon, coqio as cq, framework as fw, gen as g

RULE = ('cases = admission scenarios (reviewed object x merge-style patch content built through the real Patch API by scripted '
        'handlers x transformation fns x handler set registered with the real decorators x outcomes x operation x subresource x '
        'hints), plus direct (body, patch, fns) cases, outcome tables and the single-handler selection table; non-trivial iff the '
        'patch changes the reviewed object and >= 1 handler is selected; distinct by (object, patch content, fns, outcomes) after '
        'canonicalisation')

HEADER = fw.STD_HEADER + 'From KV Require Import Base.Dicts Model.JsonPatch Model.MergeDsl Model.Admission.\n'

CORPUS = pathlib.Path(__file__).resolve().parents[3] / 'corpus' / 'C18'

SPECIAL_KEYS = ['p/q', 't~l', '~0', '~1', 'a~1b', '/', '~', 'ü ñ', ' sp ace ', '日本', '', '0', '-', 'a/b/c~d~0', '~~//', 'x"y', 'ключ']
PLAIN_KEYS = ['a', 'b', 'c', 'field', 'sub', 'items', 'n', 'value', 'x.y']
OPERATIONS = ['CREATE', 'UPDATE', 'DELETE', 'CONNECT']
# realistic annotation/label keys: their '/' (escaped "~1" in JSON pointers) falls at every alignment of the serialised patch
REAL_KEYS = ['helm.sh/chart', 'meta.helm.sh/release-name', 'kopf.zalando.org/last-handled-configuration', 'app.kubernetes.io/name',
             'kubectl.kubernetes.io/last-applied-configuration', 'example.com/owner~team']
WIRE_VALUES = ['what?', '>=1.2.3', '~x', 'a?b>c~d', 'x>y', '??', 'ok', 'chart-1.2.3', '->', 'q?']


def _foreign_errors() -> list[dict]:
    """Exceptions that are NOT admission errors but carry what an AdmissionError carries: a `code` (int, numeric str, symbolic
    str, 0, None, bool) and a `message`; subclasses of PermanentError/TemporaryError with a code; kopf's own K8s API errors
    as the client builds them from a response; HTTP errors of urllib / aiohttp."""
    out: list[dict] = []
    for code in (404, 403, 0, None, '409', 'E_QUOTA', True, 200):
        out.append({'cls': 'codeexc', 'args': ['lookup failed'], 'attrs': {'code': code, 'message': 'not yours'}})
    for code in (422, 0, 'Invalid'):
        out.append({'cls': 'permcode', 'args': ['bad spec'], 'attrs': {'code': code}})
        out.append({'cls': 'tempcode', 'args': [], 'attrs': {'code': code, 'message': 'later'}})
    out.append({'cls': 'apinotfound', 'status': 404,
                'payload': {'kind': 'Status', 'code': 404, 'reason': 'NotFound', 'message': 'configmaps "limits" not found'}})
    out.append({'cls': 'apiforbidden', 'status': 403,
                'payload': {'kind': 'Status', 'code': 403, 'reason': 'Forbidden', 'message': 'pods is forbidden'}})
    out.append({'cls': 'apiconflict', 'status': 409, 'payload': {'kind': 'Status', 'code': 409, 'message': 'conflict'}})
    out.append({'cls': 'apiforbidden', 'status': 403, 'payload': 'plain text from a proxy'})
    out.append({'cls': 'apiserver', 'status': 503, 'payload': None})
    out.append({'cls': 'httperror', 'attrs': {'code': 404, 'message': 'Not Found'}})
    out.append({'cls': 'aiohttp', 'attrs': {'code': 403, 'message': 'Forbidden'}})
    return out


FOREIGN_ERRORS = _foreign_errors()


def wire_patches() -> list[tuple[str, dict, dict]]:
    """(name, object, patch content): '~' and '/' in keys, '?', '>', '~' in values, after a padding key/value prefix of length
    0..2, so that each of them falls at each of the three alignments of the serialised (then base64-encoded) patch."""
    out: list[tuple[str, dict, dict]] = []
    for pad in range(3):
        px = 'x' * pad
        out.append((f'wire-key-tilde-{pad}', {'spec': {}}, {'spec': {px + '~k': 1}}))
        out.append((f'wire-key-slash-{pad}', {'spec': {}}, {'spec': {px + '/k': 1}}))
        out.append((f'wire-key-replace-{pad}', {'spec': {px + 'a/b~c': 0}}, {'spec': {px + 'a/b~c': 1}}))
        out.append((f'wire-key-remove-{pad}', {'spec': {px + '~/': 0, 'keep': 1}}, {'spec': {px + '~/': None}}))
        for name, ch in (('question', '?'), ('greater', '>'), ('tilde', '~')):
            out.append((f'wire-value-{name}-{pad}', {'spec': {}}, {'spec': {'v': px + ch}}))
            out.append((f'wire-list-{name}-{pad}', {'spec': {'l': []}}, {'spec': {'l': [px + ch + ch, {'k': ch}]}}))
    for k in REAL_KEYS:
        out.append((f'wire-annotation-{k}', {'metadata': {'name': 'n'}}, {'metadata': {'annotations': {k: 'v'}}}))
        out.append((f'wire-label-{k}', {'metadata': {'labels': {'app': 'a'}}}, {'metadata': {'labels': {k: 'what?'}}}))
    out.append(('wire-last-handled', {'metadata': {'annotations': {}}},
                {'metadata': {'annotations': {'kopf.zalando.org/last-handled-configuration': '{"spec":{"q":"a?b>c"}}\n'}}}))
    return out


def _wire_ops() -> list[list[dict]]:
    out = []
    for pad in range(3):
        px = 'x' * pad
        out += [[{'op': 'add', 'path': f'/spec/{px}~0k', 'value': 1}], [{'op': 'add', 'path': f'/spec/{px}a~1b', 'value': px + '?'}],
                [{'op': 'replace', 'path': f'/metadata/annotations/{px}helm.sh~1chart', 'value': px + '>=1'}],
                [{'op': 'remove', 'path': f'/spec/{px}~1'}, {'op': 'add', 'path': '/spec/v', 'value': [px + '~', {'q': '??>'}]}]]
    return out


WIRE_OPS = _wire_ops()
MISSING = object()


# =====================================================================================================
# Real kopf, driven from outside
# =====================================================================================================

class K:
    """Lazily imported kopf objects (the check imports kopf from $KOPF_REPO)."""
    ready = False

    @classmethod
    def load(cls) -> None:
        if cls.ready:
            return
        import kopf
        from kopf._cogs.configs.configuration import OperatorSettings
        from kopf._cogs.structs import bodies, patches
        from kopf._cogs.structs.references import Insights, Resource
        from kopf._core.actions import execution
        from kopf._core.engines import admission
        from kopf._core.engines.indexing import OperatorIndexers
        from kopf._core.intents import causes, registries
        from kopf._core.reactor.inventory import ResourceMemories
        import jsonpatch
        import jsonpointer
        logging.disable(logging.CRITICAL)
        cls.kopf, cls.OperatorSettings, cls.bodies, cls.patches = kopf, OperatorSettings, bodies, patches
        cls.Insights, cls.Resource, cls.execution, cls.admission = Insights, Resource, execution, admission
        cls.OperatorIndexers, cls.causes, cls.registries, cls.ResourceMemories = OperatorIndexers, causes, registries, ResourceMemories
        cls.jsonpatch, cls.jsonpointer = jsonpatch, jsonpointer
        cls.resource = Resource('kopf.dev', 'v1', 'kopfexamples', kind='KopfExample')

        class MyAdmission(admission.AdmissionError):
            pass

        class Both(execution.TemporaryError, execution.PermanentError):
            pass

        # exceptions of OTHER classes which carry the attributes an AdmissionError has (code, message)
        class CodeCarrier(Exception):
            pass

        class PermWithCode(execution.PermanentError):
            pass

        class TempWithCode(execution.TemporaryError):
            pass

        from kopf._cogs.clients import errors as api_errors
        cls.api_errors = api_errors
        cls.exc_classes = {
            'adm': admission.AdmissionError, 'admsub': MyAdmission, 'perm': execution.PermanentError,
            'timeout': execution.HandlerTimeoutError, 'temp': execution.TemporaryError, 'both': Both,
            'value': ValueError, 'key': KeyError, 'exc': Exception, 'runtime': RuntimeError,
            'codeexc': CodeCarrier, 'permcode': PermWithCode, 'tempcode': TempWithCode,
            'apinotfound': api_errors.APINotFoundError, 'apiforbidden': api_errors.APIForbiddenError,
            'apiconflict': api_errors.APIConflictError, 'apiserver': api_errors.APIServerError,
        }
        # observation point: the third-party diff function as kopf's patches module calls it
        cls.diff_calls: list[tuple[Any, Any]] = []
        cls.diff_results: list[list[dict]] = []
        real = jsonpatch.JsonPatch.from_diff

        class _JP:
            @staticmethod
            def from_diff(src: Any, dst: Any, *a: Any, **kw: Any) -> Any:
                cls.diff_calls.append((copy.deepcopy(src), copy.deepcopy(dst)))
                res = real(src, dst, *a, **kw)
                cls.diff_results.append(copy.deepcopy(list(res.patch)))
                return res

        # observation point: the outcomes dict as serve_admission_request gets it from execute_handlers_once
        cls.outcome_calls: list[list[tuple[str, Any]]] = []
        if not hasattr(admission, 'execution') or not hasattr(admission.execution, 'execute_handlers_once'):
            raise RuntimeError('observation point missing: admission.execution.execute_handlers_once')
        real_exec = admission.execution.execute_handlers_once

        async def recording_exec(*a: Any, **kw: Any) -> Any:
            outs = await real_exec(*a, **kw)
            cls.outcome_calls.append([(str(k), v.exception) for k, v in outs.items()])
            return outs

        admission.execution.execute_handlers_once = recording_exec
        if not hasattr(patches, 'jsonpatch'):
            raise RuntimeError('observation point missing: kopf._cogs.structs.patches.jsonpatch')
        shim = types.SimpleNamespace(**{k: getattr(jsonpatch, k) for k in dir(jsonpatch) if not k.startswith('__')})
        shim.JsonPatch = _JP
        patches.jsonpatch = shim
        cls.ready = True


def make_exc(spec: dict) -> BaseException:
    cls = K.exc_classes.get(spec['cls'])
    args = spec.get('args', [])
    if spec['cls'] in ('adm', 'admsub'):
        kw = {}
        if 'code' in spec:
            kw['code'] = spec['code']
        return cls(*args, **kw)
    if spec['cls'].startswith('api'):          # kopf's own K8s API errors, as the client builds them from a response
        return cls(spec.get('payload'), status=spec.get('status', 500), headers={})
    if spec['cls'] == 'httperror':
        import urllib.error
        return urllib.error.HTTPError('http://k8s/api', spec['attrs']['code'], spec['attrs'].get('message', ''), {}, None)  # type: ignore[arg-type]
    if spec['cls'] == 'aiohttp':
        import aiohttp
        import yarl
        ri = aiohttp.RequestInfo(url=yarl.URL('http://k8s/api'), method='GET', headers={}, real_url=yarl.URL('http://k8s/api'))  # type: ignore[arg-type]
        return aiohttp.ClientResponseError(ri, (), status=spec['attrs']['code'], message=str(spec['attrs'].get('message', '')))
    e = cls(*args)
    for k, v in (spec.get('attrs') or {}).items():
        setattr(e, k, v)
    return e


def herror_of(e: BaseException) -> dict:
    """What build_response can see of an exception object (Python's str/repr/isinstance are the oracles)."""
    import warnings
    with warnings.catch_warnings():
        warnings.simplefilter('ignore')
        code = getattr(e, 'code', None)     # supplied for EVERY class: whether it counts is decided by the class alone
    return {'adm': isinstance(e, K.admission.AdmissionError), 'perm': isinstance(e, K.execution.PermanentError),
            'temp': isinstance(e, K.execution.TemporaryError), 'str': str(e), 'repr': repr(e),
            'code': code if isinstance(code, int) and not isinstance(code, bool) else None}


# ---- scripted transformation functions (patch.fns); twin of Model/MergeDsl.v run_fnop ----

def fn_apply(body: Any, op: list) -> None:
    kind, path = op[0], list(op[1])
    if not path:
        return
    if kind == 'set':
        d = body
        for k in path[:-1]:            # feasibility first: nothing is changed when a non-mapping is in the way
            if not isinstance(d, dict):
                return
            if k not in d:
                d = {}
                break
            d = d[k]
        if not isinstance(d, dict):
            return
        d = body
        for k in path[:-1]:
            if k not in d:
                d[k] = {}
            d = d[k]
        d[path[-1]] = copy.deepcopy(op[2])
        return
    d = body
    for k in path[:-1]:
        if not isinstance(d, dict) or k not in d:
            return
        d = d[k]
    if not isinstance(d, dict):
        return
    if kind == 'del':
        d.pop(path[-1], None)
    elif kind == 'append':
        if isinstance(d.get(path[-1]), list):
            d[path[-1]].append(copy.deepcopy(op[2]))
    else:
        raise ValueError(kind)


def make_fn(op: list) -> Any:
    return lambda body: fn_apply(body, op)


def c_fnop(op: list) -> str:
    if op[0] == 'set':
        return f'(FSet {cq.cpath(op[1])} {canon.cj(op[2])})'
    if op[0] == 'del':
        return f'(FDel {cq.cpath(op[1])})'
    return f'(FAppend {cq.cpath(op[1])} {canon.cj(op[2])})'


def c_fns(fnops: list) -> str:
    return f'(map run_fnop {cq.clist(c_fnop(o) for o in fnops)})'


# ---- how scripted handlers write into the shared Patch object (the real Patch API) ----

def patch_write(patch: Any, op: list) -> None:
    try:
        if op[0] == 'item':
            patch[op[1]] = copy.deepcopy(op[2])
        elif op[0] == 'view':
            getattr(patch, op[1])[op[2]] = copy.deepcopy(op[3])
        elif op[0] == 'label':
            patch.metadata.labels[op[1]] = op[2]
        elif op[0] == 'ann':
            patch.metadata.annotations[op[1]] = op[2]
        elif op[0] == 'deep':
            d = patch
            for k in op[1][:-1]:
                d = d.setdefault(k, {})
                if not isinstance(d, dict):
                    return
            d[op[1][-1]] = copy.deepcopy(op[2])
        else:
            raise ValueError(op[0])
    except TypeError:
        pass   # e.g. a view over a key that an earlier op set to a scalar: the write is dropped by the script


def write_path(op: list) -> list[str]:
    """The path a scripted write addresses in the Patch (item: top-level key; views: below their root)."""
    return {'item': lambda: [op[1]], 'view': lambda: [op[1], op[2]], 'label': lambda: ['metadata', 'labels', op[1]],
            'ann': lambda: ['metadata', 'annotations', op[1]], 'deep': lambda: list(op[1])}[op[0]]()


def all_paths(*docs: Any, cap: int = 24) -> list[list[str]]:
    """Prefix-closed paths through the mappings of the given documents (deterministic order, capped)."""
    seen: list[list[str]] = []

    def walk(d: Any, path: list[str]) -> None:
        if path and path not in seen:
            seen.append(path)
        if isinstance(d, dict):
            for k, v in d.items():
                walk(v, path + [k])

    for d in docs:
        walk(d, [])
    return seen[:cap]


def classify_path(patch: Any, q: list[str]) -> str:
    """The harness's reading of what a merge-style content says about a path."""
    cur = patch
    for i, k in enumerate(q):
        if not isinstance(cur, dict):
            return 'below a deleted key' if cur is None else 'below a set value'
        if k not in cur:
            return 'untouched'
        cur = cur[k]
    return 'deleted' if cur is None else ('mapping node' if isinstance(cur, dict) else 'set')


def c_clauses(ctx: fw.Ctx, patch: Any, body: Any, result: Any) -> str:
    paths = all_paths(body, patch, result)
    for q in paths:
        ctx.count('clause_of_path', classify_path(patch, q))
    return (f'forallb (fun q => ojeqb (leaf_at {canon.cj(result)} q) (requested {canon.cj(patch)} {canon.cj(body)} q)) '
            f'{cq.clist(cq.cpath(q) for q in paths)}')


def mkrequest(sc: dict) -> dict:
    req: dict[str, Any] = {
        'uid': sc.get('uid', 'uid-1'),
        'resource': {'group': 'kopf.dev', 'version': 'v1', 'resource': 'kopfexamples'},
        'subResource': sc['sub'],
        'userInfo': {'username': 'user1', 'uid': 'useruid1', 'groups': ['group1']},
        'name': 'obj1', 'namespace': 'ns1',
        'object': copy.deepcopy(sc['object']), 'oldObject': copy.deepcopy(sc.get('old')),
        'dryRun': bool(sc.get('dryrun')),
    }
    if sc['op'] is not None:
        req['operation'] = sc['op']
    return {'apiVersion': 'admission.k8s.io/v1', 'kind': 'AdmissionReview', 'request': req}


def run_scenario(sc: dict) -> dict:
    """Run one admission review through the real serve_admission_request. Returns what was observed."""
    K.load()
    kopf = K.kopf
    registry = K.registries.OperatorRegistry()
    log: list[dict] = []
    holder: dict[str, Any] = {}

    def make_function(fi: int, script: dict) -> Any:
        async def fn(**kw: Any) -> None:
            entry: dict[str, Any] = {'h': kw.get('param'), 'fn': fi, 'warnings': [], 'exc': None, 'writes': []}
            log.append(entry)
            holder['patch'] = kw['patch']
            for w in script.get('warnings', []):
                kw['warnings'].append(w)
                entry['warnings'].append(w)
            for op in script.get('patch', []):
                patch_write(kw['patch'], op)
                entry['writes'].append([op[0], write_path(op), op[-1]])
            for op in script.get('fns', []):
                kw['patch'].fns.append(make_fn(op))
                holder.setdefault('fns', []).append(op)
            # the requested content as of now: as_json_patch puts the patch's own value objects into the body it mutates,
            # so a fn that changes a list in place also changes the Patch afterwards — snapshot before that happens
            holder['content'] = copy.deepcopy(dict(kw['patch']))
            if script.get('raise'):
                e = make_exc(script['raise'])
                entry['exc'] = e
                raise e
        fn.__name__ = fn.__qualname__ = f'fn{fi}'
        return fn

    functions = [make_function(i, s) for i, s in enumerate(sc['functions'])]
    for hi, h in enumerate(sc['handlers']):
        deco = kopf.on.mutate if h['kind'] == 'mutate' else kopf.on.validate
        kwargs: dict[str, Any] = dict(registry=registry, id=h['id'], param=hi)
        if h.get('field'):
            # h['id'] is the id as kopf forms it (generate_id: "<id>/<field>"): declare it without the suffix
            suffix = '/' + h['field']
            if not h['id'].endswith(suffix):
                raise ValueError(f"scenario: handler id {h['id']!r} must end with {suffix!r}")
            kwargs['id'] = h['id'][:-len(suffix)]
            kwargs['field'] = h['field']
            v = h.get('value')
            if v is not None:
                kwargs['value'] = (kopf.PRESENT if v['kind'] == 'present' else kopf.ABSENT if v['kind'] == 'absent' else
                                   (lambda eq: (lambda value, **_: value == eq))(v['eq']) if v['kind'] == 'callback' else v['v'])
        if h.get('operations') is not None:
            kwargs['operations'] = list(h['operations'])
        if h.get('subresource') is not None:
            kwargs['subresource'] = h['subresource']
        if h.get('when') is not None:
            flag = bool(h['when'])
            kwargs['when'] = (lambda flag: (lambda **_: flag))(flag)
        if h.get('labels'):
            kwargs['labels'] = dict(h['labels'])
        deco(h.get('resource', 'kopfexamples'), **kwargs)(functions[h['fn']])

    insights = K.Insights()
    insights.webhook_resources.add(K.resource)
    K.diff_calls.clear()
    K.diff_results.clear()
    K.outcome_calls.clear()
    reason = {None: None, 'validating': K.causes.WebhookType.VALIDATING, 'mutating': K.causes.WebhookType.MUTATING}[sc.get('reason')]
    coro = K.admission.serve_admission_request(
        mkrequest(sc), webhook=sc.get('webhook'), reason=reason,
        settings=K.OperatorSettings(), memories=K.ResourceMemories(), memobase=kopf.Memo(),
        registry=registry, insights=insights, indices=K.OperatorIndexers().indices)
    obs: dict[str, Any] = {'raised': None, 'response': None}
    loop = asyncio.new_event_loop()
    try:
        obs['response'] = loop.run_until_complete(coro)
    except (TypeError, KeyError, ValueError, AttributeError) as e:
        obs['raised'] = canon.classify_exc(e)
        obs['raised_text'] = f'{type(e).__name__}: {e}'
    finally:
        loop.close()
    obs['log'] = log
    obs['patch'] = holder.get('content', {})
    obs['fns'] = list(holder.get('fns', []))
    obs['diff_calls'] = list(K.diff_calls)
    obs['computed'] = list(K.diff_results[-1]) if K.diff_results else []   # what as_json_patch handed to build_response
    obs['outcomes'] = list(K.outcome_calls[-1]) if K.outcome_calls else None
    obs['writes'] = [w for e in log for w in e['writes']]
    receive(obs)
    return obs


# =====================================================================================================
# The harness's own reading of the property (monitors)
# =====================================================================================================

def prune(x: Any) -> Any:
    """Remove empty mappings bottom-up (inside mappings)."""
    if isinstance(x, dict):
        out = {}
        for k, v in x.items():
            pv = prune(v)
            if isinstance(pv, dict) and not pv:
                continue
            out[k] = pv
        return out
    return x


def strict_eq(a: Any, b: Any) -> bool:
    """JSON equality (True is not 1), order of keys irrelevant."""
    return json.dumps(a, sort_keys=True) == json.dumps(b, sort_keys=True)


def instruction_free(p: Any) -> bool:
    """A mapping node of the patch below which nothing is set or deleted ({} or nested {}s only)."""
    return isinstance(p, dict) and all(instruction_free(v) for v in p.values())


def dives(patch: Any, body: Any, need_instruction: bool) -> list[list[str]]:
    """Paths where a mapping-valued node of the patch lies over a non-mapping value of the body.
    need_instruction: only nodes below which the patch sets or deletes something."""
    out: list[list[str]] = []

    def walk(p: Any, b: Any, path: list[str]) -> None:
        if not isinstance(p, dict):
            return
        if b is not MISSING and not isinstance(b, dict):
            if not need_instruction or not instruction_free(p):
                out.append(path)
            return
        for k, v in p.items():
            walk(v, b.get(k, MISSING) if isinstance(b, dict) else MISSING, path + [k])

    walk(patch, body, [])
    return out


def _instructions(p: Any) -> Any:
    if not isinstance(p, dict):
        yield p
        return
    for v in p.values():
        yield from _instructions(v)


SPECIFICITY = [('adm', 0), ('perm', 1), ('temp', 2)]


def specificity(he: dict) -> int:
    for k, rank in SPECIFICITY:
        if he[k]:
            return rank
    return 9


def expected_status(errs: list[dict]) -> dict | None:
    """Most specific error, first among equals; message and code as the property says."""
    if not errs:
        return None
    best = min(range(len(errs)), key=lambda i: (specificity(errs[i]), i))
    e = errs[best]
    code = e['code'] if e['adm'] and e['code'] else 500
    return {'message': e['str'] or e['repr'], 'code': code}


def labels_match(flt: dict | None, obj: dict) -> bool:
    if not flt:
        return True
    labels = (obj.get('metadata') or {}).get('labels') or {}
    return all(labels.get(k) == v for k, v in flt.items())


FIELDS = ['spec.replicas', 'spec.paused', 'metadata.labels.app']


def field_matches(h: dict, obj: Any) -> bool:
    """field= / value= of a webhook handler, evaluated on the reviewed object ONLY (the object; the old object on DELETE,
    as kopf documents): None = the field exists; PRESENT / ABSENT; a callback on the value (None when absent); a literal."""
    if not h.get('field'):
        return True
    cur: Any = obj
    for k in h['field'].split('.'):
        if not isinstance(cur, dict) or k not in cur:
            cur = MISSING
            break
        cur = cur[k]
    v = h.get('value')
    if v is None or v['kind'] == 'present':
        return cur is not MISSING
    if v['kind'] == 'absent':
        return cur is MISSING
    if v['kind'] == 'callback':
        return (None if cur is MISSING else cur) == v['eq']
    return cur is not MISSING and strict_eq(cur, v['v'])


def set_field(obj: dict, field: str, val: Any) -> None:
    """Give the dotted field this value in the object (MISSING: remove it); parents are made mappings."""
    keys = field.split('.')
    d = obj
    for k in keys[:-1]:
        if not isinstance(d.get(k), dict):
            d[k] = {}
        d = d[k]
    if val is MISSING:
        d.pop(keys[-1], None)
    else:
        d[keys[-1]] = val


def text_allows(h: dict, sc: dict) -> dict:
    """Each clause of 'only handlers matching the webhook id, operation, subresource and filters run, mutating ones not
    on DELETE unless they opted in' for one declared handler."""
    ops = h.get('operations')
    body = sc['object'] if sc['object'] is not None else sc.get('old')
    return {
        'id': sc.get('webhook') is None or sc['webhook'] == h['id'],
        'reason': sc.get('reason') is None or sc['reason'] == {'mutate': 'mutating', 'validate': 'validating'}[h['kind']],
        'operation': ops is None or sc['op'] in ops,
        'subresource': h.get('subresource') == '*' or h.get('subresource') == sc['sub'],
        'filters': (h.get('when') is not False) and labels_match(h.get('labels'), body) and field_matches(h, body)
                   and h.get('resource', 'kopfexamples') == 'kopfexamples',
        'delete': h['kind'] != 'mutate' or sc['op'] != 'DELETE' or (ops is not None and 'DELETE' in ops),
    }


def extra_of(h: dict, sc: dict) -> bool:
    """The oracle boolean of the selection model: every criterion other than id/reason/operation/subresource."""
    body = sc['object'] if sc['object'] is not None else sc.get('old')
    return (h.get('when') is not False) and labels_match(h.get('labels'), body) and field_matches(h, body) \
        and h.get('resource', 'kopfexamples') == 'kopfexamples'


def monitor_scenario(ctx: fw.Ctx, sc: dict, obs: dict) -> None:
    case = {'kind': 'scenario', 'scenario': sc}
    log = obs['log']
    ran = [e['h'] for e in log]
    hs = sc['handlers']

    # ---- selection ----
    clauses = [text_allows(h, sc) for h in hs]
    for hi in ran:
        bad = [k for k, v in clauses[hi].items() if not v]
        if bad:
            ctx.fail('a handler ran although it does not match the review', {**case, 'handler': hi, 'ran': ran},
                     observed=ran, expected=f'handler {hi} fails clauses {bad}', sig='ran-unmatched:' + '+'.join(bad))
    ran_keys = {(hs[hi]['fn'], hs[hi]['id']) for hi in ran}
    for hi, h in enumerate(hs):
        must = all(clauses[hi].values()) and (h['kind'] != 'mutate' or sc['op'] != 'DELETE' or set(h.get('operations') or []) == {'DELETE'})
        # the same function registered twice under the same id is invoked once
        if must and (h['fn'], h['id']) not in ran_keys:
            ctx.fail('a matching handler did not run', {**case, 'handler': hi, 'ran': ran}, observed=ran, sig='matching-not-run')
    if len(ran) != len(set(ran)):
        ctx.fail('a handler ran twice in one review', {**case, 'ran': ran}, observed=ran, sig='ran-twice')

    # ---- patch fidelity (also when denied: the patch is part of the response) ----
    obj = sc['object'] if sc['object'] is not None else sc.get('old')
    pdict, fnops = obs['patch'], obs['fns']
    monitor_patch(ctx, case, obj, pdict, fnops, obs)
    if obs['raised'] is not None:
        return
    resp = obs['response']['response']

    # ---- allowed iff no selected handler raised ----
    errs = [herror_of(e['exc']) for e in log if e['exc'] is not None]
    if resp.get('allowed') is not (not errs):
        ctx.fail('allowed does not say whether a selected handler raised', {**case, 'ran': ran},
                 observed=resp.get('allowed'), expected=not errs, sig='allowed')
    # ---- most specific error ----
    exp = expected_status(errs)
    if resp.get('status') != exp:
        ctx.fail('reported message/code are not those of the most specific error', {**case, 'ran': ran},
                 observed=resp.get('status'), expected=exp, sig='status')
    # ---- warnings in order ----
    ws = [w for e in log for w in e['warnings']]
    if (resp.get('warnings') or []) != ws or ('warnings' in resp and not ws):
        ctx.fail('warnings are not returned in order', {**case, 'ran': ran}, observed=resp.get('warnings'), expected=ws, sig='warnings')
    if ('patch' in resp) != (resp.get('patchType') == 'JSONPatch'):
        ctx.fail('patch and patchType do not come together', case, observed={k: resp.get(k) for k in ('patch', 'patchType')}, sig='envelope')
    if obs['response'].get('kind') != 'AdmissionReview' or resp.get('uid') != sc.get('uid', 'uid-1'):
        ctx.fail('response envelope does not echo the request', case, observed=obs['response'], sig='envelope')


QUIRK = object()


def lib_apply(ctx: fw.Ctx, src: Any, ops: list[dict]) -> Any:
    """jsonpatch.apply_patch as the second RFC 6902 evaluator.  Known quirk of jsonpatch 1.33 (third party, not kopf): it
    refuses `replace`/`remove` on a MEMBER NAMED "-" of an object ("'path' with '-' can't be applied to ..."), although
    RFC 6901 gives "-" a special meaning for arrays only; from_diff itself emits such operations.  Those cases are
    evaluated by the harness evaluator and the Gallina apply_ops only, and counted."""
    try:
        return K.jsonpatch.apply_patch(copy.deepcopy(src), ops)
    except K.jsonpatch.InvalidJsonPatch as e:
        if "'path' with '-' can't be applied" in str(e) and any(o['path'].endswith('/-') and o['op'] in ('replace', 'remove') for o in ops):
            ctx.count('jsonpatch_library', 'dash-member quirk (library evaluator skipped)')
            return QUIRK
        raise


def strict_decode(text: Any) -> tuple[bool, Any]:
    """response.patch as kube-apiserver reads it: a []byte JSON field, i.e. STANDARD base64, strict (characters of the
    URL-safe alphabet, missing or wrong padding are errors), then a JSON document that is a list of operations."""
    if not isinstance(text, str):
        return False, f'not a string: {text!r}'
    try:
        raw = base64.b64decode(text.encode('ascii'), validate=True)
        ops = json.loads(raw.decode('utf-8'))
    except (ValueError, UnicodeError) as e:       # binascii.Error and JSONDecodeError are ValueErrors
        return False, f'{type(e).__name__}: {e}'
    if not isinstance(ops, list) or not all(isinstance(o, dict) and 'op' in o and 'path' in o for o in ops):
        return False, f'not a list of operations: {ops!r}'
    return True, ops


def receive(obs: dict) -> None:
    """obs['wire'] in absent|ok|undecodable, obs['ops'] = the operations the API server ends up with (None if it cannot)."""
    resp = obs.get('response')
    r = resp['response'] if resp else {}
    if 'patch' not in r:
        obs['wire'], obs['ops'], obs['text'] = 'absent', [], None
        return
    ok, val = strict_decode(r['patch'])
    obs['text'] = r['patch']
    obs['wire'], obs['ops'] = ('ok', val) if ok else ('undecodable', None)
    if not ok:
        obs['wire_error'] = val


def wire_stats(ctx: fw.Ctx, ops: list[dict]) -> None:
    """Would the two base64 alphabets differ on this patch?  (evidence that the cases discriminate)"""
    if not ops:
        ctx.count('wire', 'no patch')
        return
    raw = json.dumps(ops).encode('utf-8')
    std = base64.b64encode(raw)
    ctx.count('wire', 'standard base64 has + or /' if (b'+' in std or b'/' in std) else 'alphabet-neutral')
    for off, byte in enumerate(raw):
        if byte in b'~>?':
            ctx.count('wire_alignment', f'{chr(byte)} at offset%3={off % 3}')


def c_wire(obs_text: Any, wire: str, received: Any, model_r: str, computed: list[dict]) -> str:
    """The round-trip law on the real response: strict decoding of the real text (supplied as the decoder oracle, the real
    text as the encoder oracle) gives exactly the operations the model's response carries."""
    text_t = cq.cstr(obs_text) if isinstance(obs_text, str) else 'EmptyString'
    dec_t = f'(Some {c_ops(received)})' if wire == 'ok' else 'None'
    return (f'ojops_eqb (received_patch (fun _ => {text_t}) (fun s => if String.eqb s {text_t} then {dec_t} else None) {model_r}) '
            f'(Some {c_ops(computed)}) && Bool.eqb (match r_patch {model_r} with Some _ => true | None => false end) {cq.cbool(wire != "absent")}')


def apply_fns(body: Any, fnops: list) -> Any:
    b = copy.deepcopy(body)
    for op in fnops:
        fn_apply(b, op)
    return b


def own_apply(obj: Any, ops: list[dict]) -> tuple[bool, Any]:
    """The harness's RFC 6902 evaluator; (False, None) when the operations do not apply."""
    try:
        return True, canon.apply6902(obj, ops)
    except (canon.PatchInvalid, canon.PatchTestFailed, IndexError, ValueError, KeyError, TypeError):
        return False, None


def monitor_patch(ctx: fw.Ctx, case: dict, obj: Any, pdict: Any, fnops: list, obs: dict) -> None:
    """The returned JSON patch, applied to the reviewed object, yields the object with the requested field changes
    and transformations applied, up to the presence of empty mappings."""
    if obs['raised'] is not None:
        ctx.fail('no response: building the JSON patch raised', {**case, 'patch': pdict, 'object': obj},
                 observed=obs.get('raised_text'), sig='patch-raised:' + obs['raised'])
        return
    full = {**case, 'patch': pdict, 'object': obj, 'fns': fnops}
    if obs.get('wire') == 'undecodable':
        ctx.fail('the API server cannot decode response.patch (strict standard base64, then JSON): the mutations are lost',
                 {**full, 'text': obs.get('text')}, observed=obs.get('text'), expected=obs.get('wire_error'), sig='patch-undecodable')
        return
    ops = obs['ops']
    if 'computed' in obs and not strict_eq(ops, obs['computed']):
        ctx.fail('response.patch does not carry the operations computed for it', {**full, 'text': obs.get('text')},
                 observed=ops, expected=obs['computed'], sig='patch-garbled')
        return
    ok_own, by_own = own_apply(obj, ops)
    dst = obs.get('dst', MISSING)
    if dst is not MISSING and (not ok_own or not strict_eq(by_own, dst)):
        # the law assumed of the third-party diff: apply(from_diff(a, b), a) == b
        ctx.fail('the operations computed by jsonpatch.from_diff do not rebuild the mutated object', {**full, 'dst': dst, 'ops': ops},
                 observed=by_own if ok_own else 'operations do not apply', expected=dst, sig='from-diff-law')
        return
    if not ok_own:
        ctx.fail('the returned JSON patch does not apply to the reviewed object (own RFC 6902 evaluator)', full,
                 observed=ops, sig='patch-inapplicable')
        return
    try:
        by_lib = lib_apply(ctx, obj, ops)
    except Exception as e:  # noqa
        ctx.fail('the returned JSON patch does not apply to the reviewed object (jsonpatch library)', full,
                 observed=f'{type(e).__name__}: {e}', sig='patch-inapplicable')
        return
    if by_lib is not QUIRK and not strict_eq(by_lib, by_own):
        ctx.fail('RFC 6902 evaluators disagree on the returned patch', {**case, 'ops': ops, 'object': obj},
                 observed=by_lib, expected=by_own, sig='evaluators-disagree')
        return
    want = apply_fns(canon.merge7386(obj, pdict), fnops)
    if not strict_eq(prune(by_own), prune(want)):
        ctx.fail('the returned JSON patch does not produce the requested changes', full,
                 observed=prune(by_own), expected=prune(want), sig='fidelity')


def c_law(ops: list[dict], obj: Any) -> fw.Case:
    """Gallina apply_ops against the harness evaluator on the same operations (also when they do not apply)."""
    ok, val = own_apply(obj, ops)
    t = f'apply_ops {c_ops(ops)} {canon.cj(obj)}'
    term = f'match {t} with Some r => jeqb r {canon.cj(val)} | None => false end' if ok else f'match {t} with Some _ => false | None => true end'
    return fw.Case(term, {'kind': 'law', 'src': obj, 'ops': ops, 'applies': ok}, diag=t)


# ---- signatures of the recorded genuine defects (narrow) ----

def _case_patch_object(f: dict) -> tuple[Any, Any] | None:
    c = f['case']
    if 'patch' in c and 'object' in c:
        return c['patch'], c['object']
    return None


def match_f18d(f: dict) -> bool:
    """from_diff law violated; reproducible by calling the library directly on (object, mutated object); kopf's mutated
    object itself is the requested one; and the difference involves a list (an operation addresses a list index)."""
    if f['sig'] != 'from-diff-law':
        return False
    K.load()
    c = f['case']
    obj, dst, ops = c['object'], c['dst'], c['ops']
    want = apply_fns(canon.merge7386(obj, c['patch']), c.get('fns', []))
    if not strict_eq(prune(dst), prune(want)):
        return False
    again = K.jsonpatch.JsonPatch.from_diff(copy.deepcopy(obj), copy.deepcopy(dst)).patch
    ok, val = own_apply(obj, again)
    if ok and strict_eq(val, dst):
        return False
    return any(seg.isdigit() for o in ops for seg in (o['path'] + '/' + o.get('from', '')).split('/'))


def _dup_explained(f: dict) -> tuple[bool, list[dict]]:
    """Two invoked handlers share an id; returns the errors that survive 'last outcome per id wins'."""
    sc, ran = f['case'].get('scenario'), f['case'].get('ran')
    if not sc or ran is None:
        return False, []
    ids = [sc['handlers'][hi]['id'] for hi in ran]
    if len(ids) == len(set(ids)):
        return False, []
    last: dict[str, dict | None] = {}
    for hi in ran:
        h = sc['handlers'][hi]
        spec = sc['functions'][h['fn']].get('raise')
        last[h['id']] = herror_of(make_exc(spec)) if spec else None
    return True, [e for e in last.values() if e is not None]


def match_f18a(f: dict) -> bool:
    """allowed/status wrong, two invoked handlers share an id, and the observation is exactly what results
    when only the last outcome per id counts."""
    if f['sig'] not in ('allowed', 'status'):
        return False
    K.load()
    dup, errs = _dup_explained(f)
    if not dup:
        return False
    if f['sig'] == 'allowed':
        return f['observed'] is (not errs)
    return f['observed'] == expected_status(errs)


def match_f18b(f: dict) -> bool:
    """A handler ran whose declared operations do not include the review's operation; every other clause holds."""
    return f['sig'] == 'ran-unmatched:operation'


# =====================================================================================================
# Coq terms
# =====================================================================================================

def c_ostr(s: str | None) -> str:
    return 'None' if s is None else f'(Some {cq.cstr(s)})'


def c_herror(he: dict) -> str:
    code = 'None' if he['code'] is None else f'(Some {cq.cZ(he["code"])})'
    return (f'{{| e_adm := {cq.cbool(he["adm"])}; e_perm := {cq.cbool(he["perm"])}; e_temp := {cq.cbool(he["temp"])}; '
            f'e_str := {cq.cstr(he["str"])}; e_repr := {cq.cstr(he["repr"])}; e_code := {code} |}}')


def c_handler(h: dict, extra: bool) -> str:
    ops = 'None' if h.get('operations') is None else f'(Some {cq.clist(cq.cstr(o) for o in h["operations"])})'
    return (f'{{| h_id := {cq.cstr(h["id"])}; h_fn := {cq.cnat(h["fn"])}; h_mutating := {cq.cbool(h["kind"] == "mutate")}; '
            f'h_ops := {ops}; h_sub := {c_ostr(h.get("subresource"))}; h_extra := {cq.cbool(extra)} |}}')


def c_cause(sc: dict) -> str:
    reason = {None: 'None', 'validating': '(Some false)', 'mutating': '(Some true)'}[sc.get('reason')]
    return (f'{{| c_webhook := {c_ostr(sc.get("webhook"))}; c_reason := {reason}; c_op := {c_ostr(sc["op"])}; '
            f'c_sub := {c_ostr(sc["sub"])} |}}')


def c_op(op: dict) -> str:
    kind = op['op']
    if kind == 'add':
        return f'(OAdd {cq.cstr(op["path"])} {canon.cj(op["value"])})'
    if kind == 'replace':
        return f'(OReplace {cq.cstr(op["path"])} {canon.cj(op["value"])})'
    if kind == 'test':
        return f'(OTest {cq.cstr(op["path"])} {canon.cj(op["value"])})'
    if kind == 'remove':
        return f'(ORemove {cq.cstr(op["path"])})'
    if kind == 'move':
        return f'(OMove {cq.cstr(op["from"])} {cq.cstr(op["path"])})'
    if kind == 'copy':
        return f'(OCopy {cq.cstr(op["from"])} {cq.cstr(op["path"])})'
    raise cq.Unencodable(kind)


def c_ops(ops: list[dict]) -> str:
    return cq.clist(c_op(o) for o in ops)


def c_run(sc: dict) -> str:
    """The handler oracle of the model: warnings and exception per function (what the scripts do)."""
    arms = []
    for fi, s in enumerate(sc['functions']):
        exc = f'(Some {c_herror(herror_of(make_exc(s["raise"])))})' if s.get('raise') else 'None'
        arms.append(f'| {fi}%nat => ({cq.clist(cq.cstr(w) for w in s.get("warnings", []))}, {exc})')
    return '(fun h => match h_fn h with ' + ' '.join(arms) + ' | _ => (nil, None) end)'


def c_status(st: dict | None) -> str:
    if st is None:
        return 'None'
    code = st.get('code')
    if isinstance(code, bool) or not isinstance(code, int):
        code = -987654321      # not an integer at all: cannot agree with the model
    return f'(Some ({cq.cstr(st["message"])}, {cq.cZ(code)}))'


# =====================================================================================================
# Generators
# =====================================================================================================

class Gen18:
    def __init__(self, ctx: fw.Ctx) -> None:
        self.r = ctx.rng
        self.G = g.Gen(ctx.rng)

    def key(self) -> str:
        r = self.r
        return r.choice(SPECIAL_KEYS) if r.random() < 0.3 else r.choice(PLAIN_KEYS)

    def leaf(self) -> Any:
        r = self.r
        x = r.random()
        if x < 0.12:
            return r.choice(WIRE_VALUES)
        if x < 0.6:
            v = self.G.scalar()
            while v is None:
                v = self.G.scalar()
            return v
        if x < 0.8:
            return [self.G.json(1) for _ in range(r.choice([0, 1, 2, 3]))]
        return [r.choice([{'name': 'c1', 'v': None}, {}, None, 1, 'x', {'a': {'b': 1}}]) for _ in range(r.choice([1, 2]))]

    def subobj(self, depth: int) -> Any:
        r = self.r
        if depth <= 0 or r.random() < 0.35:
            return self.leaf() if r.random() < 0.9 else None
        return {self.key(): self.subobj(depth - 1) for _ in range(r.choice([0, 1, 2, 3]))}

    def body(self) -> dict:
        r = self.r
        b = self.G.body()
        spec = b.get('spec')
        if isinstance(spec, dict):
            for _ in range(r.choice([0, 1, 2, 3])):
                spec[self.key()] = self.subobj(3)
        if r.random() < 0.3:
            b.setdefault('metadata', {}).setdefault('labels', {})[r.choice(['app', 'p/q', 't~l'])] = r.choice(['v', 'w'])
        if r.random() < 0.3:
            b['status'] = {self.key(): self.subobj(2) for _ in range(r.choice([1, 2]))}
        return b

    def patch_for(self, target: Any, depth: int, conflict: float, top: bool = False) -> dict:
        """Merge-style content aimed mostly at what exists in `target`: set, overwrite, delete, nested merge,
        type changes at the leaf; rarely a dive through a non-mapping (conflict) or an empty mapping."""
        r = self.r
        out: dict[str, Any] = {}
        existing = list(target.keys()) if isinstance(target, dict) else []
        for _ in range(r.choice([1, 1, 2, 3])):
            if existing and r.random() < 0.7:
                k = r.choice(existing)
            elif top:
                k = r.choice(['spec', 'status', 'metadata', 'spec', 'data', self.key()])
            else:
                k = self.key()
            cur = target.get(k, MISSING) if isinstance(target, dict) else MISSING
            x = r.random()
            if x < 0.2:
                out[k] = None
            elif x < 0.6 and depth > 0:
                if isinstance(cur, dict) or cur is MISSING:
                    out[k] = self.patch_for(cur if isinstance(cur, dict) else {}, depth - 1, conflict)
                elif r.random() < conflict * 6:
                    out[k] = self.patch_for({}, depth - 1, conflict) if r.random() < 0.8 else {}
                else:
                    out[k] = self.leaf()
            elif x < 0.63:
                out[k] = {}
            else:
                out[k] = self.leaf()
        return out

    def fnops(self, body: dict, patch: dict) -> list:
        r = self.r
        out = []
        merged = canon.merge7386(body, patch)
        for _ in range(r.choice([0, 1, 1, 2])):
            path = self.some_path(merged)
            kind = r.choice(['set', 'set', 'del', 'append'])
            if kind == 'set':
                out.append(['set', path + ([self.key()] if r.random() < 0.5 else []) or ['x'], self.subobj(1) if r.random() < 0.3 else self.leaf()])
            elif kind == 'del':
                out.append(['del', path or ['x']])
            else:
                out.append(['append', path or ['items'], self.G.scalar()])
        return out

    def some_path(self, obj: Any) -> list[str]:
        r = self.r
        path: list[str] = []
        cur = obj
        while isinstance(cur, dict) and cur and r.random() < 0.75:
            k = r.choice(list(cur.keys()))
            path.append(k)
            cur = cur[k]
        return path

    def exc_spec(self) -> dict:
        r = self.r
        if r.random() < 0.3:
            return r.choice(FOREIGN_ERRORS)
        cls = r.choice(['adm', 'adm', 'adm', 'admsub', 'perm', 'perm', 'timeout', 'temp', 'temp', 'both', 'value', 'key', 'exc', 'runtime'])
        msgs = ['no way', '', 'Ошибка: нельзя', 'quote " and \\ back', 'denied: spec.field is immutable', 'x']
        spec: dict[str, Any] = {'cls': cls}
        k = r.random()
        if cls in ('adm', 'admsub'):
            if k < 0.15:
                spec['args'] = []
            elif k < 0.25:
                spec['args'] = [None]
            else:
                spec['args'] = [r.choice(msgs)]
            if r.random() < 0.75:
                spec['code'] = r.choice([None, 0, 400, 403, 409, 422, 500, 999, -1])
        else:
            spec['args'] = [] if k < 0.25 else [r.choice(msgs)]
        return spec

    def writes_for(self, patch: dict) -> list[list]:
        """Real Patch API calls which together build `patch` (top-level assignment, views, label/annotation views)."""
        r = self.r
        ops: list[list] = []
        for k, v in patch.items():
            if k in ('spec', 'status', 'metadata') and isinstance(v, dict) and v and r.random() < 0.7:
                for k2, v2 in v.items():
                    if k == 'metadata' and k2 in ('labels', 'annotations') and isinstance(v2, dict) and v2 and r.random() < 0.8:
                        for k3, v3 in v2.items():
                            ops.append(['label' if k2 == 'labels' else 'ann', k3, v3])
                    else:
                        ops.append(['view', k, k2, v2])
            elif isinstance(v, dict) and v and r.random() < 0.3:
                for k2, v2 in v.items():
                    ops.append(['deep', [k, k2], v2])
            else:
                ops.append(['item', k, v])
        return ops

    def scenario(self, conflict: float = 0.05) -> dict:
        r = self.r
        op = r.choice(OPERATIONS + ['CREATE', 'UPDATE', 'DELETE'])
        sub = r.choice([None, None, None, 'status', 'scale'])
        body = self.body()
        old = None
        if op in ('UPDATE', 'DELETE', 'CONNECT') and r.random() < 0.9:
            old = copy.deepcopy(body)
            if isinstance(old.get('spec'), dict) and r.random() < 0.7:
                old['spec'][self.key()] = self.leaf()
        flt_field = r.choice(FIELDS) if r.random() < 0.45 else None
        if flt_field:
            vals: list[Any] = [0, 3, MISSING] if 'labels' not in flt_field else ['v', 'w', MISSING]
            new_v = r.choice(vals)
            set_field(body, flt_field, new_v)
            if old is not None:
                set_field(old, flt_field, r.choice([x for x in vals if x is not new_v]) if r.random() < 0.85 else new_v)
        obj: Any = body
        if op == 'DELETE' and r.random() < 0.7 and old is not None:
            obj = None     # the API server sends no new object on deletion
        ref = obj if obj is not None else old
        nfn = r.choice([1, 2, 2, 3, 3, 4])
        patch = self.patch_for(ref, 3, conflict, top=True) if r.random() < 0.85 else {}
        if r.random() < 0.25 and isinstance(patch.get('metadata', {}), dict):      # realistic annotation / label keys
            which = r.choice(['annotations', 'labels'])
            md = patch.setdefault('metadata', {})
            if isinstance(md.get(which, {}), dict):
                md.setdefault(which, {})[r.choice(REAL_KEYS)] = r.choice(WIRE_VALUES + [None])
        writes = self.writes_for(patch)
        fnops = self.fnops(ref, patch) if r.random() < 0.6 else []
        functions: list[dict] = [{'warnings': [], 'patch': [], 'fns': [], 'raise': None} for _ in range(nfn)]
        handlers: list[dict] = []
        ids = ['check', 'fn0', 'mod.validate', 'mutate/spec.x', 'a' * 30]
        for fi in range(nfn):
            for _ in range(r.choice([1, 1, 1, 2])):
                kind = r.choice(['validate', 'mutate', 'mutate'])
                h: dict[str, Any] = {'id': r.choice(ids) if r.random() < 0.35 else f'fn{fi}', 'fn': fi, 'kind': kind}
                x = r.random()
                if x < 0.5:
                    h['operations'] = None
                elif x < 0.65:
                    h['operations'] = [op] if op else ['CREATE']
                elif x < 0.8:
                    h['operations'] = ['DELETE']
                else:
                    h['operations'] = r.choice([['CREATE'], ['UPDATE'], ['CREATE', 'UPDATE'], ['UPDATE', 'DELETE'], ['CONNECT'], ['DELETE', 'DELETE']])
                h['subresource'] = r.choice([sub, sub, sub, sub, '*', None, 'status'])
                h['when'] = r.choice([None, None, None, None, True, True, False])
                if r.random() < 0.15:
                    h['labels'] = {'app': r.choice(['v', 'w'])}
                if r.random() < 0.05:
                    h['resource'] = 'otherthings'
                if flt_field and r.random() < 0.6:
                    vals2: list[Any] = [0, 3] if 'labels' not in flt_field else ['v', 'w']
                    h['field'] = flt_field
                    h['value'] = r.choice([None, {'kind': 'present'}, {'kind': 'absent'}, {'kind': 'literal', 'v': r.choice(vals2)},
                                           {'kind': 'literal', 'v': r.choice(vals2)}, {'kind': 'callback', 'eq': r.choice(vals2 + [None])}])
                    h['id'] = h['id'] + '/' + flt_field
                handlers.append(h)
        r.shuffle(handlers)
        mut_fns = sorted({h['fn'] for h in handlers if h['kind'] == 'mutate'}) or list(range(nfn))
        for w in writes:
            functions[r.choice(mut_fns if r.random() < 0.9 else list(range(nfn)))]['patch'].append(w)
        for f in fnops:
            functions[r.choice(mut_fns)]['fns'].append(f)
        for fi in range(nfn):
            if r.random() < 0.35:
                functions[fi]['raise'] = self.exc_spec()
            if r.random() < 0.4:
                functions[fi]['warnings'] = [r.choice(['deprecated field', 'w2', 'предупреждение', '']) + f'#{fi}.{j}' for j in range(r.choice([1, 2]))]
        x = r.random()
        webhook = None if x < 0.75 else (r.choice(handlers)['id'] if x < 0.97 else 'no-such-handler')
        reason = r.choice([None, None, None, None, None, None, 'validating', 'mutating'])
        return {'op': op, 'sub': sub, 'webhook': webhook, 'reason': reason, 'object': obj, 'old': old,
                'dryrun': r.random() < 0.2, 'uid': r.choice(['uid-1', '', 'a-b-c']),
                'functions': functions, 'handlers': handlers}


def corpus_scenarios() -> list[tuple[str, dict]]:
    """Hand-seeded dangerous cases: built in, plus corpus/C18/*.json (kind: scenario)."""
    base = {'op': 'CREATE', 'sub': None, 'webhook': None, 'reason': None, 'old': None, 'dryrun': False, 'uid': 'uid-1'}

    def fnspec(**kw: Any) -> dict:
        return {'warnings': [], 'patch': [], 'fns': [], 'raise': None, **kw}

    def hnd(i: int, kind: str, **kw: Any) -> dict:
        return {'id': f'fn{i}', 'fn': i, 'kind': kind, 'operations': None, 'subresource': None, 'when': None, **kw}

    out = [
        ('regress-F4-list-delete', {**base, 'object': {'spec': {'a': [1, 2]}},
                            'functions': [fnspec(patch=[['view', 'spec', 'a', {'b': None}]])], 'handlers': [hnd(0, 'mutate')]}),
        ('regress-F4-null', {**base, 'object': {'spec': None},
                     'functions': [fnspec(patch=[['view', 'spec', 'x', 1]])], 'handlers': [hnd(0, 'mutate')]}),
        ('special-keys', {**base, 'object': {'spec': {'p/q': 1, 't~l': {'~0': 1, '~1': 2}, '': 0, 'ü ñ': 'x'}},
                          'functions': [fnspec(patch=[['item', 'spec', {'p/q': None, 't~l': {'~0': 2, '/': 3}, '': 'e', 'a/b/c~d~0': [1]}]])],
                          'handlers': [hnd(0, 'mutate')]}),
        ('emptied-parents', {**base, 'object': {'spec': {'a': {'b': {'c': 1}}, 'k': 1}},
                             'functions': [fnspec(patch=[['item', 'spec', {'a': {'b': {'c': None}, 'z': {'y': None}}}]])],
                             'handlers': [hnd(0, 'mutate')]}),
        ('fns-only', {**base, 'object': {'spec': {'containers': [{'name': 'c'}]}},
                      'functions': [fnspec(fns=[['append', ['spec', 'containers'], 'sidecar'], ['set', ['metadata', 'labels', 'x'], 'y']])],
                      'handlers': [hnd(0, 'mutate')]}),
        ('mutate-on-delete', {**base, 'op': 'DELETE', 'object': None, 'old': {'spec': {'a': 1}},
                              'functions': [fnspec(patch=[['view', 'spec', 'a', 2]]), fnspec(patch=[['view', 'spec', 'b', 3]])],
                              'handlers': [hnd(0, 'mutate'), hnd(1, 'mutate', operations=['DELETE'])]}),
        ('ranks', {**base, 'object': {'spec': {}},
                   'functions': [fnspec(**{'raise': {'cls': 'value', 'args': ['v']}}), fnspec(**{'raise': {'cls': 'temp', 'args': ['t']}}),
                                 fnspec(**{'raise': {'cls': 'perm', 'args': []}}), fnspec(**{'raise': {'cls': 'adm', 'args': [''], 'code': 0}}),
                                 fnspec(**{'raise': {'cls': 'admsub', 'args': ['second'], 'code': 403}})],
                   'handlers': [hnd(i, 'validate') for i in range(5)]}),
    ]
    if CORPUS.is_dir():
        for p in sorted(CORPUS.glob('*.json')):
            d = json.loads(p.read_text())
            if d.get('kind') == 'scenario':
                out.append((p.stem, d['scenario']))
    return out


# =====================================================================================================
# The check
# =====================================================================================================

def scenario_cases(ctx: fw.Ctx, sc: dict, D: dict[str, list[fw.Case]], tag: str = '') -> None:
    obs = run_scenario(sc)
    if obs['diff_calls']:
        obs['dst'] = obs['diff_calls'][-1][1]
    wire_stats(ctx, obs['computed'])
    data = {'kind': 'scenario', 'scenario': sc}
    obj = sc['object'] if sc['object'] is not None else sc.get('old')
    ran = [e['h'] for e in obs['log']]
    pdict, fnops = obs['patch'], obs['fns']

    # statistics
    ctx.count('operation', str(sc['op']))
    ctx.count('subresource', str(sc['sub']))
    ctx.count('handlers_selected', str(len(ran)))
    for h in sc['handlers']:
        ctx.count('handler_filters', ('field+' + ('none' if h.get('value') is None else h['value']['kind'])) if h.get('field') else 'no field filter')
    ctx.count('outcome', 'raised:' + obs['raised'] if obs['raised'] else ('allowed' if obs['response']['response']['allowed'] else 'denied'))
    for e in obs['log']:
        ctx.count('handler_outcome', 'ok' if e['exc'] is None else ['admission', 'permanent', 'temporary'][specificity(herror_of(e['exc']))]
                  if specificity(herror_of(e['exc'])) < 3 else 'other')
    ctx.count('patch_paths', str(min(8, sum(1 for _ in _instructions(pdict)))) if pdict else '0')
    ctx.count('fns', str(len(fnops)))
    changes = False
    if obs['raised'] is None and obs['computed']:
        changes = True
    if changes and ran:
        ctx.nontriv([obj, pdict, fnops, [(e['h'], repr(e['exc'])) for e in obs['log']]])
    ctx.sample({'op': sc['op'], 'sub': sc['sub'], 'object': obj, 'patch': pdict, 'fns': fnops, 'ran': ran,
                'response': obs['response']['response'] if obs['response'] else obs.get('raised_text')})

    # monitors (property text on the implementation's behaviour)
    monitor_scenario(ctx, sc, obs)

    # ---- D: selection ----
    hs_term = cq.clist(c_handler(h, extra_of(h, sc)) for h in sc['handlers'])
    cause = c_cause(sc)
    ran_keys = cq.clist(cq.cpair(cq.cnat(sc['handlers'][hi]['fn']), cq.cstr(sc['handlers'][hi]['id'])) for hi in ran)
    sel = f'(map (fun h => (h_fn h, h_id h)) (select_webhooks {cause} {hs_term}))'
    D['select'].append(fw.Case(f'list_eqb key_eqb {sel} {ran_keys}', {**data, 'ran': ran}, diag=sel))
    try:
        body_t, patch_t, fns_t = canon.cj(obj), canon.cj(pdict), c_fns(fnops)
        ops_t = c_ops(obs['computed'])          # the from_diff oracle of the model: what the real from_diff returned
        wire_t = None if obs['raised'] is not None else c_wire(obs['text'], obs['wire'], obs['ops'], 'r', obs['computed'])
    except cq.Unencodable:
        ctx.count('skipped', 'unencodable')
        return
    # ---- D: body_to_be (through the recorded argument of from_diff) and the diff law ----
    calls = obs['diff_calls']
    if obs['raised'] is not None:
        D['dsl'].append(fw.Case(f'res_eqb jeqb (body_to_be {patch_t} {fns_t} {body_t}) {canon.cres(obs["raised"])}',
                                {**data, 'patch': pdict, 'raised': obs['raised']}, diag=f'body_to_be {patch_t} {fns_t} {body_t}'))
    elif not calls:
        D['dsl'].append(fw.Case(f'patch_is_empty {patch_t} && is_nil {fns_t}', {**data, 'patch': pdict, 'note': 'from_diff not called'}))
    else:
        src, dst = calls[-1]
        if not strict_eq(src, obj):
            ctx.correspondence_break('D:dsl', {'detail': 'from_diff was not given the reviewed object as the source', 'case': data})
        try:
            dst_t = canon.cj(dst)
            D['dsl'].append(fw.Case(f'res_eqb jeqb (body_to_be {patch_t} {fns_t} {body_t}) (Ok {dst_t})',
                                    {**data, 'patch': pdict, 'fns': fnops, 'dst': dst}, diag=f'body_to_be {patch_t} {fns_t} {body_t}'))
            D['law'].append(c_law(obs['ops'] if obs['ops'] is not None else obs['computed'], obj))
        except cq.Unencodable:
            ctx.count('skipped', 'unencodable')
    # ---- D: the outcomes dict (collect_outcomes and its specification effective_outcomes) ----
    if obs['outcomes'] is None:
        ctx.correspondence_break('D:outcomes', {'detail': 'execute_handlers_once was not called', 'case': data})
    else:
        outs_t = cq.clist(cq.cpair(cq.cstr(i), 'None' if e is None else f'(Some {c_herror(herror_of(e))})') for i, e in obs['outcomes'])
        sel_t = f'(select_webhooks {cause} {hs_term})'
        D['outcomes'].append(fw.Case(f'outcomes_eqb (collect_outcomes {c_run(sc)} {sel_t}) {outs_t} && '
                                     f'outcomes_eqb (effective_outcomes {c_run(sc)} {sel_t}) {outs_t}',
                                     {**data, 'outcomes': [(i, repr(e)) for i, e in obs['outcomes']]},
                                     diag=f'collect_outcomes {c_run(sc)} {sel_t}'))
        ids = [i for i, _ in obs['outcomes']]
        ran_ids = [sc['handlers'][hi]['id'] for hi in ran]
        ctx.count('outcome_ids', 'a shared id among the invoked' if len(set(ran_ids)) < len(ran_ids) else 'distinct ids')
    # ---- D: how the writes of the handlers fill the Patch (content_of) ----
    try:
        ws_t = cq.clist(cq.cpair(cq.cpath(w[1]), canon.cj(w[2])) for w in obs['writes'])
        D['content'].append(fw.Case(f'jeqb (content_of {ws_t}) {patch_t}', {**data, 'writes': obs['writes'], 'content': pdict},
                                    diag=f'content_of {ws_t}'))
        for w in obs['writes']:
            ctx.count('patch_write', w[0])
    except cq.Unencodable:
        ctx.count('skipped', 'unencodable')
    # ---- D: every path of the object after the received patch, against `requested` (no fns in play) ----
    if obs['raised'] is None and obs['wire'] != 'undecodable' and not fnops and pdict:
        ok_own, after = own_apply(obj, obs['ops'])
        if ok_own:
            try:
                D['clauses'].append(fw.Case(c_clauses(ctx, pdict, obj, after), {**data, 'patch': pdict, 'after': after}))
            except cq.Unencodable:
                ctx.count('skipped', 'unencodable')
    # ---- D: the whole response ----
    serve = f'(serve (fun _ _ => {ops_t}) {cq.cstr(sc.get("uid", "uid-1"))} {cause} {hs_term} {c_run(sc)} {patch_t} {fns_t} {body_t})'
    if obs['raised'] is not None:
        term = f'res_eqb (fun _ _ => true) {serve} {canon.cres(obs["raised"])}'
    else:
        resp = obs['response']['response']
        ws = 'None' if 'warnings' not in resp else f'(Some {cq.clist(cq.cstr(w) for w in resp["warnings"])})'
        pt = 'false' if 'patch' not in resp else 'true'
        term = (f'match {serve} with Ok r => String.eqb (r_uid r) {cq.cstr(resp.get("uid", ""))} && Bool.eqb (r_allowed r) {cq.cbool(resp["allowed"])} '
                f'&& ostrs_eqb (r_warnings r) {ws} && status_eqb (r_status r) {c_status(resp.get("status"))} '
                f'&& Bool.eqb (match r_patch r with Some _ => true | None => false end) {pt} '
                f'&& Bool.eqb {cq.cbool(resp.get("patchType") == "JSONPatch")} {pt} | _ => false end')
    diag = (f'match {serve} with Ok r => Some (r_allowed r, r_warnings r, r_status r) | _ => None end')
    D['response'].append(fw.Case(term, {**data, 'response': obs['response'], 'raised': obs['raised']}, diag=diag))
    # ---- D: the wire law on this response: strict standard decoding of the real text = the operations of the model ----
    if wire_t is not None:
        D['wire'].append(fw.Case(f'match {serve} with Ok r => {wire_t} | _ => false end',
                                 {**data, 'text': obs['text'], 'wire': obs['wire'], 'computed': obs['computed']},
                                 diag=f'match {serve} with Ok r => r_patch r | _ => None end'))


def dive_cases() -> list[tuple[str, dict, dict]]:
    """Systematic non-mapping-under-mapping cases (the repaired F4/F18c): a str/int/bool/list/null at depth 1..3 of the
    object, a mapping of the patch over it that is empty / deletes / sets / mixes."""
    out = []
    kinds = {'str': 'text', 'int': 5, 'bool': True, 'list': [1, {'x': 2}], 'null': None}
    leaves = {'empty': {}, 'none': {'x': None}, 'set': {'x': 1}, 'mixed': {'x': None, 'y': {'z': 's'}, 'w': []}}
    keys = ['spec', 'a', 'b/~']
    for d in (1, 2, 3):
        for kn, kv in kinds.items():
            for ln, lv in leaves.items():
                body: Any = copy.deepcopy(kv)
                patch: Any = copy.deepcopy(lv)
                for k in reversed(keys[:d]):
                    body = {k: body, 'keep': 1}
                    patch = {k: patch}
                out.append((f'dive-{d}-{kn}-{ln}', body, patch))
    return out


def direct_patch_cases(ctx: fw.Ctx, G: Gen18, n: int, D: dict[str, list[fw.Case]]) -> None:
    """Patch._apply_patch and Patch.as_json_patch called directly on (body, patch content, fns)."""
    K.load()
    r = ctx.rng
    for name, body, patch in dive_cases():
        direct_case(ctx, D, body, patch, [])
    for i in range(n):
        body = G.body()
        if r.random() < 0.3:
            body = G.subobj(3)
            if not isinstance(body, dict):
                body = {'spec': body}
        patch = G.patch_for(body, 3, 0.05, top=r.random() < 0.5) if r.random() < 0.93 else {}
        fnops = G.fnops(body, patch) if r.random() < 0.3 else []
        direct_case(ctx, D, body, patch, fnops)


def direct_case(ctx: fw.Ctx, D: dict[str, list[fw.Case]], body: dict, patch: dict, fnops: list) -> None:
    if True:
        data = {'kind': 'patch', 'object': body, 'patch': patch, 'fns': fnops}
        try:
            body_t, patch_t, fns_t = canon.cj(body), canon.cj(patch), c_fns(fnops)
        except cq.Unencodable:
            return
        # _apply_patch
        p = K.patches.Patch(copy.deepcopy(patch))
        b2 = copy.deepcopy(body)
        kind, _ = canon.run_res(lambda: p._apply_patch(b2, (), dict(p)))
        exp = canon.cres(kind, canon.cj(b2) if kind == 'ok' else None)
        # the real result against the model, and (spec side) against the RFC 7386 merge up to empty mappings
        spec = f' && jeqb (prune {canon.cj(b2)}) (prune (merge {body_t} {patch_t}))' if kind == 'ok' else ''
        D['apply'].append(fw.Case(f'res_eqb jeqb (apply_dsl {patch_t} {body_t}) {exp}{spec}', {**data, 'outcome': kind, 'result': b2 if kind == 'ok' else None},
                                  diag=f'apply_dsl {patch_t} {body_t}'))
        ctx.count('apply_dsl', kind)
        dv = dives(patch, body, need_instruction=False)
        ctx.count('mapping_over_non_mapping', 'none' if not dv else f'depth {min(3, min(len(x) for x in dv))}')
        if kind == 'ok':
            D['clauses'].append(fw.Case(c_clauses(ctx, patch, body, b2), {**data, 'result': b2}))
        # as_json_patch
        p = K.patches.Patch(copy.deepcopy(patch), body=K.bodies.Body(copy.deepcopy(body)), fns=[make_fn(o) for o in fnops])
        K.diff_calls.clear()
        kind, ops = canon.run_res(lambda: p.as_json_patch())
        obs = {'raised': None if kind == 'ok' else kind, 'raised_text': kind, 'ops': ops}
        if K.diff_calls:
            obs['dst'] = K.diff_calls[-1][1]
        monitor_patch(ctx, data, body, patch, fnops, obs)
        if kind != 'ok':
            D['asjp'].append(fw.Case(f'res_eqb jeqb (body_to_be {patch_t} {fns_t} {body_t}) {canon.cres(kind)}', {**data, 'outcome': kind}))
            return
        if ops and (patch or fnops):
            ctx.nontriv([body, patch, fnops])
        if not K.diff_calls:
            D['asjp'].append(fw.Case(f'patch_is_empty {patch_t} && is_nil {fns_t}', {**data, 'note': 'from_diff not called'}))
            return
        src, dst = K.diff_calls[-1]
        try:
            dst_t, ops_t = canon.cj(dst), c_ops(ops)
        except cq.Unencodable:
            return
        D['asjp'].append(fw.Case(
            f'res_eqb (list_eqb (fun _ _ => true)) (as_json_patch (fun _ _ => {ops_t}) {patch_t} {fns_t} {body_t}) (Ok {ops_t}) && '
            f'res_eqb jeqb (body_to_be {patch_t} {fns_t} {body_t}) (Ok {dst_t})',
            {**data, 'dst': dst, 'ops': ops}, diag=f'body_to_be {patch_t} {fns_t} {body_t}'))
        D['law'].append(c_law(ops, body))
        for o in ops:
            ctx.count('json_patch_op', o['op'])


def response_cases(ctx: fw.Ctx, G: Gen18, n: int, D: dict[str, list[fw.Case]], exhaustive_k: int) -> None:
    """admission.build_response called directly on outcome tables."""
    K.load()
    r = ctx.rng
    Outcome = K.execution.Outcome
    kinds = [None, {'cls': 'adm', 'args': ['A'], 'code': 403}, {'cls': 'perm', 'args': ['P']}, {'cls': 'temp', 'args': ['T']}, {'cls': 'value', 'args': ['O']}]
    tables: list[list[dict | None]] = []
    for k in range(0, exhaustive_k + 1):        # all combinations of the 5 outcome kinds for <= k handlers
        for combo in itertools.product(range(5), repeat=k):
            tables.append([None if c == 0 else {**kinds[c], 'args': [f'{kinds[c]["args"][0]}{i}']} for i, c in enumerate(combo)])
    adm = {'cls': 'adm', 'args': ['denied'], 'code': 403}
    for fe in FOREIGN_ERRORS:
        tables += [[fe], [fe, adm], [adm, fe], [None, fe, {'cls': 'value', 'args': ['v']}], [{'cls': 'temp', 'args': ['t']}, fe]]
    n_exh = len(tables)
    for _ in range(n):
        tables.append([G.exc_spec() if r.random() < 0.6 else None for _ in range(r.choice([0, 1, 2, 3, 4, 5, 6]))])
    for ti, specs in enumerate(tables):
        excs = [make_exc(s) if s else None for s in specs]
        outs = {f'h{i}': Outcome(final=not isinstance(e, K.execution.TemporaryError), exception=e) for i, e in enumerate(excs)}
        warns = [f'w{j}' for j in range(r.choice([0, 0, 1, 2]))]
        ops = r.choice([[], [], [{'op': 'add', 'path': '/spec/x', 'value': 1}], WIRE_OPS[ti % len(WIRE_OPS)], WIRE_OPS[ti % len(WIRE_OPS)]])
        uid = r.choice(['u1', ''])
        req: dict[str, Any] = {'request': {'uid': uid}} if r.random() < 0.9 else {}
        resp = K.admission.build_response(request=req, outcomes=outs, warnings=warns, jsonpatch=ops)['response']
        errs = [herror_of(e) for e in excs if e is not None]
        data = {'kind': 'response', 'outcomes': specs, 'warnings': warns, 'ops': ops}
        # monitors
        if resp.get('allowed') is not (not errs):
            ctx.fail('allowed does not say whether a handler raised', data, observed=resp.get('allowed'), expected=not errs, sig='allowed')
        if resp.get('status') != expected_status(errs):
            ctx.fail('reported message/code are not those of the most specific error', data, observed=resp.get('status'),
                     expected=expected_status(errs), sig='status')
        if (resp.get('warnings') or []) != warns:
            ctx.fail('warnings are not returned in order', data, observed=resp.get('warnings'), expected=warns, sig='warnings')
        o: dict[str, Any] = {'response': {'response': resp}}
        receive(o)
        wire_stats(ctx, ops)
        if o['wire'] == 'undecodable':
            ctx.fail('the API server cannot decode response.patch (strict standard base64, then JSON): the mutations are lost',
                     {**data, 'text': o['text']}, observed=o['text'], expected=o.get('wire_error'), sig='patch-undecodable')
        elif not strict_eq(o['ops'], ops):
            ctx.fail('the response does not carry the JSON patch', data, observed=o['ops'], sig='patch-dropped')
        outs_t = cq.clist(cq.cpair(cq.cstr(f'h{i}'), f'(Some {c_herror(herror_of(e))})' if e is not None else 'None') for i, e in enumerate(excs))
        ws = 'None' if 'warnings' not in resp else f'(Some {cq.clist(cq.cstr(w) for w in resp["warnings"])})'
        br = f'(build_response {cq.cstr(uid if req else "")} {outs_t} {cq.clist(cq.cstr(w) for w in warns)} {c_ops(ops)})'
        term = (f'let r := {br} in String.eqb (r_uid r) {cq.cstr(resp.get("uid", ""))} && Bool.eqb (r_allowed r) {cq.cbool(resp["allowed"])} '
                f'&& ostrs_eqb (r_warnings r) {ws} && status_eqb (r_status r) {c_status(resp.get("status"))} '
                f'&& Bool.eqb (match r_patch r with Some _ => true | None => false end) {cq.cbool("patch" in resp)} '
                f'&& {c_wire(o["text"], o["wire"], o["ops"], "r", ops)}')
        D['build'].append(fw.Case(term, {**data, 'response': resp}, diag=f'let r := {br} in (r_allowed r, r_warnings r, r_status r)'))
        ctx.count('outcome_table', 'exhaustive' if ti < n_exh else 'random')
        for sp, e in zip(specs, excs):
            if e is not None and not isinstance(e, K.admission.AdmissionError) and hasattr(e, 'code'):
                ctx.count('foreign_code', f'{sp["cls"]}: {type(getattr(e, "code")).__name__}')
        ctx.count('errors_in_table', str(len(errs)))


def selection_table(ctx: fw.Ctx, D: dict[str, list[fw.Case]], stride: int) -> None:
    """WebhooksRegistry.get_handlers on a real registry with ONE handler: the whole decision table
    (stride > 1: every stride-th row, rotating with the seed)."""
    K.load()
    kopf = K.kopf
    rows = list(itertools.product(
        ['validate', 'mutate'], [None, ['CREATE'], ['DELETE'], ['UPDATE', 'DELETE'], ['DELETE', 'DELETE']], [None, '*', 'status'],
        [True, False], ['CREATE', 'UPDATE', 'DELETE', 'CONNECT', None], [None, 'status', 'scale'],
        [None, 'validating', 'mutating'], [None, 'h', 'other']))
    chosen = set(range(len(rows))) if stride <= 1 else set(ctx.rng.sample(range(len(rows)), len(rows) // stride))
    for ri, (kind, ops, hsub, when, op, sub, reason, webhook) in enumerate(rows):
        if ri not in chosen:
            continue
        sc = {'op': op, 'sub': sub, 'webhook': webhook, 'reason': reason, 'object': {'spec': {}}, 'old': None,
              'functions': [{}], 'handlers': [{'id': 'h', 'fn': 0, 'kind': kind, 'operations': ops, 'subresource': hsub, 'when': when}]}
        obs = run_scenario(sc)
        ran = [e['h'] for e in obs['log']]
        monitor_scenario(ctx, sc, obs)  # (empty patch: from_diff is not called)
        hs_term = cq.clist([c_handler(sc['handlers'][0], when)])
        term = f'Nat.eqb (List.length (select_webhooks {c_cause(sc)} {hs_term})) {cq.cnat(len(ran))}'
        D['seltable'].append(fw.Case(term, {'kind': 'scenario', 'scenario': sc, 'ran': ran}))
        ctx.count('selection_table', 'selected' if ran else 'not selected')


def field_table(ctx: fw.Ctx, D: dict[str, list[fw.Case]]) -> None:
    """One handler with field= (+ value=: none, literal, PRESENT, ABSENT, callback) against CREATE / UPDATE / DELETE reviews whose
    object and old object carry every combination of {0, 3, absent} in that field."""
    vals: list[Any] = [0, 3, MISSING]
    specs = [None, {'kind': 'literal', 'v': 0}, {'kind': 'literal', 'v': 3}, {'kind': 'present'}, {'kind': 'absent'},
             {'kind': 'callback', 'eq': 0}, {'kind': 'callback', 'eq': None}]
    for vs in specs:
        for op in ('CREATE', 'UPDATE', 'DELETE'):
            for new_v in vals:
                for old_v in (vals if op != 'CREATE' else [None]):
                    if op == 'DELETE' and new_v is not vals[0]:
                        continue            # no new object on deletion: only the old one varies
                    obj: Any = {'spec': {'keep': 1}}
                    set_field(obj, 'spec.replicas', new_v)
                    old: Any = None
                    if op != 'CREATE':
                        old = {'spec': {'keep': 1}}
                        set_field(old, 'spec.replicas', old_v)
                    sc = {'op': op, 'sub': None, 'webhook': None, 'reason': None, 'object': None if op == 'DELETE' else obj, 'old': old,
                          'dryrun': False, 'uid': 'uid-1',
                          'functions': [{'warnings': ['w'], 'patch': [], 'fns': [], 'raise': {'cls': 'adm', 'args': ['filtered in'], 'code': 403}}],
                          'handlers': [{'id': 'h/spec.replicas', 'fn': 0, 'kind': 'validate', 'operations': None, 'subresource': None,
                                        'when': None, 'field': 'spec.replicas', 'value': vs}]}
                    ctx.count('field_filter', f'{"field only" if vs is None else vs["kind"]} on {op}')
                    scenario_cases(ctx, sc, D)


def pointer_cases(ctx: fw.Ctx, G: Gen18, n: int, D: dict[str, list[fw.Case]]) -> None:
    """RFC 6901 reference tokens: the spec's escaping/parsing against the jsonpointer library."""
    K.load()
    r = ctx.rng
    alphabet = ['~', '/', '0', '1', 'a', ' ', 'ü', '~0', '~1', '~01', '/~', '日']
    for i in range(n):
        keys = [''.join(r.choice(alphabet) for _ in range(r.choice([0, 1, 2, 3, 5]))) if r.random() < 0.7 else r.choice(SPECIAL_KEYS)
                for _ in range(r.choice([0, 1, 2, 3]))]
        text = K.jsonpointer.JsonPointer.from_parts(keys).path
        parts = K.jsonpointer.JsonPointer(text).parts
        if parts != keys:
            ctx.correspondence_break('oracle:jsonpointer', {'keys': keys, 'text': text, 'parts': parts})
        D['pointer'].append(fw.Case(
            f'String.eqb (jp_render {cq.cpath(keys)}) {cq.cstr(text)} && '
            f'opt_eqb (list_eqb String.eqb) (jp_parse {cq.cstr(text)}) (Some {cq.cpath(parts)})', {'kind': 'pointer', 'keys': keys, 'text': text},
            diag=f'(jp_render {cq.cpath(keys)}, jp_parse {cq.cstr(text)})'))
        # arbitrary texts, also invalid ones
        raw = ''.join(r.choice(['/', '~', '0', '1', '2', 'a']) for _ in range(r.choice([0, 1, 2, 4, 6])))
        try:
            got: list[str] | None = K.jsonpointer.JsonPointer(raw).parts
        except K.jsonpointer.JsonPointerException:
            got = None
        exp = 'None' if got is None else f'(Some {cq.cpath(got)})'
        D['pointer'].append(fw.Case(f'opt_eqb (list_eqb String.eqb) (jp_parse {cq.cstr(raw)}) {exp}', {'kind': 'pointer', 'text': raw, 'parts': got},
                                    diag=f'jp_parse {cq.cstr(raw)}'))


def run(ctx: fw.Ctx) -> int:
    ctx.matchers = {'F18a': match_f18a, 'F18b': match_f18b, 'F18d': match_f18d}   # F4, F18c: fixed by 1b39531, nothing is suppressed
    ctx.proofs()
    ok, logtxt = fw.build_models(['Model/JsonPatch.v', 'Model/MergeDsl.v', 'Model/Admission.v'])
    if not ok:
        ctx.correspondence_break('model build', logtxt[-1500:])
        return ctx.finish(RULE)
    K.load()
    G = Gen18(ctx)
    D: dict[str, list[fw.Case]] = {k: [] for k in ('select', 'outcomes', 'content', 'response', 'wire', 'dsl', 'law', 'apply', 'clauses', 'asjp', 'build', 'seltable', 'pointer')}

    for name, sc in corpus_scenarios():
        ctx.count('corpus', name)
        scenario_cases(ctx, sc, D)
    for name, body, patch in wire_patches():
        ctx.count('corpus', 'wire-*')
        scenario_cases(ctx, {'op': 'CREATE', 'sub': None, 'webhook': None, 'reason': None, 'old': None, 'dryrun': False, 'uid': 'uid-1',
                             'object': body, 'functions': [{'warnings': [], 'patch': [['item', k, v] for k, v in patch.items()], 'fns': [], 'raise': None}],
                             'handlers': [{'id': 'fn0', 'fn': 0, 'kind': 'mutate', 'operations': None, 'subresource': None, 'when': None}]}, D)
    for name, body, patch in dive_cases():
        ctx.count('corpus', 'dive-*')
        scenario_cases(ctx, {'op': 'CREATE', 'sub': None, 'webhook': None, 'reason': None, 'old': None, 'dryrun': False, 'uid': 'uid-1',
                             'object': body, 'functions': [{'warnings': [], 'patch': [['item', k, v] for k, v in patch.items()], 'fns': [], 'raise': None}],
                             'handlers': [{'id': 'fn0', 'fn': 0, 'kind': 'mutate', 'operations': None, 'subresource': None, 'when': None}]}, D)
    for i in range(ctx.scale(260, 4000)):
        scenario_cases(ctx, G.scenario(), D)
    field_table(ctx, D)
    direct_patch_cases(ctx, G, ctx.scale(350, 6000), D)
    response_cases(ctx, G, ctx.scale(200, 3000), D, exhaustive_k=4)
    selection_table(ctx, D, stride=ctx.scale(12, 1))
    pointer_cases(ctx, G, ctx.scale(100, 1500), D)

    for name, cases in D.items():
        ctx.differential(name, HEADER, cases, shard=150 if not ctx.thorough else 400)
    return ctx.finish(RULE, level_note=[
        'jsonpatch.JsonPatch.from_diff is an oracle with the law apply_ops (from_diff a b) a ~ b (validated on every case by the '
        'library, by the harness evaluator canon.apply6902 and by the Gallina apply_ops); Python str()/repr()/isinstance of '
        'exception objects are supplied to the model; handler criteria other than id/reason/operation/subresource are one '
        'oracle boolean (property C15); user handlers and patch.fns are oracle arguments; the encoding of the patch field and the '
        'API server\'s decoding (strict standard base64, JSON) are oracles with the law decode_std (encode ops) = Some ops, '
        'validated on every real response (D:wire, D:build)'])


def replay(ctx: fw.Ctx, body: dict) -> bool:
    """Re-evaluate the monitors on the case of a replay file; True iff the property still fails on it."""
    K.load()
    ctx.matchers = {}
    ctx.findings = []
    case = body.get('case') or {}
    kind = case.get('kind')
    if kind == 'scenario':
        sc = case['scenario']
        obs = run_scenario(sc)
        if obs['diff_calls']:
            obs['dst'] = obs['diff_calls'][-1][1]
        monitor_scenario(ctx, sc, obs)
    elif kind == 'patch':
        p = K.patches.Patch(copy.deepcopy(case['patch']), body=K.bodies.Body(copy.deepcopy(case['object'])),
                            fns=[make_fn(o) for o in case.get('fns', [])])
        K.diff_calls.clear()
        k, ops = canon.run_res(lambda: p.as_json_patch())
        o2: dict[str, Any] = {'raised': None if k == 'ok' else k, 'raised_text': k, 'ops': ops}
        if K.diff_calls:
            o2['dst'] = K.diff_calls[-1][1]
        monitor_patch(ctx, {'kind': 'patch'}, case['object'], case['patch'], case.get('fns', []), o2)
    elif kind == 'response':
        Outcome = K.execution.Outcome
        excs = [make_exc(s) if s else None for s in case['outcomes']]
        outs = {f'h{i}': Outcome(final=True, exception=e) for i, e in enumerate(excs)}
        resp = K.admission.build_response(request={}, outcomes=outs, warnings=case['warnings'], jsonpatch=case['ops'])['response']
        errs = [herror_of(e) for e in excs if e is not None]
        o: dict[str, Any] = {'response': {'response': resp}}
        receive(o)
        if resp.get('allowed') is not (not errs) or resp.get('status') != expected_status(errs) or (resp.get('warnings') or []) != case['warnings'] \
                or o['wire'] == 'undecodable' or not strict_eq(o['ops'], case['ops']):
            return True
    else:
        print(f'replay: no failing input in this file (kind={body.get("kind")}); re-run ./check C18 {ctx.tier} with VERIF_SEED={ctx.seed}')
        return False
    return bool(ctx.failures)
