"""C19 — watch coverage and continuity under reconnects, 410s, pauses and cluster changes.

Layers (DESIGN.md §8 C19):
  proof     coq/Props/C19.v over Model/Watch.v (client LTS of infinite_watch/continuous_watch/watch_objs + server)
            and Model/Ensemble.v (adjust_tasks as finite-set algebra, revise_namespaces)
  T:watch   the REAL infinite_watch consumed by the harness against FakeAPI under fault scripts; the recorded label
            list (requests received, responses, stream lines, stream ends, yields, pause toggles, server changes)
            is replayed by `Watch.wrun` (client x server acceptor)
  D:adjust  the REAL orchestration.adjust_tasks with dummy insights and stub watcher/peering coroutines: key sets,
            stops and starts after every insight change == Ensemble.adjust
  D:lines   the REAL api.iter_jsonlines on randomly chunked byte streams == Watch.jsonlines
  D:nsrev   the REAL observation.revise_namespaces on namespace events == Ensemble.revise_namespaces
  monitors  the property text evaluated on the records with the harness's own arithmetic (c19 monitors below), and
            on whole kopf.operator() incarnations in kv.sim with namespaces appearing and disappearing: open watch
            streams in FakeAPI's connection table vs served pairs.
"""
from __future__ import annotations

import itertools
import json
import pathlib
from typing import Any

from kv import coqio as cq, framework as fw, vloop
from kv.props import c19_drive as drv

RULE = ('cases = fault scripts over (<= 6 object changes) x (stream end eof/connection/payload/timeout, inactivity timeout, '
        'in-stream 410 by compaction or injection, bookmark, unknown event type, unknown ERROR, HTTP faults '
        'conn/timeout/5xx/429/403/4xx on LIST and WATCH with 0..2 api.request retries, pause/resume) x (request latency, '
        'consumer delay, initial server version just below a power of ten so that versions gain a digit inside a watch run): '
        'every single fault at every position exhaustively + digit-crossing reconnect scripts + random multi-fault scripts; insight '
        'histories (namespaces/resources appearing and disappearing, cluster-scoped and namespaced kinds, peering on/off) '
        'for adjust_tasks; non-trivial iff >= 1 fault lies between two object changes (scripts) / >= 2 insight changes '
        'with a removal (histories); distinct after canonicalisation')

HEADER = fw.STD_HEADER + 'From KV Require Import Model.Watch Model.Ensemble.\n'
CORPUS = pathlib.Path(__file__).resolve().parents[3] / 'corpus' / 'C19'

CHANGE_ACTS = ('create', 'modify', 'delete')
ENV_LABELS = ('Pause', 'Resume', 'Change', 'Tick', 'Compact')


# ======================================================================================
# encoding of a record into the acceptor's labels
# ======================================================================================

def c_orv(v: int | None) -> str:
    return cq.copt(cq.cZ(v) if v is not None else None)


def enc_label(l: dict) -> str:
    k = l['l']
    if k == 'Pause':
        return 'WC LPause'
    if k == 'Resume':
        return 'WC LResume'
    if k == 'ReqList':
        return 'WC LReqList'
    if k == 'ListOk':
        items = cq.clist(cq.cpair(cq.cstr(n), c_orv(v)) for n, v in l['items'])
        return f'WC (LListOk {c_orv(l["rv"])} {items})'
    if k == 'Fault':
        f = {'conn': 'FConn', 'timeout': 'FTimeout', '5xx': 'F5xx', '429': 'F429', '403': 'F403', '4xx': 'F4xx'}[l['f']]
        return f'WC (LFault {f})'
    if k == 'ReqWatch':
        return f'WC (LReqWatch {c_orv(l["since"])})'
    if k == 'WatchOk':
        return 'WC LWatchOk'
    if k == 'Line':
        if l['line'] == 'err':
            return f'WC (LLine (LnErr {cq.cZ(l["code"])}))'
        if l['line'] == 'unknown':
            return 'WC (LLine LnUnknown)'
        return f'WC (LLine (LnEv {drv.ETYPES[l["type"]]} {c_orv(l["rv"])} {cq.cstr(l["name"])}))'
    if k == 'Yield':
        if l['y'] == 'listed':
            return 'WC (LYield YListed)'
        if l['y'] == 'item':
            return f'WC (LYield (YItem {cq.cstr(l["name"])} {c_orv(l["rv"])}))'
        t = drv.ETYPES.get(l['type'])
        if t is None:
            raise ValueError(f'an event of a type outside the model was yielded: {l!r}')
        return f'WC (LYield (YEv {t} {c_orv(l["rv"])} {cq.cstr(l["name"])}))'
    if k == 'End':
        e = {'eof': 'EEof', 'conn': 'EConn', 'payload': 'EPayload', 'timeout': 'ETimeout', 'inactive': 'EInactive',
             'closed': 'EClosed'}[l['how']]
        return f'WC (LEnd {e})'
    if k == 'Raised':
        return 'WC LRaised'
    if k == 'Change':
        return f'WChange {drv.ETYPES[l["type"]]} {cq.cstr(l["name"])}'
    if k == 'Tick':
        return 'WTick'
    if k == 'Compact':
        return 'WCompact'
    raise ValueError(f'unknown label {l!r}')


def brief(l: dict) -> list:
    return [l['l']] + [l[k] for k in ('f', 'since', 'line', 'code', 'y', 'type', 'name', 'rv', 'how', 'items') if k in l]


# ======================================================================================
# monitors: the property text read on the record (no model, no kopf logic)
# ======================================================================================

def _prev(labels: list[dict], i: int) -> int | None:
    j = i - 1
    while j >= 0 and labels[j]['l'] in ENV_LABELS:
        j -= 1
    return j if j >= 0 else None


def is_retry(labels: list[dict], i: int, backoff: float, retries: int) -> bool:
    """Is request label i a re-sent attempt of api.request?  It is when the previous attempt of the same kind ended with a
    retriable fault exactly one backoff earlier, with nothing but environment actions in between; such links are followed
    backwards and there must be between 1 and len(error_backoffs) of them."""
    n, cur = 0, i
    while True:
        j = _prev(labels, cur)
        if j is None or labels[j]['l'] != 'Fault' or labels[j]['f'] not in drv.RETRIABLE:
            break
        if abs((labels[cur]['t'] - labels[j]['t']) - backoff) > 1e-9:
            break
        k = _prev(labels, j)
        if k is None or labels[k]['l'] != labels[i]['l']:
            break
        n += 1
        cur = k
    return 1 <= n <= retries


def monitor(r: dict, cfg: dict) -> list[dict]:
    out: list[dict] = []
    L = r['labels']
    backoff, retries = r['backoff'], int(cfg.get('retries', 0))

    def fail(sig: str, what: str, at: int, **kw: Any) -> None:
        out.append({'sig': sig, 'what': what, 'at': at, 'label': brief(L[at]) if 0 <= at < len(L) else None, **kw})

    if r.get('stall'):
        fail('stall', 'the watch-stream spins without virtual time passing (requests in a hot loop)', len(L) - 1, detail=r['stall'])
        return out

    # ---- resumed from the latest version seen, never one that skips changes
    latest: int | None = None
    for i, l in enumerate(L):
        if l['l'] == 'ListOk':
            latest = l['rv']
        elif l['l'] == 'Line' and l['line'] == 'ev' and l['rv'] is not None:
            latest = l['rv']
        elif l['l'] == 'ReqWatch':
            if l['since'] != latest:
                skipping = latest is None or l['since'] is None or l['since'] > latest
                fail('resume-skips' if skipping else 'resume-stale',
                     'a watch is (re)started from a version other than the latest one seen', i, observed=l['since'], expected=latest)

    # ---- every known event line reaches the consumer; every listing is yielded completely, then LISTED
    i = 0
    while i < len(L):
        l = L[i]
        if l['l'] == 'Line' and l['line'] == 'ev':
            nxt = L[i + 1] if i + 1 < len(L) else None
            if not (nxt and nxt['l'] == 'Yield' and nxt['y'] == 'ev' and (nxt['type'], nxt['rv'], nxt['name']) == (l['type'], l['rv'], l['name'])):
                fail('event-dropped', 'an event delivered by the server did not reach the consumer', i)
        if l['l'] == 'ListOk':
            want = [('item', n, v) for n, v in l['items']] + [('listed', None, None)]
            got = []
            j = i + 1
            while j < len(L) and len(got) < len(want):
                if L[j]['l'] == 'Yield':
                    got.append((L[j]['y'], L[j].get('name'), L[j].get('rv')))
                elif L[j]['l'] not in ENV_LABELS:
                    break
                j += 1
            if got != want and j < len(L):
                fail('listing-dropped', 'a listing was not handed to the consumer completely', i, observed=got, expected=want)
        i += 1

    # ---- an unknown error event is never silently skipped
    for i, l in enumerate(L):
        if l['l'] == 'Line' and l['line'] == 'err' and l['code'] != 410:
            j = i + 1
            while j < len(L) and L[j]['l'] in ENV_LABELS:
                j += 1
            if j >= len(L) or L[j]['l'] != 'Raised':
                fail('error-skipped', 'an unknown ERROR event in the stream did not end the stream with an exception', i,
                     observed=brief(L[j]) if j < len(L) else None)

    # ---- while paused nothing is listed or watched
    for i, l in enumerate(L):
        if l['l'] in ('ReqList', 'ReqWatch') and l['paused']:
            fail('request-while-paused', 'a request was sent while the operator was paused', i,
                 retry=is_retry(L, i, backoff, retries), request=l['l'])

    # ---- watching restarts with a fresh listing on resume
    for i, l in enumerate(L):
        if l['l'] != 'Resume':
            continue
        listed = False
        for j in range(i + 1, len(L)):
            m = L[j]
            if m['l'] == 'Pause':
                break
            if m['l'] == 'ReqList':
                listed = True
                break
            if m['l'] == 'ReqWatch' and not is_retry(L, j, backoff, retries):
                fail('no-fresh-list', 'after a resume a watch was started without a fresh listing', j)
                break
            if m['l'] == 'Line':
                fail('no-fresh-list', 'after a resume stream lines were consumed without a fresh listing', j)
                break

    # ---- at quiescence: every change was delivered or is post-dated by a listing; one open stream
    fatal_ok = False
    for i, l in enumerate(L):
        if l['l'] == 'Raised':
            j = i - 1
            while j >= 0 and L[j]['l'] in ENV_LABELS:
                j -= 1
            prev = L[j] if j >= 0 else None
            if prev and prev['l'] == 'Line' and prev['line'] == 'err' and prev['code'] != 410:
                fatal_ok = True      # demanded by the property
            elif prev and prev['l'] == 'Fault' and prev['f'] in ('5xx', '403', '4xx'):
                fatal_ok = True      # outside the property's fault list (C12/C20; HTTP-level 410 = observation O3)
            else:
                fail('watch-died', 'the watch-stream ended with an exception that no fault explains', i, observed=l.get('exc'))
    if r['dead'] and not any(l['l'] == 'Raised' for l in L):
        fail('watch-died', 'the watch-stream generator finished silently', len(L) - 1)
    if not r['dead']:
        yielded = {(l['rv'], l['name']) for l in L if l['l'] == 'Yield' and l['y'] == 'ev'}
        lists = [l['rv'] for l in L if l['l'] == 'ListOk' and l['rv'] is not None]
        for e in r['server_events']:
            if (e['rv'], e['name']) in yielded or any(v >= e['rv'] for v in lists):
                continue
            fail('change-skipped', 'an object change was neither delivered nor post-dated by a listing', len(L) - 1, change=e)
        # the consumer's last view of each object equals the server's
        view: dict[str, int | None] = {}
        i = 0
        while i < len(L):
            l = L[i]
            if l['l'] == 'ListOk':
                view = {n: v for n, v in l['items']}
            elif l['l'] == 'Yield' and l['y'] == 'ev' and l['type'] in ('ADDED', 'MODIFIED'):
                view[l['name']] = l['rv']
            elif l['l'] == 'Yield' and l['y'] == 'ev' and l['type'] == 'DELETED':
                view.pop(l['name'], None)
            i += 1
        if view != r['server_objects']:
            fail('view-differs', 'at quiescence the consumer\'s last view differs from the server state', len(L) - 1,
                 observed=view, expected=r['server_objects'])
        if r['open_streams'] != 1:
            fail('open-streams', 'at quiescence there is not exactly one open watch', len(L) - 1, observed=r['open_streams'], expected=1)
    return out


def match_f1901(f: dict) -> bool:
    """F1901: the only thing wrong is that api.request re-sent a failed LIST/WATCH attempt while paused."""
    return f['sig'] == 'request-while-paused' and bool(f['observed'].get('retry'))


# ======================================================================================
# scripts
# ======================================================================================

BASE_CHANGES = [['modify', 'a'], ['create', 'b'], ['delete', 'a'], ['modify', 'b']]


def fault_kinds(retries: int) -> dict[str, list[list]]:
    ks: dict[str, list[list]] = {}
    for how in ('eof', 'connection', 'payload', 'timeout'):
        ks[f'end:{how}'] = [['end', how]]
    ks['inactivity'] = [['run', 65]]
    ks['410:injected'] = [['error', 410]]
    ks['bookmark'] = [['bookmark']]
    ks['bookmark+end'] = [['bookmark'], ['end', 'eof']]
    ks['unknown-type'] = [['unknown']]
    ks['unknown-type+end'] = [['unknown'], ['end', 'connection']]
    ks['error:500'] = [['error', 500]]
    for f in ('conn', 'timeout', '5xx', '429', '403', '410', '404'):
        ks[f'watch:{f}'] = [['fault', 'watch', f, 1], ['end', 'eof']]
        ks[f'list:{f}'] = [['fault', 'list', f, 1], ['error', 410]]
        if retries:
            ks[f'watch:{f}x{retries + 1}'] = [['fault', 'watch', f, retries + 1], ['end', 'eof']]
            ks[f'list:{f}x{retries + 1}'] = [['fault', 'list', f, retries + 1], ['error', 410]]
    return ks


def exhaustive_scripts(thorough: bool) -> list[tuple[list, dict, str]]:
    out = []
    # rv0: the listing is at one digit count, the events after it at the next (8 -> a=9, then 10...; 98 -> 99, 100...)
    cfgs = [{'retries': 0, 'rv0': 8}, {'retries': 1, 'latency': 0.25, 'rv0': 98}, {'retries': 2, 'consumer_delay': 0.0625}]
    if thorough:
        cfgs += [{'retries': 1, 'rv0': 997}, {'retries': 0, 'latency': 0.25, 'consumer_delay': 0.0625}, {'retries': 0}]
    for cfg in cfgs:
        kinds = fault_kinds(cfg['retries'])
        n = len(BASE_CHANGES)
        for name, acts in kinds.items():
            for p in range(n + 1):
                for tail in ([], [['run', 4]]):
                    script = [['create', 'a'], ['start']] + BASE_CHANGES[:p] + acts + tail + BASE_CHANGES[p:]
                    out.append((script, cfg, f'single:{name}'))
        # a 410 produced by the server's own compaction: the client is away (retry back-off or request in flight)
        for p in range(n + 1):
            if cfg['retries']:
                script = ([['create', 'a'], ['start']] + BASE_CHANGES[:p] + [['fault', 'watch', 'conn', 1], ['end', 'eof'], ['create', 'z'],
                          ['compact'], ['run', 2]] + BASE_CHANGES[p:])
                out.append((script, cfg, 'single:410:compaction'))
            if cfg.get('latency'):
                script = ([['create', 'a'], ['start'], ['run', 1]] + BASE_CHANGES[:p] + [['end', 'eof'], ['create', 'z'], ['compact'], ['run', 1]]
                          + BASE_CHANGES[p:])
                out.append((script, cfg, 'single:410:compaction'))
        # pause at p, resume at q
        for p in range(n + 1):
            for q in range(p, n + 1):
                for gap in ([], [['run', 3]]):
                    script = ([['create', 'a'], ['start']] + BASE_CHANGES[:p] + [['pause']] + gap + BASE_CHANGES[p:q] + [['resume']] + BASE_CHANGES[q:])
                    out.append((script, cfg, 'pause'))
        # start paused
        out.append(([['create', 'a'], ['start'], ['modify', 'a'], ['run', 2], ['resume'], ['create', 'b']], {**cfg, 'start_paused': True}, 'pause'))
    if thorough:
        # all two-fault placements (retries 1, latency) over a subset of kinds
        cfg = {'retries': 1, 'latency': 0.25}
        kinds = fault_kinds(1)
        sel = ['end:eof', 'end:connection', 'inactivity', '410:injected', 'bookmark', 'unknown-type', 'watch:conn', 'watch:429', 'list:conn',
               'list:429', 'watch:connx2', 'list:connx2']
        n = len(BASE_CHANGES)
        for a, b in itertools.product(sel, sel):
            for p in range(n + 1):
                for q in range(p, n + 1):
                    script = [['create', 'a'], ['start']] + BASE_CHANGES[:p] + kinds[a] + BASE_CHANGES[p:q] + kinds[b] + BASE_CHANGES[q:]
                    out.append((script, cfg, 'double'))
    return out


RV0_POOL = [100, 100, 6, 7, 8, 9, 96, 97, 98, 99, 996, 997, 998, 999, 9998]


def digit_scripts(thorough: bool) -> list[tuple[list, dict, str]]:
    """resourceVersions are opaque strings: the version counter starts just below a power of ten so that events AND
    bookmarks gain a digit (9->10, 99->100, 999->1000) inside one watch run; then an inner reconnect (no re-list) and
    more events.  '10' < '9' as strings: a client that orders versions would resume from a stale one."""
    out = []
    reconnects = [[['end', 'eof']], [['end', 'connection']], [['end', 'payload']], [['end', 'timeout']], [['run', 65]],
                  [['fault', 'watch', 'conn', 1], ['end', 'eof']]]
    rv0s = [6, 7, 8, 9, 97, 98, 99, 997, 998, 999] + ([5, 96, 996, 9997, 9998, 9999] if thorough else [])
    n = len(BASE_CHANGES)
    for rv0 in rv0s:
        for ri, rec in enumerate(reconnects):
            cfg = {'retries': 1, 'rv0': rv0} if ri % 2 == 0 else {'retries': 1, 'rv0': rv0, 'latency': 0.25}
            for p in range(1, n + 1):
                for pre in ([], [['bookmark']], [['bookmark'], ['bookmark']]):
                    # events (and bookmarks) cross the boundary, the stream reconnects, events go on, it reconnects again
                    script = ([['create', 'a'], ['start']] + BASE_CHANGES[:p] + pre + rec + BASE_CHANGES[p:] + [['bookmark']] + rec
                              + [['create', 'c'], ['modify', 'c']])
                    out.append((script, cfg, 'digits'))
    return out


def random_script(r: Any) -> tuple[list, dict, str]:
    cfg = {'retries': r.choice([0, 1, 1, 2]), 'latency': r.choice([0, 0, 0.25]), 'consumer_delay': r.choice([0, 0, 0.0625]),
           'rv0': r.choice(RV0_POOL)}
    if r.random() < 0.1:
        cfg['start_paused'] = True
    names = ['a', 'b', 'c']
    script: list = []
    for n in r.sample(names, r.randrange(0, 3)):
        script.append(['create', n])
    script.append(['start'])
    n_changes = n_faults = n_pauses = 0
    for _ in range(r.randrange(4, 16)):
        x = r.random()
        if x < 0.40 and n_changes < 6:
            script.append([r.choice(CHANGE_ACTS), r.choice(names)])
            n_changes += 1
        elif x < 0.50:
            script.append(['run', r.choice([0.125, 0.25, 0.5, 1, 2, 4])])
        elif x < 0.60 and n_pauses < 2:
            script.append(['pause'])
            n_pauses += 1
        elif x < 0.70:
            script.append(['resume'])
        elif n_faults < 4:
            n_faults += 1
            y = r.random()
            if y < 0.30:
                script.append(['end', r.choice(['eof', 'connection', 'payload', 'timeout'])])
            elif y < 0.38:
                script.append(['run', 65])
            elif y < 0.48:
                script.append(['error', 410])
            elif y < 0.53:
                script.append(['compact'])
            elif y < 0.63:
                script.append(['bookmark'])
            elif y < 0.68:
                script.append(['unknown'])
            elif y < 0.72:
                script.append(['error', r.choice([500, 400, 0])])
            else:
                script.append(['fault', r.choice(['list', 'watch']), r.choice(['conn', 'conn', 'timeout', '429', '429', '5xx', '403', '410']),
                               r.randrange(1, 4)])
    return script, cfg, 'random'


def nontrivial(script: list) -> bool:
    idx = [i for i, a in enumerate(script) if a[0] in CHANGE_ACTS and i > script.index(['start'])] if ['start'] in script else []
    faults = [i for i, a in enumerate(script) if a[0] in ('end', 'error', 'unknown', 'bookmark', 'fault', 'compact', 'pause') or a == ['run', 65]]
    return any(idx and idx[0] < f < idx[-1] for f in faults)


def run_one(script: list, cfg: dict) -> dict:
    try:
        return drv.run_script(script, cfg)
    except vloop.Stall as e:
        return {'labels': [], 'stall': str(e), 'dead': False, 'backoff': 1.0, 'server_events': [], 'server_objects': {},
                'open_streams': 0, 'requests': [], 'callback_errors': [], 'quiesce_from': 0}


def watch_layer(ctx: fw.Ctx, header: str = HEADER) -> None:
    scripts: list[tuple[list, dict, str]] = []
    if CORPUS.is_dir():
        for p in sorted(CORPUS.glob('*.json')):
            body = json.loads(p.read_text())
            if body.get('layer', 'watch') == 'watch':
                scripts.append((body['script'], body['cfg'], 'corpus'))
    scripts += exhaustive_scripts(ctx.thorough)
    scripts += digit_scripts(ctx.thorough)
    for _ in range(ctx.scale(500, 20000)):
        scripts.append(random_script(ctx.rng))

    cases: list[fw.Case] = []
    for script, cfg, origin in scripts:
        r = run_one(script, cfg)
        data = {'layer': 'watch', 'script': script, 'cfg': cfg}
        ctx.count('origin', origin.split(':')[0])
        if origin.startswith('single:'):
            ctx.count('single_fault_kind', origin[7:])
        for l in r['labels']:
            ctx.count('label', l['l'] + (':' + str(l.get('f') or l.get('how') or l.get('line') or l.get('y')) if l['l'] in ('Fault', 'End', 'Line', 'Yield') else ''))
        if r.get('callback_errors'):
            ctx.count('observation', 'api.stream request_cancel_callback failed (' + ','.join(sorted(set(r['callback_errors']))) + ')')
        ctx.count('outcome', 'stall' if r.get('stall') else 'dead' if r['dead'] else 'alive')
        # did the versions gain a digit inside one watch run, with an inner reconnect (no re-list) after that?
        width: set[int] = set()
        crossed = False
        for l in r['labels']:
            if l['l'] == 'ListOk':
                width, crossed = ({len(str(l['rv']))} if l['rv'] is not None else set()), False
            elif l['l'] == 'Line' and l['line'] == 'ev' and l['rv'] is not None:
                width.add(len(str(l['rv'])))
            elif l['l'] == 'ReqWatch' and len(width) > 1:
                crossed = True
                break
        ctx.count('version_digits', 'gained a digit inside a watch run, then reconnected without re-list' if crossed else 'no')
        if nontrivial(script):
            ctx.nontriv([script, cfg])
        for f in monitor(r, cfg):
            ctx.fail(f['what'], data, observed={k: v for k, v in f.items() if k not in ('what', 'sig')}, sig=f['sig'])
        if r.get('stall'):
            continue
        try:
            labels = [enc_label(l) for l in r['labels']]
        except ValueError as e:
            ctx.correspondence_break('T:watch', {'case': data, 'error': str(e)})
            continue
        tr = cq.clist(labels)
        w0 = f'(winit {cq.cbool(bool(cfg.get("start_paused", False)))} {cq.cZ(int(cfg.get("rv0", 100)))})'
        # the fault-free continuation the driver lets the real code take at the end (faults cleared, resumed, 8 s):
        # is it `quiet` in the model's sense, and has the implementation then caught up (C19_catch_up's conclusion)?
        L = r['labels']
        k0 = r['quiesce_from'] + (1 if r['quiesce_from'] < len(L) and L[r['quiesce_from']]['l'] == 'Resume' else 0)
        QUIET = {'ReqList', 'ListOk', 'Yield', 'ReqWatch', 'WatchOk'}
        py_quiet = all(l['l'] in QUIET or (l['l'] == 'Line' and l['line'] == 'ev') or (l['l'] == 'End' and l['how'] == 'closed') for l in L[k0:])
        ctx.count('quiescence_suffix', ('quiet' if py_quiet else 'not-quiet (inactivity timeout / leftover of an earlier fault)') +
                  ('' if not r['dead'] else ', stream dead'))
        nn = cq.cnat(int(cfg.get("retries", 0)))
        caught = ('match position (ph (cl w)) with Some (Some v) => forallb (fun c => Z.leb (c_rv c) v) (log (sv w)) | _ => false end'
                  if not r['dead'] else 'true')
        term = (f'(let tr := {tr} in match wrej {nn} {w0} tr 0 with Some _ => false | None => '
                f'match wrun {nn} {w0} tr with None => false | Some w => '
                f'Bool.eqb (forallb quiet (skipn {cq.cnat(k0)} tr)) {cq.cbool(py_quiet)} && {caught} end end)')
        cases.append(fw.Case(term, {**data, 'labels': [brief(l) for l in r['labels']]},
                             diag=f'wrej {cq.cnat(int(cfg.get("retries", 0)))} {w0} {tr} 0'))
        ctx.cov['traces_validated_against_impl'] += 1
        if origin == 'random' and len(ctx.cov['samples']) < 3:
            ctx.sample({'script': script, 'cfg': cfg, 'labels': [brief(l) for l in r['labels']][:40]})
    ctx.differential('T_watch', header, cases, shard=120)


# ======================================================================================
# api.iter_jsonlines (D_lines)
# ======================================================================================

def lines_layer(ctx: fw.Ctx, header: str = HEADER) -> None:
    import asyncio
    from kopf._cogs.clients import api as kapi
    if not hasattr(kapi, 'iter_jsonlines'):
        raise RuntimeError('observation point missing: api.iter_jsonlines')
    r = ctx.rng

    class Content:
        def __init__(self, chunks: list[bytes]) -> None:
            self.chunks = chunks

        def iter_chunked(self, n: int) -> Any:
            async def gen() -> Any:
                for c in self.chunks:
                    yield c
            return gen()

    async def collect(chunks: list[bytes]) -> list[bytes]:
        return [line async for line in kapi.iter_jsonlines(Content(chunks))]      # type: ignore[arg-type]

    cases = []
    loop = asyncio.new_event_loop()
    try:
        for _ in range(ctx.scale(300, 3000)):
            pieces = []
            for _ in range(r.randrange(0, 6)):
                pieces.append(bytes(r.choice(b'{}":ab1') for _ in range(r.randrange(0, 7))))     # empty pieces = blank lines
            data = b'\n'.join(pieces) + (b'\n' if r.random() < 0.7 else b'')
            cuts = sorted(r.randrange(0, len(data) + 1) for _ in range(r.randrange(0, 5)))
            chunks = [data[a:b] for a, b in zip([0] + cuts, cuts + [len(data)])]
            got = loop.run_until_complete(collect(chunks))
            want = [l for l in data.split(b'\n') if l]
            case = {'layer': 'lines', 'chunks': [list(c) for c in chunks], 'got': [list(g) for g in got]}
            if got != want:
                ctx.fail('stream lines depend on the chunk boundaries (a line is lost, split or merged)', case,
                         observed=[list(g) for g in got], expected=[list(w) for w in want], sig='lines-chunking')
            ctx.count('lines', 'split-inside-a-line' if any(c and not c.endswith(b'\n') for c in chunks[:-1]) else 'aligned')
            zl = lambda bs: cq.clist(cq.cZ(b) for b in bs)
            cases.append(fw.Case(f'list_eqb (list_eqb Z.eqb) (jsonlines {cq.clist(zl(c) for c in chunks)}) {cq.clist(zl(g) for g in got)}', case,
                                 diag=f'jsonlines {cq.clist(zl(c) for c in chunks)}'))
    finally:
        loop.close()
    ctx.differential('D_lines', header, cases, shard=150)


def run(ctx: fw.Ctx) -> int:
    ctx.matchers = {'F1901': match_f1901}
    ctx.proofs()
    ok, logtxt = fw.build_models(['Model/Watch.v', 'Model/Ensemble.v'])
    if not ok:
        ctx.correspondence_break('model build', logtxt[-1500:])
        return ctx.finish(RULE)
    watch_layer(ctx)
    lines_layer(ctx)
    from kv.props import c19_ens
    c19_ens.ensemble_layer(ctx, HEADER)
    c19_ens.sim_layer(ctx)
    c19_ens.peer_sim_layer(ctx)
    return ctx.finish(RULE, level_note=[
        'FakeAPI (harness/kv/fakeapi.py) stands for the API server: versions grow, a watch from `since` delivers exactly the later '
        'changes in order, bookmarks only on caught-up streams (Model/Watch.v sstep states the same rules and rejects the trace otherwise)',
        'real TCP/aiohttp behaviour (buffered data after close, half-open sockets) is outside the check'])


def replay(ctx: fw.Ctx, body: dict) -> bool:
    case = body.get('case') or {}
    if case.get('layer') == 'watch':
        r = run_one(case['script'], case['cfg'])
        fs = monitor(r, case['cfg'])
        for f in fs:
            print('  ', f['sig'], f['what'], f.get('label'))
        return bool(fs)
    if case.get('layer') == 'lines':
        import asyncio
        from kopf._cogs.clients import api as kapi
        chunks = [bytes(c) for c in case['chunks']]

        class Content:
            def iter_chunked(self, n: int) -> Any:
                async def gen() -> Any:
                    for c in chunks:
                        yield c
                return gen()

        async def collect() -> list[bytes]:
            return [line async for line in kapi.iter_jsonlines(Content())]      # type: ignore[arg-type]
        got = asyncio.new_event_loop().run_until_complete(collect())
        want = [l for l in b''.join(chunks).split(b'\n') if l]
        print('  ', 'got', got, 'want', want)
        return got != want
    from kv.props import c19_ens
    return c19_ens.replay(ctx, case)
