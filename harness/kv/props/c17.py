"""C17 — in-memory indices mirror the cluster; handling waits for the initial index.

Layers (DESIGN.md §8 C17):
  proofs   coq/Props/C17.v (Model/Index.v, Model/Gate.v)
  D        Index._replace/_discard, OperatorIndexers.replace/discard, index_resource  vs  Model/Index.v
  T        real spawn_missing_watchers + queueing.watcher + process_resource_event (stubbed
           process_resource_causes) under kv.vloop, label traces replayed by the acceptor of Model/Gate.v
  S        small ast check on queueing.watcher / processing.process_resource_event (order of the gate calls)
  monitors a dictionary reference kept by the harness vs the public read-only views after every event;
           "no handler-side start before every indexed kind was listed and every pre-listed object indexed";
           "the gate opens" (known finding F11 when worker_limit < number of first-seen objects)
"""
from __future__ import annotations

import itertools
import json
import logging
from typing import Any

from kv import coqio as cq, framework as fw
from kv.props import c17_gate as gate

RULE = ('index cases = histories of ADDED/MODIFIED/DELETED over 4 objects (one re-created under the same name) x up to 3 '
        'index functions with colliding keys (None, str, int, pair) x scripts of results (dict, scalar, None, temporary, '
        'permanent, arbitrary error) x handler options (errors, retries, backoff) x virtual time; non-trivial iff at '
        'some point two objects share an index key; distinct by canonical history. gate cases = interleavings of the '
        'initial listings of 2-3 resource kinds x worker_limit, non-trivial iff >= 2 kinds and >= 1 object first seen '
        'before its kind was listed')

HEADER = fw.STD_HEADER + 'From KV Require Import Base.Dicts Model.Index.\n'

# u4: 'a' deleted and re-created (new uid, same namespace/name; the two incarnations have separate workers in kopf, so
# their events interleave freely); u5: a namesake of another resource kind served by the same index functions
OBJECTS = [('ns', 'a', 'u1'), ('ns', 'b', 'u2'), (None, 'c', 'u3'), ('ns', 'a', 'u4'), ('ns', 'a', 'u5')]
OBJ_KIND = [0, 0, 0, 0, 1]
KINDS = [('kopfexamples', 'KopfExample'), ('otherkinds', 'OtherKind')]
ONUM = {o: i for i, o in enumerate(OBJECTS)}
KEYMAP: dict = {}     # whatever OperatorIndexers.make_key() makes of the bodies -> object number (keys are opaque)
UNKNOWN_OBJ = 99


def knum(a: Any) -> int:
    """Object number of an internal store key; keys the harness cannot attribute show up as a model mismatch, not a crash."""
    try:
        if a in ONUM:
            return ONUM[a]
        return KEYMAP.get(a, UNKNOWN_OBJ)
    except TypeError:
        return UNKNOWN_OBJ


def learn_keys(indexers: Any) -> None:
    from kopf._cogs.structs import bodies
    KEYMAP.clear()
    for o in range(len(OBJECTS)):
        try:
            KEYMAP.setdefault(indexers.make_key(bodies.Body(body_of(o))), o)
        except Exception:
            pass
KEYPOOL = [None, 'x', 'y', 'x', 1, ('ns', 'a'), 'ключ']
VALPOOL = [1, True, 2, 0, False, 'v', 'w', [1], [True], {'n': 1}, {'n': True}, None, [], 'x']


# ----------------------------------------------------------------------------------------------
# encoders
# ----------------------------------------------------------------------------------------------

def c_ikey(k: Any) -> str:
    if k is None:
        return 'KNone'
    if isinstance(k, bool):
        raise cq.Unencodable('bool index key')
    if isinstance(k, str):
        return f'(KStr {cq.cstr(k)})'
    if isinstance(k, int):
        return f'(KNum {cq.cZ(k)})'
    if isinstance(k, tuple) and len(k) == 2 and all(isinstance(x, str) for x in k):
        return f'(KPair {cq.cstr(k[0])} {cq.cstr(k[1])})'
    raise cq.Unencodable(f'index key outside the model: {k!r}')


def c_map(m: dict) -> str:
    return cq.clist(cq.cpair(c_ikey(k), cq.cjson(v)) for k, v in m.items())


def c_result(r: Any) -> str:
    return f'(RMap {c_map(r)})' if isinstance(r, dict) else f'(RScalar {cq.cjson(r)})'


def snap_index(index: Any) -> dict:
    """Internal state of a real Index (name-mangled attributes; AttributeError = observation point missing)."""
    items = index._Index__items
    rev = index._Index__reverse
    return {'items': [(k, [(knum(a), v) for a, v in st._Store__items.items()]) for k, st in items.items()],
            'rev': [(knum(a), list(ks)) for a, ks in rev.items()]}


def c_index(s: dict) -> str:
    items = cq.clist(cq.cpair(c_ikey(k), cq.clist(cq.cpair(cq.cnat(o), cq.cjson(v)) for o, v in st)) for k, st in s['items'])
    rev = cq.clist(cq.cpair(cq.cnat(o), cq.clist(c_ikey(k) for k in ks)) for o, ks in s['rev'])
    return f'(mkIndex {items} {rev} : jindex)'


def c_indexers(s: list) -> str:
    return '(' + cq.clist(cq.cpair(cq.cstr(h), c_index(x)) for h, x in s) + ' : jindexers)'


def snap_indexers(ixs: Any) -> list:
    return [(str(h), snap_index(ix.index)) for h, ix in ixs.items()]


def c_res(kind: str, term: str | None) -> str:
    return f'(Ok {term})' if kind == 'ok' else {'key': 'ErrKey', 'type': 'ErrType', 'value': 'ErrValue'}.get(kind, 'ErrType')


def run_kind(fn: Any) -> str:
    try:
        fn()
        return 'ok'
    except KeyError:
        return 'key'
    except Exception as e:       # anything else is outside what the model can produce: shows up as a mismatch
        return f'other:{type(e).__name__}'


def jsonable(x: Any) -> Any:
    if isinstance(x, dict):
        return [[jsonable(k), jsonable(v)] for k, v in x.items()]
    if isinstance(x, (list, tuple)):
        return [jsonable(v) for v in x]
    return x


# ----------------------------------------------------------------------------------------------
# the reference the monitors use (the harness's own reading of the documented rules)
# ----------------------------------------------------------------------------------------------

class Reference:
    """handler id -> object -> {key: value}: the latest results of matching live objects."""

    def __init__(self, hids: list[str]) -> None:
        self.d: dict[str, dict[Any, dict]] = {h: {} for h in hids}

    def set(self, h: str, o: Any, result: Any) -> None:
        self.d[h][o] = dict(result) if isinstance(result, dict) else {None: result}

    def drop(self, h: str, o: Any) -> None:
        self.d[h].pop(o, None)

    def view(self, h: str) -> dict:
        out: dict[Any, list] = {}
        for o, m in self.d[h].items():
            for k, v in m.items():
                out.setdefault(k, []).append(v)
        return out


def multiset_eq(a: list, b: list) -> bool:
    """Equality of two lists as multisets under Python's ==."""
    b = list(b)
    for x in a:
        for i, y in enumerate(b):
            if x == y:
                del b[i]
                break
        else:
            return False
    return not b


def check_views(ctx: fw.Ctx, indices: Any, ref: Reference, case: Any, what: str) -> bool:
    """Compare the public read-only views with the reference. Returns True when equal."""
    ok = True
    for h in ref.d:
        want = ref.view(h)
        index = indices[h]
        got_keys = list(index)
        if len(got_keys) != len(set(got_keys)) or set(got_keys) != set(want) or len(index) != len(want):
            ctx.fail(f'index keys differ from the reference {what}', case, observed=jsonable({k: list(index[k]) for k in got_keys}),
                     expected=jsonable(want), sig='index-keys')
            ok = False
            continue
        for k in got_keys:
            vals = list(index[k])
            if not vals or not index[k] or len(index[k]) != len(vals) or k not in index:
                ctx.fail(f'empty or inconsistent store left in the index {what}', case, observed=jsonable({'key': k, 'values': vals}),
                         sig='empty-store')
                ok = False
            elif not multiset_eq(vals, want[k]):
                ctx.fail(f'index values differ from the reference {what}', case, observed=jsonable({'key': k, 'values': vals}),
                         expected=jsonable({'key': k, 'values': want[k]}), sig='index-values')
                ok = False
    return ok


# ----------------------------------------------------------------------------------------------
# level 1: Index._replace / _discard
# ----------------------------------------------------------------------------------------------

def gen_result(r: Any, small: bool = False) -> Any:
    if r.random() < 0.25:
        return r.choice(VALPOOL[:-3] if small else VALPOOL)     # scalar
    n = r.choice([0, 1, 1, 2, 2, 3])
    out: dict = {}
    for _ in range(n):
        out[r.choice(KEYPOOL)] = r.choice(VALPOOL)
    return out


def guarded(ctx: fw.Ctx, name: str, fn: Any, *args: Any) -> None:
    """An exception inside a driver or monitor is a broken correspondence of that piece, never the end of the search."""
    import traceback
    try:
        fn(*args)
    except Exception:
        seen = ctx.__dict__.setdefault('_c17_harness_errors', set())
        ctx.count('harness_errors', name)
        if name not in seen:
            seen.add(name)
            ctx.correspondence_break(f'harness:{name}', {'error': traceback.format_exc()[-2500:]})


class Cases:
    """Deduplicating collector: one differential case per distinct (pre-state, operation)."""

    def __init__(self) -> None:
        self.by: dict[str, dict[str, fw.Case]] = {'index': {}, 'indexers': {}, 'event': {}, 'rule': {}, 'history': {}}

    def add(self, name: str, term: str, data: Any, diag: str) -> None:
        self.by[name].setdefault(term, fw.Case(term, data, diag))


def level1_sequence(ctx: fw.Ctx, C: Cases, ops: list) -> None:
    from kopf._core.engines import indexing
    index = indexing.Index()
    ref = Reference(['i'])

    class _V(dict):
        def __getitem__(self, h: str) -> Any:
            return index
    shared = False
    for n, op in enumerate(ops):
        pre = snap_index(index)
        if op[0] == 'replace':
            _, o, obj = op
            kind = run_kind(lambda: index._replace(OBJECTS[o], obj))
            ref.set('i', o, obj)
            if not obj:
                ref.drop('i', o)
            cop = f'(OpReplace {cq.cnat(o)} {c_map(obj)})'
        else:
            _, o = op
            kind = run_kind(lambda: index._discard(OBJECTS[o]))
            ref.drop('i', o)
            cop = f'(OpDiscard {cq.cnat(o)})'
        ctx.count('index_op', op[0])
        post = snap_index(index)
        exp = c_res(kind, c_index(post))
        data = {'level': 'Index', 'ops': jsonable(ops[:n + 1]), 'outcome': kind}
        C.add('index', f'res_eqb jindex_eqb (jop {c_index(pre)} {cop}) {exp}', data, f'jop {c_index(pre)} {cop}')
        if kind != 'ok':
            ctx.fail('Index operation raised', data, observed=kind, sig='index-raises')
            break
        check_views(ctx, {'i': index}, ref, data, 'after Index._replace/_discard')
        shared = shared or any(len(st) >= 2 for _, st in post['items'])
    if shared:
        ctx.nontriv(['L1', jsonable(ops)])


def level1(ctx: fw.Ctx, C: Cases) -> None:
    r = ctx.rng
    # bounded-exhaustive: every sequence of length <= L over a small alphabet with colliding keys
    alpha = [('discard', 0), ('discard', 1)]
    for o in (0, 1):
        for obj in ({'x': 1}, {'y': 1}, {'x': 1, 'y': 2}, {}, {None: True}):
            alpha.append(('replace', o, obj))
    L = ctx.scale(3, 4)
    n = 0
    for ln in range(1, L + 1):
        for ops in itertools.product(alpha, repeat=ln):
            guarded(ctx, 'level1', level1_sequence, ctx, C, list(ops))
            n += 1
    ctx.count('sequences', 'index-exhaustive', n)
    for _ in range(ctx.scale(300, 8000)):
        ops = []
        for _ in range(r.choice([2, 4, 6, 8, 10, 14])):
            o = r.randrange(len(OBJECTS))
            if r.random() < 0.3:
                ops.append(('discard', o))
            else:
                res = gen_result(r)
                ops.append(('replace', o, res if isinstance(res, dict) else {None: res}))
        guarded(ctx, 'level1', level1_sequence, ctx, C, ops)
        ctx.count('sequences', 'index-random')


# ----------------------------------------------------------------------------------------------
# level 2: OperatorIndexers.replace / discard with given outcomes
# ----------------------------------------------------------------------------------------------

def body_of(o: int, labels: dict | None = None) -> dict:
    ns, name, uid = OBJECTS[o]
    meta: dict = {'name': name, 'uid': uid}
    if ns is not None:
        meta['namespace'] = ns
    if labels:
        meta['labels'] = labels
    return {'apiVersion': 'kopf.dev/v1', 'kind': KINDS[OBJ_KIND[o]][1], 'metadata': meta, 'spec': {}}


def level2(ctx: fw.Ctx, C: Cases) -> None:
    from kopf._cogs.structs import bodies
    from kopf._core.actions import execution
    from kopf._core.engines import indexing
    r = ctx.rng
    hids = ['h1', 'h2', 'h3']

    class _H:
        def __init__(self, id: str) -> None:
            self.id = id
    for _ in range(ctx.scale(250, 3000)):
        ixs = indexing.OperatorIndexers()
        ixs.ensure([_H(h) for h in hids])   # type: ignore[list-item]
        learn_keys(ixs)
        ref = Reference(hids)
        ops = []
        shared = False
        for _ in range(r.choice([2, 4, 6, 8, 12])):
            o = r.randrange(len(OBJECTS))
            pre = snap_indexers(ixs)
            body = bodies.Body(body_of(o))
            if r.random() < 0.2:
                ops.append(['discard', o])
                kind = run_kind(lambda: ixs.discard(body=body))
                for h in hids:
                    ref.drop(h, o)
                cop = f'(XDiscard {cq.cnat(o)})'
            else:
                outs: dict = {}
                couts = []
                desc = []
                for h in r.sample(hids, len(hids)):
                    k = r.choice(['absent', 'exc', 'res', 'res', 'keep'])
                    ctx.count('outcome_kind', k)
                    if k == 'absent':
                        ref.drop(h, o)
                        continue
                    if k == 'exc':
                        outs[h] = execution.Outcome(final=r.random() < 0.5, exception=ValueError('boo'), delay=None)
                        couts.append(cq.cpair(cq.cstr(h), 'OExc'))
                        ref.drop(h, o)
                        desc.append([h, 'exc'])
                    elif k == 'res':
                        res = gen_result(r)
                        while res is None:
                            res = gen_result(r)
                        outs[h] = execution.Outcome(final=True, result=res)
                        couts.append(cq.cpair(cq.cstr(h), f'(ORes {c_result(res)})'))
                        ref.set(h, o, res)
                        if isinstance(res, dict) and not res:
                            ref.drop(h, o)
                        desc.append([h, 'res', jsonable(res)])
                    else:
                        outs[h] = execution.Outcome(final=True)
                        couts.append(cq.cpair(cq.cstr(h), 'OKeep'))
                        desc.append([h, 'keep'])
                ops.append(['replace', o, desc])
                kind = run_kind(lambda: ixs.replace(body=body, outcomes=outs))
                cop = f'(XReplace {cq.cnat(o)} {cq.clist(couts)})'
            post = snap_indexers(ixs)
            data = {'level': 'OperatorIndexers', 'ops': list(ops), 'outcome': kind}
            C.add('indexers', f'res_eqb jindexers_eqb (jxop {c_indexers(pre)} {cop}) {c_res(kind, c_indexers(post))}', data,
                  f'jxop {c_indexers(pre)} {cop}')
            if kind != 'ok':
                ctx.fail('OperatorIndexers operation raised', data, observed=kind, sig='index-raises')
                break
            check_views(ctx, ixs.indices, ref, data, 'after OperatorIndexers.replace/discard')
            shared = shared or any(len(st) >= 2 for _, x in post for _, st in x['items'])
        if shared:
            ctx.nontriv(['L2', ops])
        ctx.count('sequences', 'indexers-random')


# ----------------------------------------------------------------------------------------------
# level 3: index_resource with scripted index functions, handler options, filters and virtual time
# ----------------------------------------------------------------------------------------------

ERRMODES = [None, 'IGNORED', 'TEMPORARY', 'PERMANENT']


def gen_hcfgs(r: Any) -> list[dict]:
    out = []
    for i in range(r.choice([1, 2, 2, 3])):
        out.append({'id': f'h{i + 1}', 'errors': r.choice(ERRMODES + [None, 'TEMPORARY']),
                    'retries': r.choice([None, None, None, 0, 1, 2, 3]), 'backoff': r.choice([None, 4, 8])})
    return out


def c_hcfg(h: dict, default_backoff: int) -> str:
    em = {None: 'None', 'IGNORED': '(Some EIgnored)', 'TEMPORARY': '(Some ETemporary)', 'PERMANENT': '(Some EPermanent)'}[h['errors']]
    rt = 'None' if h['retries'] is None else f"(Some {cq.cZ(h['retries'])})"
    return f"(mkHcfg {cq.cstr(h['id'])} {em} {rt} {cq.cZ(h['backoff'] if h['backoff'] is not None else default_backoff)})"


def c_action(a: list) -> str:
    if a[0] == 'res':
        return f'(AResult {c_result(a[1])})'
    if a[0] == 'none':
        return 'ANone'
    if a[0] == 'temp':
        return f"(ATemp {'None' if a[1] is None else '(Some ' + cq.cZ(a[1]) + ')'})"
    return {'perm': 'APerm', 'arb': 'AArb'}[a[0]]


def gen_action(r: Any) -> list:
    k = r.choice(['res', 'res', 'res', 'none', 'temp', 'perm', 'arb', 'arb'])
    if k == 'res':
        res = gen_result(r)
        return ['none'] if res is None else ['res', res]
    if k == 'temp':
        return ['temp', r.choice([None, 0, 4, 8, 60])]
    return [k]


class Driver3:
    """A real registry with scripted @kopf.index functions; the real index_resource on a stepped virtual-time loop."""

    def __init__(self, hcfgs: list[dict]) -> None:
        import kopf
        from kopf._cogs.configs import configuration
        from kopf._cogs.structs import references
        from kopf._core.actions import execution
        from kopf._core.engines import indexing
        from kopf._core.intents import registries
        from kv import vloop
        self.kopf = kopf
        self.hcfgs = hcfgs
        self.registry = registries.OperatorRegistry()
        self.script: dict[str, list] = {}
        self.calls: list[str] = []
        for h in hcfgs:
            self._register(h, execution)
        self.resources = [references.Resource('kopf.dev', 'v1', plural, kind=kind, namespaced=True) for plural, kind in KINDS]
        self.indexers = indexing.OperatorIndexers()
        self.indexers.ensure(self.registry._indexing.get_all_handlers())
        learn_keys(self.indexers)
        self.settings = configuration.OperatorSettings()
        self.default_backoff = int(self.settings.execution.default_backoff)
        self.memories: dict[int, Any] = {}
        self.loop = vloop.new_loop()
        self.indexing = indexing

    def _register(self, h: dict, execution: Any) -> None:
        kopf = self.kopf
        hid = h['id']
        opts: dict = {}
        if h['errors'] is not None:
            opts['errors'] = execution.ErrorsMode[h['errors']]
        if h['retries'] is not None:
            opts['retries'] = h['retries']
        if h['backoff'] is not None:
            opts['backoff'] = h['backoff']

        @kopf.index('otherkinds', id=hid, registry=self.registry, labels={'m-' + hid: kopf.PRESENT}, **opts)
        @kopf.index('kopfexamples', id=hid, registry=self.registry, labels={'m-' + hid: kopf.PRESENT}, **opts)
        async def fn(**_: Any) -> Any:
            self.calls.append(hid)
            a = self.script[hid]
            if a[0] == 'res':
                return a[1]
            if a[0] == 'none':
                return None
            if a[0] == 'temp':
                raise kopf.TemporaryError('scripted', delay=a[1])
            if a[0] == 'perm':
                raise kopf.PermanentError('scripted')
            raise ValueError('scripted')

    def mem_snapshot(self, o: int) -> list:
        from kv import clock
        m = self.memories.get(o)
        st = getattr(m, 'indexing_state', None)
        out = []
        if st is not None:
            for hid, hs in st._states.items():
                if hs.success:
                    raise RuntimeError('a success is kept in the indexing state')
                delayed = None if hs.delayed is None else int((hs.delayed - clock.EPOCH).total_seconds())
                out.append((str(hid), int(hs.retries), delayed, bool(hs.failure)))
        return out

    def event(self, etype: str | None, o: int, matching: list[str], script: dict[str, list]) -> str:
        from kopf._cogs.structs import bodies, ephemera
        from kv import vloop
        self.script = script
        self.calls = []
        raw = body_of(o, {'m-' + h: 'yes' for h in matching})
        mem = self.memories.setdefault(o, self.indexing.IndexingMemory())
        with vloop.running(self.loop):
            t = self.loop.spawn(self.indexing.index_resource(
                indexers=self.indexers, registry=self.registry, settings=self.settings, resource=self.resources[OBJ_KIND[o]],
                raw_event={'type': etype, 'object': raw}, memory=mem, logger=logging.getLogger('kv.c17'),
                memo=ephemera.Memo(), body=bodies.Body(raw)))
            self.loop.settle()
        if not t.done():
            t.cancel()
            return 'other:not-finished'
        return run_kind(t.result)

    def close(self) -> None:
        from kv import vloop
        vloop.close_loop(self.loop)


def c_mem(m: list) -> str:
    return cq.clist(cq.cpair(cq.cstr(h), f"(mkHstate {cq.cZ(n)} {'None' if d is None else '(Some ' + cq.cZ(d) + ')'} {cq.cbool(f)})")
                    for h, n, d, f in m)


def expected_rule(h: dict, action: list, invoked: bool, matched: bool) -> str:
    """The documented rule for one (object, index function) on one non-deletion event — the monitor's own reading."""
    if not matched:
        return 'drop'              # filter mismatch
    if not invoked:
        return 'absent'            # excluded after an error (sleeping / failed for good): must stay removed
    if action[0] == 'res':
        return 'set'
    if action[0] == 'none':
        return 'keep'
    if action[0] in ('temp', 'perm'):
        return 'drop'
    return 'keep' if h['errors'] in (None, 'IGNORED') else 'drop'


def level3_history(ctx: fw.Ctx, C: Cases, hcfgs: list[dict], events: list) -> None:
    d = Driver3(hcfgs)
    try:
        hids = [h['id'] for h in hcfgs]
        ref = Reference(hids)
        chs = cq.clist(c_hcfg(h, d.default_backoff) for h in hcfgs)
        shared = False
        hist = []
        cevents: list[str] = []
        all_ok = True
        for dt, etype, o, matching, script in events:
            d.loop.advance_by(dt)
            now = int(d.loop.time())
            pre_ix, pre_mem = snap_indexers(d.indexers), d.mem_snapshot(o)
            kind = d.event(etype, o, matching, script)
            post_ix, post_mem = snap_indexers(d.indexers), d.mem_snapshot(o)
            hist.append({'dt': dt, 'type': etype, 'obj': o, 'matching': matching, 'script': jsonable(script)})
            data = {'level': 'index_resource', 'handlers': hcfgs, 'history': list(hist), 'outcome': kind, 'calls': list(d.calls)}
            cmatch = f'(fun h => lmem String.eqb h {cq.clist(cq.cstr(h) for h in matching)})'
            cscript = f'(script_of ANone {cq.clist(cq.cpair(cq.cstr(h), c_action(a)) for h, a in script.items())})'
            call = (f'jindex_event {cq.cZ(now)} {chs} {cq.cbool(etype == "DELETED")} {cq.cnat(o)} {cmatch} {cscript} '
                    f'{c_indexers(pre_ix)} {c_mem(pre_mem)}')
            exp = c_res(kind, cq.cpair(c_indexers(post_ix), c_mem(post_mem)))
            C.add('event', f'jevent_eqb ({call}) {exp}', data, call)
            ctx.count('event_type', str(etype))
            cevents.append(f'(jevent {cq.cZ(now)} {cq.cbool(etype == "DELETED")} {cq.cnat(o)} '
                           f'{cq.clist(cq.cstr(h) for h in matching)} '
                           f'{cq.clist(cq.cpair(cq.cstr(h), c_action(a)) for h, a in script.items())})')
            if kind != 'ok':
                ctx.fail('index_resource raised', data, observed=kind, sig='index-raises')
                all_ok = False
                break
            # ---- the model's rule (rule_of) vs the harness's own reading of the documented rule, per index function
            for h in hcfgs:
                tag = 2 if etype == 'DELETED' else {'set': 0, 'keep': 1, 'drop': 2, 'absent': 2}[
                    expected_rule(h, script[h['id']], h['id'] in d.calls, h['id'] in matching)]
                rcall = (f'jrule_of {cq.cZ(now)} {c_hcfg(h, d.default_backoff)} {c_mem(pre_mem)} {cq.cbool(etype == "DELETED")} '
                         f'{cmatch} {cscript}')
                C.add('rule', f'Nat.eqb (rule_tag ({rcall})) {cq.cnat(tag)}',
                      {**data, 'handler': h['id'], 'expected_rule': ['set', 'keep', 'drop'][tag]}, f'rule_tag ({rcall})')
                ctx.count('rule_tag', ['set', 'keep', 'drop'][tag])
            # ---- monitor: the documented rules, applied by the harness to its own dictionary
            if etype == 'DELETED':
                for h in hids:
                    ref.drop(h, o)
                d.memories.pop(o, None)         # what process_resource_event does through memories.forget()
            else:
                for h in hcfgs:
                    hid = h['id']
                    rule = expected_rule(h, script[hid], hid in d.calls, hid in matching)
                    ctx.count('rule', rule)
                    if rule == 'set':
                        ref.set(hid, o, script[hid][1])
                        if isinstance(script[hid][1], dict) and not script[hid][1]:
                            ref.drop(hid, o)
                    elif rule == 'drop':
                        ref.drop(hid, o)
                    elif rule == 'absent' and o in ref.d[hid]:
                        ctx.fail('an index function excluded after an error left values in the index', data, sig='index-values')
            check_views(ctx, d.indexers.indices, ref, data, 'after index_resource')
            shared = shared or any(len(st) >= 2 for _, x in post_ix for _, st in x['items'])
        if shared:
            ctx.nontriv(['L3', hcfgs, hist])
            ctx.sample({'handlers': hcfgs, 'history': hist[:4]}, limit=3)
        if all_ok:
            # ---- the whole history through hist_run from the start state, and the reference map rule_hist, vs the end state
            final_ix = snap_indexers(d.indexers)
            mems = cq.clist(cq.cpair(cq.cnat(o), c_mem(d.mem_snapshot(o))) for o in range(len(OBJECTS)))
            objs = cq.clist(cq.cnat(o) for o in range(len(OBJECTS)))
            ces = cq.clist(cevents)
            probes = []
            keys = []
            for k in KEYPOOL:
                if k not in keys:
                    keys.append(k)
            nprobe = 0
            for h, (hid, snap) in zip(hcfgs, final_ix):
                stored = {(o, k): v for k, st in snap['items'] for o, v in st}
                for o in range(len(OBJECTS)):
                    for k in keys:
                        v = stored.get((o, k), ...)
                        probes.append(cq.cpair(c_hcfg(h, d.default_backoff), cq.cpair(cq.cnat(o), cq.cpair(
                            c_ikey(k), 'None' if v is ... else f'(Some {cq.cjson(v)})'))))
                        nprobe += 1
                        ctx.count('ref_probe', 'absent' if v is ... else 'present')
            data = {'level': 'history', 'handlers': hcfgs, 'history': list(hist)}
            term = (f'jhist_check {chs} {ces} {objs} {c_indexers(final_ix)} {mems} '
                    f'&& jref_check {chs} {ces} {cq.clist(probes)}')
            C.add('history', term, data, f'jhist_run {chs} (init_indexers {chs}, fun _ => []) {ces}')
            ctx.count('history_length', str(len(events)))
    finally:
        d.close()


def gen_history(r: Any, hcfgs: list[dict]) -> list:
    hids = [h['id'] for h in hcfgs]
    events = []
    for _ in range(r.choice([3, 5, 8, 10, 14])):
        o = r.randrange(len(OBJECTS))
        etype = r.choice([None, 'ADDED', 'MODIFIED', 'MODIFIED', 'MODIFIED', 'DELETED'])
        matching = [h for h in hids if r.random() < 0.8]
        script = {h: gen_action(r) for h in hids}
        events.append((r.choice([0, 0, 1, 4, 8, 60]), etype, o, matching, script))
    return events


CORPUS3 = [
    # the same key from three objects; re-keying; exclusion after errors; True vs 1 (Store._replace keeps the ==-equal old value)
    ([{'id': 'h1', 'errors': None, 'retries': None, 'backoff': None}, {'id': 'h2', 'errors': 'TEMPORARY', 'retries': 2, 'backoff': 4}],
     [(0, None, 0, ['h1', 'h2'], {'h1': ['res', {'x': 1}], 'h2': ['res', 'v']}),
      (0, None, 1, ['h1', 'h2'], {'h1': ['res', {'x': 2}], 'h2': ['arb']}),
      (0, 'ADDED', 2, ['h1'], {'h1': ['res', {'x': 3, 'y': 3}], 'h2': ['none']}),
      (1, 'MODIFIED', 0, ['h1', 'h2'], {'h1': ['res', {'y': True}], 'h2': ['none']}),
      (4, 'MODIFIED', 1, ['h1', 'h2'], {'h1': ['none'], 'h2': ['arb']}),
      (0, 'MODIFIED', 0, ['h1', 'h2'], {'h1': ['res', {'y': 1}], 'h2': ['temp', 8]}),
      (8, 'MODIFIED', 0, ['h2'], {'h1': ['res', {'x': 1}], 'h2': ['res', {}]}),
      (0, 'DELETED', 2, ['h1'], {'h1': ['res', 1], 'h2': ['res', 1]}),
      (0, 'ADDED', 3, ['h1', 'h2'], {'h1': ['perm'], 'h2': ['res', True]}),
      (60, 'MODIFIED', 3, ['h1', 'h2'], {'h1': ['res', 5], 'h2': ['res', 1]})]),
]


CORPUS3.append(
    # Proofs/IndexEvent.v ex_history (C17_history_example), replayed against the real code
    ([{'id': 'h1', 'errors': None, 'retries': None, 'backoff': None}, {'id': 'h2', 'errors': 'TEMPORARY', 'retries': 2, 'backoff': 4}],
     [(0, None, 0, ['h1', 'h2'], {'h1': ['res', {'x': 1}], 'h2': ['res', 'v']}),
      (0, None, 1, ['h1', 'h2'], {'h1': ['res', {'x': 2}], 'h2': ['arb']}),
      (1, 'MODIFIED', 0, ['h1', 'h2'], {'h1': ['temp', 8], 'h2': ['none']}),
      (1, 'MODIFIED', 1, ['h1'], {'h1': ['none'], 'h2': ['none']}),
      (1, 'DELETED', 1, [], {'h1': ['none'], 'h2': ['none']})]))


CORPUS3.append(
    # namesakes with different uids: 'a' (u1) is deleted and re-created (u4) and the old incarnation's DELETED is processed
    # after the new one's ADDED (separate workers per uid); and an object of another kind (u5) with the same namespace/name
    # under the same index functions.  The index must keep the values of the LIVE objects.
    ([{'id': 'h1', 'errors': None, 'retries': None, 'backoff': None}],
     [(0, None, 0, ['h1'], {'h1': ['res', {'x': 1}]}),
      (0, 'ADDED', 4, ['h1'], {'h1': ['res', {'x': 5, 'z': 5}]}),
      (1, 'ADDED', 3, ['h1'], {'h1': ['res', {'x': 2, 'y': 2}]}),
      (0, 'DELETED', 0, ['h1'], {'h1': ['none']}),
      (1, 'MODIFIED', 3, ['h1'], {'h1': ['none']}),
      (0, 'DELETED', 4, ['h1'], {'h1': ['none']})]))


def level3(ctx: fw.Ctx, C: Cases) -> None:
    r = ctx.rng
    for hcfgs, events in CORPUS3:
        guarded(ctx, 'level3', level3_history, ctx, C, hcfgs, events)
        ctx.count('sequences', 'event-corpus')
    for _ in range(ctx.scale(300, 6000)):
        hcfgs = gen_hcfgs(r)
        guarded(ctx, 'level3', level3_history, ctx, C, hcfgs, gen_history(r, hcfgs))
        ctx.count('sequences', 'event-random')


# ----------------------------------------------------------------------------------------------

def match_f11(f: dict) -> bool:
    return gate.match_f11(f)


def run(ctx: fw.Ctx) -> int:
    from kv import clock
    logging.getLogger('kv.c17').disabled = True
    logging.disable(logging.CRITICAL)
    clock.install()
    ctx.matchers = {'F11': match_f11}
    ctx.proofs()
    ok, logtxt = fw.build_models(['Model/Index.v', 'Model/Gate.v'])
    if not ok:
        ctx.correspondence_break('model build', logtxt[-1500:])
        return ctx.finish(RULE)

    C = Cases()
    guarded(ctx, 'level1-driver', level1, ctx, C)
    guarded(ctx, 'level2-driver', level2, ctx, C)
    guarded(ctx, 'level3-driver', level3, ctx, C)
    for name, by in C.by.items():
        ctx.differential(name, HEADER, list(by.values()), shard=60 if name == 'history' else 150)

    guarded(ctx, 'gate-driver', gate.run_gate, ctx)
    return ctx.finish(RULE, level_note=[
        'index keys of the model: None | str | int | (str, str); values: JSON without floats, compared by the store with '
        'Python == (py_eqb); objects numbered injectively from (namespace, name, uid), incl. namesakes with different uids (a re-created object, an object of another kind under the same index functions); internal store keys are treated opaquely',
        'user index functions, filters and handler options are oracle inputs of the model (scripts)',
        'gate: asyncio.Condition/Lock semantics as observed under the stepped loop kv.vloop (CPython 3.12)'])
