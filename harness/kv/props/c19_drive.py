"""C19 driver: the REAL kopf.infinite_watch (+ streaming_block, continuous_watch, watch_objs, api.stream,
api.request, fetching.list_objs) consumed by the harness, against kv.fakeapi.FakeAPI, under kv.vloop.

Observation points (no source change): a tap around the aiohttp-like session handed to kopf through the
vault (requests as the server receives them, responses, stream lines, how streams end), the consumer of the
generator (yields, exception), the harness's own environment actions (object changes, pause toggle).
The label list is what the Gallina acceptor `Watch.wrun` replays; the monitors in c19.py read the same
record with their own arithmetic.
"""
from __future__ import annotations

import asyncio
import json
import logging
import urllib.parse
from typing import Any

import aiohttp

from kv import fakeapi, vloop

K = fakeapi.KOPFEXAMPLE
NS = 'ns1'

ETYPES = {'ADDED': 'TAdded', 'MODIFIED': 'TModified', 'DELETED': 'TDeleted', 'BOOKMARK': 'TBookmark'}
RETRIABLE = {'conn', 'timeout', '5xx', '429', '403'}


def _rv(obj: Any) -> int | None:
    try:
        v = obj.get('metadata', {}).get('resourceVersion')
    except AttributeError:
        return None
    return int(v) if v is not None else None


def _name(obj: Any) -> str:
    try:
        return obj.get('metadata', {}).get('name') or ''
    except AttributeError:
        return ''


class HotLoop(BaseException):
    """Raised by the tap into the code under test when it sends requests in a loop that never lets the event loop
    run (every await completes synchronously): otherwise the driver would never get control back."""


HOT_LIMIT = 300       # requests at one virtual instant; legitimate scripts stay far below


class Recorder:
    def __init__(self, loop: vloop.VLoop) -> None:
        self.loop = loop
        self.hot: str | None = None
        self._t = -1.0
        self._n = 0
        self.labels: list[dict] = []     # every observation, in order; 'w' marks world-only labels
        self.active = True
        self.paused = False

    def request_tick(self) -> None:
        t = self.loop.time()
        if t != self._t:
            self._t, self._n = t, 0
        self._n += 1
        if self._n > HOT_LIMIT:
            self.hot = f'{self._n} requests at virtual time {t} without the event loop advancing'
            raise HotLoop(self.hot)

    def add(self, kind: str, **kw: Any) -> None:
        if self.active:
            self.labels.append({'l': kind, 't': self.loop.time(), 'paused': self.paused, **kw})


class TapContent:
    def __init__(self, resp: Any, rec: Recorder) -> None:
        self.resp, self.rec = resp, rec

    def iter_chunked(self, n: int) -> Any:
        return self._gen()

    async def _gen(self) -> Any:
        rec, stream = self.rec, self.resp.stream
        try:
            async for chunk in self.resp._chunks():
                for raw in chunk.splitlines():
                    if not raw.strip():
                        continue
                    d = json.loads(raw)
                    typ, obj = d.get('type'), d.get('object')
                    if typ == 'ERROR':
                        rec.add('Line', line='err', code=int(obj.get('code', 0)))
                    elif typ in ETYPES:
                        rec.add('Line', line='ev', type=typ, rv=_rv(obj), name=_name(obj))
                    else:
                        rec.add('Line', line='unknown', type=str(typ))
                yield chunk
        except GeneratorExit:
            raise                                    # the client abandoned the stream: its own decision
        except asyncio.CancelledError:
            rec.add('End', how='inactive')
            raise
        except aiohttp.ClientPayloadError:
            rec.add('End', how='payload')
            raise
        except aiohttp.ClientConnectionError:
            rec.add('End', how='conn')
            raise
        except asyncio.TimeoutError:
            rec.add('End', how='timeout')
            raise
        else:
            rec.add('End', how='closed' if stream.client_closed else 'eof')


class TapSession:
    """What kopf is given as its aiohttp session: forwards to the FakeAPI session and records."""

    def __init__(self, inner: fakeapi.Session, rec: Recorder) -> None:
        self.inner, self.rec = inner, rec
        self.headers: dict[str, str] = {}

    @property
    def closed(self) -> bool:
        return self.inner.closed

    async def close(self) -> None:
        await self.inner.close()

    async def request(self, method: str, url: str, json: Any = None, headers: Any = None, timeout: Any = None, **kw: Any) -> Any:
        rec = self.rec
        rec.request_tick()
        q = dict(urllib.parse.parse_qsl(urllib.parse.urlparse(url).query))
        is_watch = q.get('watch') == 'true'
        if is_watch:
            rec.add('ReqWatch', since=int(q['resourceVersion']) if q.get('resourceVersion') not in (None, '') else None, url=url)
        else:
            rec.add('ReqList', url=url)
        try:
            resp = await self.inner.request(method, url, json=json, headers=headers, timeout=timeout)
        except asyncio.CancelledError:
            rec.add('End', how='inactive')
            raise
        except aiohttp.ClientConnectionError:
            rec.add('Fault', f='conn')
            raise
        except asyncio.TimeoutError:
            rec.add('Fault', f='timeout')
            raise
        if resp.status >= 400:
            f = '429' if resp.status == 429 else '403' if resp.status == 403 else '5xx' if resp.status >= 500 else '4xx'
            rec.add('Fault', f=f, status=resp.status)
        elif is_watch:
            rec.add('WatchOk')
            resp.content = TapContent(resp, rec)
        else:
            p = resp._payload
            rec.add('ListOk', rv=_rv(p), items=[[_name(i), _rv(i)] for i in p.get('items', [])])
        return resp


def make_fault(kind: str) -> fakeapi.Fault:
    if kind == 'conn':
        return fakeapi.Fault(exc='connection')
    if kind == 'timeout':
        return fakeapi.Fault(exc='timeout')
    status = {'5xx': 503, '429': 429, '403': 403, '410': 410, '404': 404}[kind]
    return fakeapi.Fault(status=status)


def run_script(script: list, cfg: dict) -> dict:
    """Run one fault script.  cfg: retries (0..2), latency (virtual s per request), consumer_delay,
    start_paused, rv0 (initial value of the server's version counter, default 100).  Returns the record."""
    import kopf
    from kopf._cogs.aiokits import aiotoggles
    from kopf._cogs.clients import auth, watching
    from kopf._cogs.structs import credentials, references

    for name in ('infinite_watch', 'streaming_block', 'continuous_watch', 'watch_objs'):
        if not hasattr(watching, name):
            raise RuntimeError(f'observation point missing: watching.{name}')
    logging.getLogger('kopf').setLevel(logging.CRITICAL + 1)
    logging.getLogger('asyncio').setLevel(logging.CRITICAL + 1)

    loop = vloop.new_loop()
    callback_errors: list[str] = []
    loop.set_exception_handler(lambda lp, c: callback_errors.append(type(c.get('exception')).__name__ if c.get('exception') else str(c.get('message'))))
    out: dict[str, Any] = {}
    try:
        with vloop.running(loop):
            rec = Recorder(loop)
            api = fakeapi.FakeAPI(latency=float(cfg.get('latency', 0)))
            # resourceVersions are opaque strings for kopf; the counter starts where the scenario says (just below a
            # power of ten: versions gain a digit inside one watch run).  FakeAPI parses them as integers, so
            # non-numeric versions cannot be produced with it.
            api.rv = int(cfg.get('rv0', 100))
            sess = TapSession(api.session('w'), rec)
            vault = credentials.Vault({credentials.VaultKey('k'): credentials.AiohttpSession(server='http://fake', aiohttp_session=sess)})
            auth.vault_var.set(vault)
            settings = kopf.OperatorSettings()
            backoff = 1.0
            settings.networking.error_backoffs = [backoff] * int(cfg.get('retries', 0))
            settings.watching.server_timeout = None
            settings.watching.client_timeout = None
            settings.watching.inactivity_timeout = 64.0
            settings.watching.reconnect_backoff = 0.125
            res = references.Resource(group=K.group, version=K.version, plural=K.plural, kind=K.kind, namespaced=True,
                                      verbs=frozenset(K.verbs))
            toggles = aiotoggles.ToggleSet(any)
            box: dict[str, Any] = {}

            async def mk() -> None:
                box['t'] = await toggles.make_toggle(bool(cfg.get('start_paused', False)), name='c19')
            loop.spawn(mk())
            loop.settle()
            rec.paused = bool(cfg.get('start_paused', False))

            pending_faults: dict[str, list[str]] = {'list': [], 'watch': []}

            def fault_hook(req: fakeapi.Request) -> fakeapi.Fault | None:
                which = 'watch' if req.query.get('watch') == 'true' else 'list'
                if pending_faults[which]:
                    return make_fault(pending_faults[which].pop(0))
                return None
            api.fault_hook = fault_hook

            cdelay = float(cfg.get('consumer_delay', 0))

            async def consume() -> None:
                try:
                    async for ev in watching.infinite_watch(settings=settings, resource=res, namespace=None, operator_paused=toggles):
                        if isinstance(ev, watching.Bookmark):
                            rec.add('Yield', y='listed')
                        elif ev['type'] is None:
                            rec.add('Yield', y='item', name=_name(ev['object']), rv=_rv(ev['object']))
                        else:
                            rec.add('Yield', y='ev', type=ev['type'], name=_name(ev['object']), rv=_rv(ev['object']))
                        if cdelay:
                            await asyncio.sleep(cdelay)
                except asyncio.CancelledError:
                    raise
                except HotLoop:
                    return
                except Exception as e:
                    rec.add('Raised', exc=type(e).__name__)

            task: asyncio.Task | None = None
            counter = [0]

            def do(action: list) -> None:
                nonlocal task
                a = action[0]
                if a == 'start':
                    task = loop.spawn(consume())
                elif a == 'create':
                    if api.get(K, NS, action[1]) is None:
                        api.create(K, NS, action[1], {'spec': {'x': 0}})
                        rec.add('Change', w=True, type='ADDED', name=action[1], rv=api.rv)
                elif a == 'modify':
                    if api.get(K, NS, action[1]) is not None:
                        counter[0] += 1
                        api.merge_edit(K, NS, action[1], {'spec': {'x': counter[0]}})
                        rec.add('Change', w=True, type='MODIFIED', name=action[1], rv=api.rv)
                elif a == 'delete':
                    if api.get(K, NS, action[1]) is not None:
                        api.delete(K, NS, action[1])
                        rec.add('Change', w=True, type='DELETED', name=action[1], rv=api.rv)
                elif a == 'bookmark':
                    # FakeAPI puts injected lines before pending events: only call it on caught-up streams
                    if all(not [e for e in api.events if e['rv'] > s.cursor and s.matches(e)] for s in api.open_streams(K)):
                        rec.add('Tick', w=True)
                        api.bookmark(K)
                elif a == 'end':
                    for s in api.open_streams(K):
                        s.terminate(action[1])
                elif a == 'compact':
                    api.compact(K)
                    rec.add('Compact', w=True)
                elif a == 'error':
                    for s in api.open_streams(K):
                        s.inject.append({'type': 'ERROR', 'object': {'kind': 'Status', 'code': int(action[1]), 'message': 'injected'}})
                        s.wake.set()
                elif a == 'unknown':
                    for s in api.open_streams(K):
                        s.inject.append({'type': 'SOMETHING', 'object': {'metadata': {'resourceVersion': str(api.rv + 50)}}})
                        s.wake.set()
                elif a == 'pause':
                    if not rec.paused:
                        rec.add('Pause')
                        rec.paused = True
                        loop.spawn(box['t'].turn_to(True))
                elif a == 'resume':
                    if rec.paused:
                        rec.add('Resume')
                        rec.paused = False
                        loop.spawn(box['t'].turn_to(False))
                elif a == 'fault':
                    pending_faults[action[1]] += [action[2]] * int(action[3])
                elif a == 'run':
                    loop.run_for(float(action[1]))
                else:
                    raise ValueError(f'unknown action {action!r}')
                loop.settle()

            for action in script:
                do(action)
                if rec.hot:
                    break
            # ---- quiescence: no more faults, not paused, let everything be delivered
            mark = len(rec.labels)
            pending_faults['list'].clear()
            pending_faults['watch'].clear()
            if not rec.hot:
                do(['resume'])
                loop.run_for(8.0)
            dead = task is not None and task.done()
            out = {
                'labels': rec.labels, 'quiesce_from': mark, 'dead': dead,
                'server_objects': {k[2]: int(o['metadata']['resourceVersion']) for k, o in api.objects.items() if k[0] == K.key},
                'server_events': [{'rv': e['rv'], 'type': e['type'], 'name': e['name']} for e in api.events if e['kind'] == K.key],
                'requests': [{'watch': r.query.get('watch') == 'true', 'since': r.query.get('resourceVersion'), 't': r.t,
                              'status': r.status, 'note': r.note} for r in api.requests],
                'open_streams': len(api.open_streams(K)),
                'callback_errors': callback_errors,
                'backoff': backoff,
                'stall': rec.hot,
            }
            rec.active = False
            if task is not None and not task.done():
                task.cancel()
                loop.settle()
    finally:
        vloop.close_loop(loop)
    return out
