"""C11 — handler error policy: retry delays, permanence, retries/timeout limits.

Layers (DESIGN.md §8 C11):
  proofs   coq/Props/C11.v over Model/Outcome.v (execute_handler_once, HandlerState algebra) and
           Model/Attempts.v (generic driver LTS + run_activity/_daemon/_timer/persisted instantiations)
  D-ties   exec    : the decision table of the real execution.execute_handler_once (exhaustive product)
           state   : progression.HandlerState / State algebra incl. for_storage/from_storage
           activity, daemon, timer : real activities.run_activity / daemons._daemon / daemons._timer under the
                     stepped virtual-time loop with scripted handlers; every entry (time, retry kwarg, end)
           cycle   : real processing.process_changing_cause driven cycle by cycle (events in between, a new
                     "process" = new loop-clock origin at every restart position); the stored record after
                     every cycle and every entry
  T-ties   subhandlers    : a change handler calling kopf.execute(handlers=[...]) with 1-2 scripted sub-handlers under
                     asap / one_by_one / all_at_once; each sub-handler's observed ticks (batch start, call, raise,
                     batch end) are replayed by the generic driver [run]: accepted + same entries
           multi_activity : run_activity with 2-3 handlers; the lifecycle callback (a public parameter) snapshots every
                     handler's real HandlerState at each batch; ticks (also idle ones: not offered = not awakened)
                     are replayed by [run_check]: accepted + same state after every batch + same entries
  monitors the property text evaluated on the observed entries (spacing, count, timeout, nothing after a final
           outcome, verdict) — independent of the model.
All times are integer milliseconds, multiples of 125 ms, so kopf's float arithmetic is exact.
"""
from __future__ import annotations

import asyncio
import itertools
import logging
from typing import Any, Callable

from kv import clock, coqio as cq, framework as fw, vloop

RULE = ('cases = (handler settings errors/retries/timeout/backoff x script of what each attempt raises and how long it takes '
        'x driver [exec-once | run_activity | _daemon | _timer | process_changing_cause cycles with restarts]); '
        'non-trivial iff the script contains >= 1 non-success outcome; distinct by (driver, settings, script, schedule)')

HEADER = fw.STD_HEADER + 'From KV Require Import Model.Outcome Model.Attempts.\n'
HEADER_DEEP = HEADER + 'From KV Require Import Model.AttemptsApply Model.AttemptsBatch.\n'

Q = 125  # the time quantum, ms


# --------------------------------------------------------------------------------------
# encoders
# --------------------------------------------------------------------------------------

def sec(ms: int | None) -> float | None:
    return None if ms is None else ms / 1000.0


def to_ms(x: float | None) -> int | None:
    if x is None:
        return None
    v = x * 1000.0
    if v != int(v):
        raise ValueError(f'not an exact millisecond value: {x!r}')
    return int(v)


def coz(ms: int | None) -> str:
    return cq.copt(None if ms is None else cq.cZ(ms))


MODES = {'I': 'MIgnored', 'T': 'MTemporary', 'P': 'MPermanent'}


def c_cfg(h: dict) -> str:
    m = cq.copt(None if h['errors'] is None else MODES[h['errors']])
    return f"(mkCfg {m} {coz(h['timeout'])} {coz(h['retries'])} {coz(h['backoff'])})"


def c_env(default_mode: str, default_backoff: int) -> str:
    return f'(mkEnv {MODES[default_mode]} {cq.cZ(default_backoff)})'


def c_raised(a: tuple) -> str:
    k = a[0]
    if k == 'ok':
        return 'ROk'
    if k == 'child':
        return f'(RChild {coz(a[1])})'
    if k == 'temp':
        return f'(RTemp {coz(a[1])})'
    return {'perm': 'RPerm', 'timeoutE': 'RTimeoutE', 'retriesE': 'RRetriesE', 'arb': 'RArb'}[k]


def c_script(script: list) -> str:
    return cq.clist(cq.cpair(c_raised(a), cq.cZ(d)) for a, d in script)


def c_obs(obs: list) -> str:
    return cq.clist(f'({cq.cZ(a)}, {cq.cZ(b)}, {cq.cZ(c)})' for a, b, c in obs)


def c_hstate(s: dict) -> str:
    return (f"(mkHS {cq.cbool(s['active'])} {cq.cZ(s['started'])} {coz(s['stopped'])} {coz(s['delayed'])} "
            f"{cq.cZ(s['retries'])} {cq.cbool(s['success'])} {cq.cbool(s['failure'])})")


def c_prec(r: dict | None) -> str:
    if r is None:
        return 'None'
    ob = lambda b: cq.copt(None if b is None else cq.cbool(b))
    return (f"(Some (mkRec {coz(r.get('started'))} {coz(r.get('stopped'))} {coz(r.get('delayed'))} {coz(r.get('retries'))} "
            f"{ob(r.get('success'))} {ob(r.get('failure'))}))")


# --------------------------------------------------------------------------------------
# the implementation side
# --------------------------------------------------------------------------------------

class K:
    """Lazy import of kopf (from $KOPF_REPO) + constants."""
    ready = False

    @classmethod
    def load(cls) -> None:
        if cls.ready:
            return
        clock.install()
        logging.disable(logging.CRITICAL)
        from kopf._cogs.configs import configuration
        from kopf._cogs.structs import bodies, ephemera, patches, references
        from kopf._core.actions import execution, lifecycles, progression
        from kopf._core.engines import activities, daemons
        from kopf._core.intents import causes, handlers, registries, stoppers
        from kopf._core.reactor import inventory, processing
        cls.configuration, cls.bodies, cls.ephemera, cls.patches, cls.references = configuration, bodies, ephemera, patches, references
        cls.execution, cls.lifecycles, cls.progression = execution, lifecycles, progression
        cls.activities, cls.daemons = activities, daemons
        cls.causes, cls.handlers, cls.registries, cls.stoppers = causes, handlers, registries, stoppers
        cls.inventory, cls.processing = inventory, processing
        cls.logger = logging.getLogger('kv.c11')
        cls.RES = references.Resource(group='kopf.dev', version='v1', plural='kexs', kind='Kex', singular='kex',
                                      shortcuts=frozenset(), categories=frozenset(), subresources=frozenset(),
                                      namespaced=True, preferred=True, verbs=frozenset())
        cls.MODE = {None: None, 'I': execution.ErrorsMode.IGNORED, 'T': execution.ErrorsMode.TEMPORARY,
                    'P': execution.ErrorsMode.PERMANENT}
        cls.ready = True


class Arbitrary(Exception):
    pass


ARBS: list[Callable[[], Exception]] = [lambda: ValueError('v'), lambda: KeyError('k'), lambda: RuntimeError('r'),
                                       lambda: Arbitrary('a'), lambda: asyncio.TimeoutError(), lambda: ZeroDivisionError()]


def make_exc(a: tuple, variant: int = 0) -> Exception | None:
    ex = K.execution
    k = a[0]
    if k == 'ok':
        return None
    if k == 'child':
        return ex.HandlerChildrenRetry('children', delay=sec(a[1]))
    if k == 'temp':
        return ex.TemporaryError('temporary', delay=sec(a[1]))
    if k == 'perm':
        return ex.PermanentError('permanent')
    if k == 'timeoutE':
        return ex.HandlerTimeoutError('timeout from inside')
    if k == 'retriesE':
        return ex.HandlerRetriesError('retries from inside')
    return ARBS[variant % len(ARBS)]()


def exn_kind(e: BaseException | None) -> str:
    ex = K.execution
    if e is None:
        return 'XNone'
    if isinstance(e, ex.HandlerChildrenRetry):
        return 'XChild'
    if isinstance(e, ex.TemporaryError):
        return 'XTemp'
    if isinstance(e, ex.HandlerTimeoutError):
        return 'XTimeout'
    if isinstance(e, ex.HandlerRetriesError):
        return 'XRetries'
    if isinstance(e, ex.PermanentError):
        return 'XPerm'
    return 'XArb'


def settings_with(default_backoff: int) -> Any:
    s = K.configuration.OperatorSettings()
    s.execution.default_backoff = sec(default_backoff)
    return s


class Scripted:
    """The user function: does what the script says, records (time entered, retry kwarg, time left)."""

    def __init__(self, script: list, variant: int = 0) -> None:
        self.script = list(script)
        self.pos = 0
        self.calls: list[list[int]] = []
        self.variant = variant

    @property
    def fn(self) -> Any:
        async def scripted_handler(retry: int, **_: Any) -> None:
            await self.enter(retry)
        return scripted_handler

    async def enter(self, retry: int) -> None:
        loop = asyncio.get_running_loop()
        rec = [to_ms(loop.time() + clock._state['offset']), retry, None]
        self.calls.append(rec)  # type: ignore[arg-type]
        a, dur = self.script[self.pos] if self.pos < len(self.script) else (('ok',), 0)
        self.pos += 1
        try:
            if dur > 0:
                await asyncio.sleep(sec(dur))
        finally:
            rec[2] = to_ms(loop.time() + clock._state['offset'])
        e = make_exc(a, self.variant + self.pos)
        if e is not None:
            raise e


class Hang(BaseException):
    """Raised by the wall-clock watchdog inside code that loops without ever yielding to the event loop."""


def _on_alarm(signum: int, frame: Any) -> None:
    raise Hang('no yield to the event loop for 4 wall-clock seconds')


def run_loop(make: Callable[[], Any], start: int, horizon: int, stop: tuple | None = None) -> tuple[Any, int, bool]:
    """Run one coroutine to completion in a fresh stepped loop starting at `start` ms. -> (result|exception, end ms, finished?)
    A busy loop of the code under test (with or without yielding) comes back as (vloop.Stall, t, False), never as a hang."""
    import signal
    loop = vloop.new_loop(sec(start))
    loop.max_spins = 1500     # a busy loop of the code under test becomes a finding quickly
    previous = signal.signal(signal.SIGALRM, _on_alarm)
    signal.setitimer(signal.ITIMER_REAL, 4.0)
    try:
        with vloop.running(loop):
            task = loop.spawn(make())
            if stop is not None:
                at, fn = stop
                loop.call_at(sec(at), fn)
            try:
                loop.run_until(task.done, sec(horizon))
            except (vloop.Stall, Hang) as e:
                signal.setitimer(signal.ITIMER_REAL, 0)
                task.cancel()
                return vloop.Stall(str(e)), to_ms(loop.time()), False
            signal.setitimer(signal.ITIMER_REAL, 0)
            end = to_ms(loop.time())
            if not task.done():
                return None, end, False
            if task.cancelled():
                return asyncio.CancelledError(), end, True
            exc = task.exception()
            if isinstance(exc, Hang):      # the watchdog fired inside the task: asyncio stored it in the task
                return vloop.Stall(str(exc)), end, False
            return (exc if exc is not None else task.result()), end, True
    finally:
        signal.setitimer(signal.ITIMER_REAL, 0)
        signal.signal(signal.SIGALRM, previous)
        try:
            vloop.close_loop(loop)
        except Hang:
            pass


def handler_kwargs(h: dict, fn: Any) -> dict:
    return dict(fn=fn, param=None, errors=K.MODE[h['errors']], timeout=sec(h['timeout']), retries=h['retries'],
                backoff=sec(h['backoff']))


RESOURCE_KW = dict(labels=None, annotations=None, when=None, field=None, value=None)


def new_body() -> Any:
    return K.bodies.Body({'apiVersion': 'kopf.dev/v1', 'kind': 'Kex',
                          'metadata': {'name': 'n', 'namespace': 'ns', 'uid': 'u'}, 'spec': {'x': 1}})


def daemon_cause(stopper: Any) -> Any:
    body = new_body()
    return K.causes.DaemonCause(resource=K.RES, indices={}, logger=K.logger, memo=K.ephemera.Memo(), body=body,
                                patch=K.patches.Patch({}, body=body), stopper=stopper)


# --------------------------------------------------------------------------------------
# monitors: the property text on observed entries (independent of the model)
# --------------------------------------------------------------------------------------

def eff_mode(h: dict, default: str = 'T') -> str:
    return h['errors'] if h['errors'] is not None else default


def requested_delay(h: dict, a: tuple, default_backoff: int, default_mode: str = 'T') -> int | None:
    """The delay the failing attempt asked for, or None when the attempt does not ask for a retry."""
    if a[0] in ('temp', 'child'):
        return a[1] or 0
    if a[0] == 'arb' and eff_mode(h, default_mode) == 'T':
        return h['backoff'] if h['backoff'] is not None else default_backoff
    return None


def ends_it(h: dict, a: tuple, default_mode: str = 'T') -> str | None:
    """'failure' / 'success' when by the property text this attempt must be the last one regardless of limits."""
    if a[0] == 'ok':
        return 'success'
    if a[0] in ('perm', 'timeoutE', 'retriesE'):
        return 'failure'
    if a[0] == 'arb':
        m = eff_mode(h, default_mode)
        return 'failure' if m == 'P' else 'success' if m == 'I' else None
    return None


def check_series(ctx: fw.Ctx, case: dict, h: dict, script_at: Callable[[int], tuple], calls: list, first_index: int,
                 default_backoff: int, complete: bool) -> str | None:
    """One state lifetime: calls = [(t, retry, end)], script_at(i) = what the i-th entry (global index) did.
    Returns the verdict the property prescribes ('success'/'failure'/None=still running)."""
    N, T = h['retries'], h['timeout']
    # retries=N with N <= 0: "invoked at most N times ... recorded as failed for good" without a single entry
    verdict = 'failure' if (N is not None and N <= 0) else None
    for j, (t, retry, end) in enumerate(calls):
        a = script_at(first_index + j)
        ctx.count('attempt_outcome', a[0])
        if retry != j:
            ctx.fail('retry kwarg does not count the previous attempts', case, {'entry': j, 'retry': retry, 'calls': calls},
                     sig='retry-kwarg')
        if N is not None and j + 1 > N:
            ctx.fail(f'handler with retries={N} entered more than {N} times', case, {'entry': j, 'calls': calls},
                     sig='more-than-N-invocations')
        if T is not None and t - calls[0][0] > T:
            ctx.fail(f'an attempt started later than timeout={T} ms after the first one', case,
                     {'entry': j, 'at': t, 'first': calls[0][0]}, sig='start-after-timeout')
        if verdict is not None:
            ctx.fail(f'handler entered again after it had ended with {verdict}', case, {'entry': j, 'calls': calls},
                     sig='entry-after-final')
        if j > 0:
            prev = script_at(first_index + j - 1)
            req = requested_delay(h, prev, default_backoff)
            if req is not None and t < calls[j - 1][2] + req:
                ctx.fail('retried sooner than the requested delay/backoff', case,
                         {'entry': j, 'at': t, 'previous_end': calls[j - 1][2], 'requested': req}, sig='retry-too-soon')
        e = ends_it(h, a)
        if e is not None:
            verdict = e
        elif N is not None and j + 1 >= N:
            verdict = 'failure'
    # "is retried": a temporary failure below every limit must be followed by another attempt (if the run was not cut)
    if complete and calls and verdict is None and T is None:
        ctx.fail('a temporary failure below the limits was not retried', case, {'calls': calls}, sig='not-retried')
    return verdict


# --------------------------------------------------------------------------------------
# generators
# --------------------------------------------------------------------------------------

DELAYS = [None, 0, 250, 500, 1000, 1500, -250]
DURS = [0, 0, 0, 250, 500]


def gen_cfg(r: Any) -> dict:
    return {'errors': r.choice([None, None, 'T', 'P', 'I']),
            'retries': r.choice([None, None, 0, 1, 2, 3, 4]),
            'timeout': r.choice([None, None, 500, 1000, 2000, 3000]),
            'backoff': r.choice([None, 0, 250, 750])}


def gen_action(r: Any) -> tuple:
    k = r.choice(['ok', 'temp', 'temp', 'temp', 'arb', 'arb', 'perm', 'child', 'timeoutE', 'retriesE', 'temp', 'arb'])
    if k in ('temp', 'child'):
        return (k, r.choice(DELAYS))
    return (k,)


def gen_script(r: Any, maxlen: int = 6) -> list:
    n = r.choice([0, 1, 2, 2, 3, 3, 4, 5, maxlen])
    return [(gen_action(r), r.choice(DURS)) for _ in range(n)]


def nontrivial(script: list) -> bool:
    return any(a[0] != 'ok' for a, _ in script)


# --------------------------------------------------------------------------------------
# part A: the decision table of execute_handler_once
# --------------------------------------------------------------------------------------

def part_exec(ctx: fw.Ctx) -> None:
    K.load()
    ex = K.execution
    cases: list[fw.Case] = []
    T, d, b = 2500, 500, 750      # T is not a whole number of seconds: any rounding of the runtime shows
    modes = [(None, 'T'), (None, 'I'), (None, 'P'), ('T', 'T'), ('I', 'T'), ('P', 'I')]
    acts = [('ok',), ('perm',), ('timeoutE',), ('retriesE',), ('arb',), ('temp', None), ('temp', 0), ('temp', d), ('temp', -250),
            ('child', None), ('child', 0), ('child', d)]
    retries_l = [None, 0, 1, 2, 3]
    sofar_l = [0, 1, 2, 3, 4]
    # runtime regions relative to T with the look-ahead windows of d and b
    times = [(None, 0), (None, 5000)] + [(T, x) for x in (0, T - b - Q, T - b, T - d - Q, T - d, T - d + Q, T - Q, T, T + Q)]
    backoffs = [None, 0, b]
    default_backoff = 1000
    if not ctx.thorough:   # quick: the table without the combinations that cannot interact
        retries_l = [None, 0, 1, 2]
        sofar_l = [0, 1, 2, 3]
    durs = [0, Q]      # the handler's own duration moves the look-ahead (not the strict) checks
    loop = vloop.new_loop(0.0)
    settings = settings_with(default_backoff)
    cause = ex.Cause(logger=K.logger)
    variant = 0
    try:
        with vloop.running(loop):
            for (hm, dm), a, N, n, (Tm, rt), bo, dur in itertools.product(modes, acts, retries_l, sofar_l, times, backoffs, durs):
                if bo is not None and a[0] != 'arb' and not ctx.thorough:
                    continue   # the backoff is read only for arbitrary errors
                if dur and (Tm is None or a[0] in ('ok', 'perm', 'timeoutE', 'retriesE')) and not ctx.thorough:
                    continue   # the duration matters only for the timeout look-ahead
                h = {'errors': hm, 'retries': N, 'timeout': Tm, 'backoff': bo}
                variant += 1
                now = 100000
                entered: list[int] = []
                exc = make_exc(a, variant)

                async def fn(retry: int, **_: Any) -> None:
                    entered.append(retry)
                    if dur:
                        await asyncio.sleep(sec(dur))
                    if exc is not None:
                        raise exc

                handler = ex.Handler(id='h', **handler_kwargs(h, fn))
                state = K.progression.HandlerState(active=True, basetime=clock.at(sec(now) - loop.time()),
                                                   started=clock.at(sec(now - rt)), retries=n)
                task = loop.spawn(ex.execute_handler_once(settings=settings, handler=handler, cause=cause, state=state,
                                                          default_errors=K.MODE[dm]))
                loop.run_until(task.done, loop.time() + 10.0)
                out = task.result()
                called = bool(entered)
                final, delay, xk = out.final, to_ms(out.delay), exn_kind(out.exception)
                data = {'handler': h, 'default_errors': dm, 'default_backoff': default_backoff, 'raises': list(a),
                        'retries_so_far': n, 'runtime': rt, 'duration': dur,
                        'outcome': {'final': final, 'delay': delay, 'exception': xk, 'entered': called}}
                call = f'exec {c_env(dm, default_backoff)} {c_cfg(h)} {cq.cZ(n)} {cq.cZ(rt)} {cq.cZ(rt + (dur if called else 0))} {c_raised(a)}'
                cases.append(fw.Case(f'exec_eqb ({call}) (mkOut {cq.cbool(final)} {coz(delay)} {xk}, {cq.cbool(called)})', data, diag=call))
                ctx.count('exec_branch', ('strict:' if not called else a[0] + ':') + xk + (':final' if final else ':retry'))
                if a[0] != 'ok':
                    ctx.nontriv(['exec', h, dm, list(a), n, rt, dur])
                # ---- monitors (the property text on one invocation)
                if entered and entered[0] != n:
                    ctx.fail('retry kwarg differs from the recorded number of attempts', data, entered[0], n, sig='retry-kwarg')
                if called and N is not None and n >= N:
                    ctx.fail(f'handler entered although it had already been tried {n} >= retries={N} times', data, sig='more-than-N-invocations')
                if called and Tm is not None and rt > Tm:
                    ctx.fail(f'attempt started {rt} ms after the start with timeout={Tm}', data, sig='start-after-timeout')
                if not called:
                    if not ((N is not None and n >= N) or (Tm is not None and rt >= Tm)):
                        ctx.fail('handler not entered although no limit is reached', data, sig='skipped-without-limit')
                    if not (final and xk != 'XNone'):
                        ctx.fail('limit reached but not recorded as failed for good', data, sig='limit-not-final-failure')
                    continue
                e = ends_it(h, a, dm)
                if e == 'success' and not (final and xk == 'XNone'):
                    ctx.fail('success / ignored error does not count as done', data, sig='ignored-not-done' if a[0] == 'arb' else 'ok-not-done')
                if e == 'failure' and not (final and xk != 'XNone'):
                    ctx.fail('a permanent error (or an arbitrary one in permanent mode) does not end the handler as failed', data,
                             sig='permanent-not-final')
                req = requested_delay(h, a, default_backoff, dm)
                if req is not None:
                    if not final and (delay or 0) < req:
                        ctx.fail('retry scheduled sooner than the requested delay/backoff', data, delay, req, sig='retry-too-soon')
                    if final and xk == 'XNone':
                        ctx.fail('a temporary failure counted as success', data, sig='temporary-as-success')
                    lim = (N is not None and n + 1 >= N) or (Tm is not None and rt + dur + req >= Tm)
                    if final and not lim:
                        ctx.fail('a temporary failure below every limit is not retried', data, sig='not-retried')
                    if not final and N is not None and n + 1 > N:
                        ctx.fail('retry scheduled beyond retries=N', data, sig='more-than-N-invocations')
    finally:
        vloop.close_loop(loop)
    ctx.sample(cases[len(cases) // 3].data)
    ctx.differential('exec', HEADER, cases, shard=1500)


# --------------------------------------------------------------------------------------
# part B: HandlerState / State algebra, storage round trip
# --------------------------------------------------------------------------------------

def hs_fields(s: Any) -> dict:
    def rel(x: Any) -> int | None:
        return None if x is None else to_ms((x - clock.EPOCH).total_seconds())
    return {'active': s.active, 'started': rel(s.started), 'stopped': rel(s.stopped), 'delayed': rel(s.delayed),
            'retries': s.retries, 'success': s.success, 'failure': s.failure}


def rec_fields(rec: Any) -> dict | None:
    """A stored progress record -> the modelled fields in ms since the epoch."""
    if rec is None:
        return None
    import datetime as dt

    def rel(x: Any) -> int | None:
        if x is None:
            return None
        v = dt.datetime.fromisoformat(x)
        if v.tzinfo is None:
            v = v.replace(tzinfo=dt.timezone.utc)
        return to_ms((v - clock.EPOCH).total_seconds())
    return {'started': rel(rec.get('started')), 'stopped': rel(rec.get('stopped')), 'delayed': rel(rec.get('delayed')),
            'retries': rec.get('retries'), 'success': rec.get('success'), 'failure': rec.get('failure')}


def part_state(ctx: fw.Ctx) -> None:
    K.load()
    r = ctx.rng
    pg, ex = K.progression, K.execution
    n = ctx.scale(700, 5000)
    cases: dict[str, list[fw.Case]] = {'with_outcome': [], 'predicates': [], 'with_purpose': [], 'storage': [], 'state': []}
    loop = vloop.new_loop(0.0)

    def gen_hs(now: int) -> dict:
        fin = r.choice(['no', 'no', 'no', 'ok', 'fail', 'both'])
        return {'active': r.random() < 0.8, 'started': now - r.choice([0, Q, 1000, 5000]),
                'stopped': r.choice([None, None, now - Q]),
                'delayed': r.choice([None, now - 1000, now - Q, now, now + Q, now + 1000]),
                'retries': r.choice([0, 1, 2, 5]), 'success': fin in ('ok', 'both'), 'failure': fin in ('fail', 'both')}

    def real(s: dict, now: int) -> Any:
        at = lambda x: None if x is None else clock.at(sec(x))
        return pg.HandlerState(active=s['active'], basetime=clock.at(sec(now)), started=at(s['started']), stopped=at(s['stopped']),
                               delayed=at(s['delayed']), retries=s['retries'], success=s['success'], failure=s['failure'])

    try:
        with vloop.running(loop):
            for i in range(n):
                now = r.choice([10000, 20000, 123000])
                s = gen_hs(now)
                hs = real(s, now)
                # predicates
                got = (hs.finished, hs.sleeping, hs.awakened, to_ms(hs.runtime.total_seconds()))
                term = (f'Bool.eqb (finished {c_hstate(s)}) {cq.cbool(got[0])} && Bool.eqb (sleeping {cq.cZ(now)} {c_hstate(s)}) {cq.cbool(got[1])} '
                        f'&& Bool.eqb (awakened {cq.cZ(now)} {c_hstate(s)}) {cq.cbool(got[2])} && (runtime {cq.cZ(now)} {c_hstate(s)} =? {cq.cZ(got[3])})')
                cases['predicates'].append(fw.Case(term, {'state': s, 'now': now, 'finished/sleeping/awakened/runtime': list(got)}))
                ctx.count('state_predicates', f'finished={got[0]} sleeping={got[1]}')
                if got[2] and s['delayed'] is not None and s['delayed'] > now:
                    ctx.fail('handler awakened before its delayed timestamp', {'state': s, 'now': now}, sig='awake-before-delayed')
                if got[2] and (s['success'] or s['failure']):
                    ctx.fail('finished handler is awakened', {'state': s, 'now': now}, sig='entry-after-final')
                if not got[0] and not got[2] and not (s['delayed'] is not None and s['delayed'] > now):
                    ctx.fail('unfinished handler not awakened although its delay has elapsed', {'state': s, 'now': now}, sig='not-retried')
                # with_outcome
                final = r.random() < 0.5
                delay = r.choice([None, 0, 250, 1000, -250])
                xk = r.choice(['XNone', 'XTemp', 'XPerm', 'XArb', 'XTimeout'])
                exc = {'XNone': None, 'XTemp': ex.TemporaryError('t'), 'XPerm': ex.PermanentError('p'), 'XArb': ValueError('v'),
                       'XTimeout': ex.HandlerTimeoutError('x')}[xk]
                out = ex.Outcome(final=final, delay=sec(delay), exception=exc)
                s2 = hs_fields(hs.with_outcome(out))
                term = f'hstate_eqb (with_outcome {cq.cZ(now)} {c_hstate(s)} (mkOut {cq.cbool(final)} {coz(delay)} {xk})) {c_hstate(s2)}'
                cases['with_outcome'].append(fw.Case(term, {'state': s, 'now': now, 'outcome': [final, delay, xk], 'result': s2},
                                                     diag=f'with_outcome {cq.cZ(now)} {c_hstate(s)} (mkOut {cq.cbool(final)} {coz(delay)} {xk})'))
                if s2['retries'] != s['retries'] + 1:
                    ctx.fail('attempt not counted', {'state': s, 'result': s2}, sig='attempt-not-counted')
                if delay is not None and s2['delayed'] != now + delay:
                    ctx.fail('delayed timestamp is not now + requested delay', {'state': s, 'now': now, 'delay': delay, 'result': s2},
                             sig='retry-too-soon' if (s2['delayed'] or now) < now + delay else 'wrong-delay')
                if s2['failure'] != (final and exc is not None) or s2['success'] != (final and exc is None):
                    ctx.fail('final outcome not recorded as success/failure', {'outcome': [final, delay, xk], 'result': s2}, sig='verdict')
                # with_purpose (one cause supersedes another while the handler may be sleeping): nothing but the purpose changes
                purpose = r.choice(['create', 'update', 'delete', 'resume', None])
                s3 = hs_fields(hs.with_purpose(purpose))
                group_p = pg.State({'h': hs, 'other': real(gen_hs(now), now)}, basetime=clock.at(sec(now)))
                s4 = hs_fields(group_p.with_purpose(purpose, handlers=[ex.Handler(id='h', fn=None, param=None, errors=None, timeout=None,
                                                                                  retries=None, backoff=None)])['h'])
                cases['with_purpose'].append(fw.Case(
                    f'hstate_eqb (with_purpose {c_hstate(s)}) {c_hstate(s3)} && hstate_eqb (with_purpose {c_hstate(s)}) {c_hstate(s4)}',
                    {'state': s, 'purpose': purpose, 'HandlerState.with_purpose': s3, 'State.with_purpose(handlers)': s4},
                    diag=f'with_purpose {c_hstate(s)}'))
                ctx.count('with_purpose', ('sleeping' if got[1] else 'finished' if got[0] else 'awake') + ' -> ' + str(purpose))
                # (a difference here is reported by the tie; the failing HISTORY comes from part_supersession's call log)
                # storage: for_storage, from_storage (also of partial records), round trip
                stored = hs.for_storage()
                rf = rec_fields(stored)
                cases['storage'].append(fw.Case(f'oprec_eqb (Some (for_storage {c_hstate(s)})) {c_prec(rf)}', {'state': s, 'record': dict(stored)}))
                partial = {k: v for k, v in dict(stored).items() if r.random() < 0.75}
                now2 = now + r.choice([0, 1000, 77000])
                basetime2 = clock.at(sec(now2))
                back = hs_fields(pg.HandlerState.from_storage(pg.progress.ProgressRecord(**partial), basetime=basetime2))  # type: ignore
                cases['storage'].append(fw.Case(f'hstate_eqb (from_storage {cq.cZ(now2)} (match {c_prec(rec_fields(partial))} with Some x => x | None => mkRec None None None None None None end)) {c_hstate(back)}',
                                                {'record': partial, 'now': now2, 'state': back}))
                rt = hs_fields(pg.HandlerState.from_storage(stored, basetime=basetime2))
                if {k: v for k, v in rt.items() if k != 'active'} != {k: v for k, v in s.items() if k != 'active'}:
                    ctx.fail('state read back from its stored record differs (count / started / delayed lost across a restart)',
                             {'state': s, 'record': dict(stored)}, rt, s, sig='storage-roundtrip')
                # State.done / delays / delay over 1..3 handlers
                group = [s] + [gen_hs(now) for _ in range(r.choice([0, 1, 2]))]
                st = pg.State({f'h{j}': real(x, now) for j, x in enumerate(group)}, basetime=clock.at(sec(now)))
                done, delays, delay1 = st.done, [to_ms(float(x)) for x in st.delays], to_ms(None if st.delay is None else float(st.delay))
                gl = cq.clist(c_hstate(x) for x in group)
                term = (f'Bool.eqb (st_done {gl}) {cq.cbool(done)} && zlist_eqb (st_delays {cq.cZ(now)} {gl}) {cq.clist(cq.cZ(x) for x in delays)} '
                        f'&& oz_eqb (st_delay {cq.cZ(now)} {gl}) {coz(delay1)}')
                cases['state'].append(fw.Case(term, {'states': group, 'now': now, 'done': done, 'delays': delays, 'delay': delay1}))
                if i < 2:
                    ctx.sample({'state': s, 'now': now, 'outcome': [final, delay, xk], 'after': s2})
    finally:
        vloop.close_loop(loop)
    for name, cs in cases.items():
        ctx.differential('state_' + name, HEADER, cs, shard=700)


# --------------------------------------------------------------------------------------
# part C: the in-memory drivers (run_activity, _daemon, _timer)
# --------------------------------------------------------------------------------------

DEFAULT_BACKOFF = 1000


def run_activity(h: dict, script: list, t0: int, variant: int) -> tuple[list, str, int]:
    fn = Scripted(script, variant)
    reg = K.registries.OperatorRegistry()
    reg._activities.append(K.handlers.ActivityHandler(id='act', activity=K.causes.Activity.STARTUP, **handler_kwargs(h, fn.fn)))
    settings = settings_with(DEFAULT_BACKOFF)
    res, end, finished = run_loop(lambda: K.activities.run_activity(
        lifecycle=K.lifecycles.all_at_once, registry=reg, settings=settings, activity=K.causes.Activity.STARTUP,
        indices={}, memo=K.ephemera.Memo()), t0, t0 + 600000)
    if not finished:
        verdict = 'stalled' if isinstance(res, vloop.Stall) else 'running'
    elif isinstance(res, K.activities.ActivityError):
        verdict = 'failure'
    elif isinstance(res, BaseException):
        raise res
    else:
        verdict = 'success'
    return [tuple(c) for c in fn.calls], verdict, end


def run_daemon(h: dict, script: list, t0: int, stop: int | None, variant: int) -> tuple[list, int, bool]:
    fn = Scripted(script, variant)
    stopper = K.stoppers.DaemonStopper()
    handler = K.handlers.DaemonHandler(id='dmn', selector=None, requires_finalizer=None, initial_delay=None,
                                       cancellation_backoff=None, cancellation_timeout=None, cancellation_polling=None,
                                       **RESOURCE_KW, **handler_kwargs(h, fn.fn))
    settings = settings_with(DEFAULT_BACKOFF)
    res, end, finished = run_loop(lambda: K.daemons._daemon(settings=settings, handler=handler, cause=daemon_cause(stopper)),
                                  t0, t0 + 600000,
                                  stop=None if stop is None else (stop, lambda: stopper.set(reason=K.stoppers.DaemonStoppingReason.RESOURCE_DELETED)))
    if isinstance(res, BaseException) and finished:
        raise res
    return [tuple(c) for c in fn.calls], end, finished


def run_timer(h: dict, script: list, t0: int, interval: int | None, sharp: bool, stop: int, variant: int) -> tuple[list, int, bool]:
    fn = Scripted(script, variant)
    stopper = K.stoppers.DaemonStopper()
    handler = K.handlers.TimerHandler(id='tmr', selector=None, requires_finalizer=None, initial_delay=None,
                                      sharp=sharp, idle=None, interval=sec(interval), **RESOURCE_KW, **handler_kwargs(h, fn.fn))
    settings = settings_with(DEFAULT_BACKOFF)
    memory = None

    async def go() -> None:
        await K.daemons._timer(settings=settings, handler=handler, memory=K.daemons.DaemonsMemory(), cause=daemon_cause(stopper))
    res, end, finished = run_loop(go, t0, stop + 600000,
                                  stop=(stop, lambda: stopper.set(reason=K.stoppers.DaemonStoppingReason.RESOURCE_DELETED)))
    if isinstance(res, BaseException) and finished:
        raise res
    return [tuple(c) for c in fn.calls], end, finished


def split_series(calls: list) -> list[list]:
    out: list[list] = []
    for c in calls:
        if c[1] == 0 or not out:
            out.append([])
        out[-1].append(c)
    return out


TIMER_CORPUS = [
    # regression cases of the fixed finding F9: a permanently failing timer, and a timer with retries=2, must
    # NOT be invoked again on the next interval
    ({'errors': None, 'retries': None, 'timeout': None, 'backoff': None}, [(('perm',), 0)] * 4, 1000, 10000, False, 35125),
    ({'errors': None, 'retries': 2, 'timeout': None, 'backoff': 250}, [(('arb',), 0)] * 6, 1000, 2000, False, 9125),
    ({'errors': 'P', 'retries': None, 'timeout': None, 'backoff': None}, [(('arb',), 250)] * 3, 0, 1000, True, 4125),
]


def too_many_hangs(ctx: fw.Ctx, limit: int = 12) -> bool:
    """Under a change that makes the drivers spin, a dozen witnesses are enough; keep the check's run time bounded."""
    return sum(1 for f in ctx.failures if f['sig'] == 'not-finished') >= limit


def script_at(script: list) -> Callable[[int], tuple]:
    return lambda k: tuple(script[k][0]) if k < len(script) else ('ok',)


def do_activity(ctx: fw.Ctx, D: dict, h: dict, script: list, t0: int, i: int) -> None:
    env = c_env('T', DEFAULT_BACKOFF)
    at = script_at(script)
    calls, verdict, end = run_activity(h, script, t0, i)
    case = {'driver': 'activity', 'handler': h, 'script': script, 't0': t0}
    ctx.count('driver', 'activity')
    ctx.count('verdict', 'activity:' + verdict)
    if nontrivial(script):
        ctx.nontriv(['activity', h, script])
    if i < 2:
        ctx.sample({**case, 'entries': calls, 'verdict': verdict})
    expected = check_series(ctx, case, h, at, calls, 0, DEFAULT_BACKOFF, complete=verdict in ('success', 'failure'))
    if verdict in ('running', 'stalled'):
        ctx.fail('activity did not finish: ' + ('busy loop without progress of time' if verdict == 'stalled' else '600 virtual seconds'),
                 case, {'calls': calls}, sig='not-finished')
    elif h['timeout'] is None and expected is not None and verdict != expected:
        ctx.fail(f'activity ended with {verdict}, the property prescribes {expected}', case, {'calls': calls}, sig='verdict')
    fuel = len(script) + 4
    tr = f'act_trace {cq.cnat(fuel)} {env} {c_cfg(h)} {cq.cZ(t0)} (from_scratch {cq.cZ(t0)}) {c_script(script)}'
    fin = f"({cq.cbool(verdict == 'success')}, {cq.cbool(verdict == 'failure')})"
    D['activity'].append(fw.Case(f'trace_matches {env} {c_cfg(h)} {cq.cZ(t0)} ({tr}) {c_obs(calls)} {fin}',
                                 {**case, 'entries': calls, 'verdict': verdict},
                                 diag=f'option_map (map obs_of) (entries_of {env} {c_cfg(h)} {cq.cZ(t0)} ({tr}))'))


def do_daemon(ctx: fw.Ctx, D: dict, h: dict, script: list, t0: int, stop: int | None, i: int) -> None:
    env = c_env('T', DEFAULT_BACKOFF)
    at = script_at(script)
    calls, end, finished = run_daemon(h, script, t0, stop, i)
    case = {'driver': 'daemon', 'handler': h, 'script': script, 't0': t0, 'stop': stop}
    ctx.count('driver', 'daemon')
    if nontrivial(script):
        ctx.nontriv(['daemon', h, script, stop])
    stopped_early = stop is not None and end >= stop
    check_series(ctx, case, h, at, calls, 0, DEFAULT_BACKOFF, complete=finished and not stopped_early)
    if not finished:
        ctx.fail('daemon did not exit (busy loop without progress of time, or 600 virtual seconds)', case, {'calls': calls[:20]},
                 sig='not-finished')
    if stop is not None and any(c[0] > stop for c in calls):
        ctx.fail('daemon entered after its stopper was set', case, {'calls': calls}, sig='entry-after-stop')
    fuel = len(script) + 4
    tr = f'dmn_trace {cq.cnat(fuel)} {env} {c_cfg(h)} {coz(stop)} {cq.cZ(t0)} (from_scratch {cq.cZ(t0)}) {c_script(script)}'
    D['daemon'].append(fw.Case(f'trace_entries_match {env} {c_cfg(h)} {cq.cZ(t0)} ({tr}) {c_obs(calls)}',
                               {**case, 'entries': calls, 'exit': end},
                               diag=f'option_map (map obs_of) (entries_of {env} {c_cfg(h)} {cq.cZ(t0)} ({tr}))'))


def do_timer(ctx: fw.Ctx, D: dict, h: dict, script: list, t0: int, interval: int | None, sharp: bool, stop: int, i: int) -> None:
    env = c_env('T', DEFAULT_BACKOFF)
    at = script_at(script)
    calls, end, finished = run_timer(h, script, t0, interval, sharp, stop, i)
    case = {'driver': 'timer', 'handler': h, 'script': script, 't0': t0, 'interval': interval, 'sharp': sharp, 'stop': stop}
    ctx.count('driver', 'timer')
    if nontrivial(script):
        ctx.nontriv(['timer', h, script, interval, sharp, stop])
    if i == 0:
        ctx.sample({**case, 'entries': calls})
    if not finished:
        ctx.fail('timer did not exit (busy loop without progress of time, or 600 virtual seconds after its stopper was set)', case,
                 {'calls': calls[:20]}, sig='not-finished')
    if any(c[0] > stop for c in calls):
        ctx.fail('timer entered after its stopper was set', case, {'calls': calls}, sig='entry-after-stop')
    series = split_series(calls)
    idx = 0
    prev_verdict: str | None = None
    prev_last: tuple | None = None
    for k, ser in enumerate(series):
        if k > 0:
            gap = ser[0][0] - prev_last[2]  # type: ignore[index]
            if prev_verdict is None and h['timeout'] is not None:
                # the series may have ended by the timeout: its retry would have started at/after first + T
                req = requested_delay(h, at(idx - 1), DEFAULT_BACKOFF) or 0
                if max(prev_last[2] + req, ser[0][0]) >= series[k - 1][0][0] + h['timeout']:  # type: ignore[index]
                    prev_verdict = 'failure'
                    ctx.count('timer', 'series-ended-by-timeout')
            if prev_verdict == 'failure':
                # the property: "recorded as failed for good", "ends it without retry" — for timers alike
                ctx.fail('timer handler entered again (from scratch) after it had failed for good', case,
                         {'entry': idx, 'at': ser[0][0], 'retry': ser[0][1], 'previous_verdict': prev_verdict, 'gap': gap,
                          'reset_by_state_done': True, 'calls': calls}, sig='timer-restarted-after-final-failure')
                ctx.count('timer', 'restart-after-failure')
            elif prev_verdict == 'success':
                ctx.count('timer', 'restart-after-success')
                if interval is None:
                    ctx.fail('timer without interval invoked again', case, {'calls': calls}, sig='entry-after-final')
                elif gap < (interval if not sharp else 1):
                    ctx.fail('timer invoked sooner than its interval', case, {'gap': gap, 'calls': calls}, sig='interval')
            else:
                ctx.fail('timer handler started from scratch while a retry was pending', case,
                         {'entry': idx, 'calls': calls}, sig='reset-while-retrying')
        last = k == len(series) - 1
        prev_verdict = check_series(ctx, case, h, at, ser, idx, DEFAULT_BACKOFF, complete=not last)
        prev_last = ser[-1]
        idx += len(ser)
    grid = (stop - t0) // 250 + 2
    tfuel = min(len(script) + int(grid) + 6, 400)
    tr = (f'tmr_trace {cq.cnat(tfuel)} {env} {c_cfg(h)} {coz(interval)} {cq.cbool(sharp)} {coz(stop)} {cq.cZ(t0)} '
          f'(from_scratch {cq.cZ(t0)}) {c_script(script)}')
    D['timer'].append(fw.Case(f'trace_entries_match {env} {c_cfg(h)} {cq.cZ(t0)} ({tr}) {c_obs(calls)}',
                              {**case, 'entries': calls, 'exit': end},
                              diag=f'option_map (map obs_of) (entries_of {env} {c_cfg(h)} {cq.cZ(t0)} ({tr}))'))


def part_drivers(ctx: fw.Ctx) -> None:
    K.load()
    r = ctx.rng
    n = ctx.scale(170, 5000)
    D: dict[str, list[fw.Case]] = {'activity': [], 'daemon': [], 'timer': []}
    for i in range(n):
        if too_many_hangs(ctx):
            break
        h = gen_cfg(r)
        script = gen_script(r)
        t0 = r.choice([0, 1000, 5000])
        do_activity(ctx, D, h, script, t0, i)
        stop = r.choice([None, None, t0 + Q + 250 * r.randrange(0, 24)])
        do_daemon(ctx, D, h, script, t0, stop, i)
        if i < len(TIMER_CORPUS):
            h, script, t0, interval, sharp, stop = TIMER_CORPUS[i]
        else:
            interval = r.choice([None, 500, 1000, 2500])
            sharp = r.random() < 0.4
            stop = t0 + Q + 250 * r.randrange(0, 40)
        do_timer(ctx, D, h, script, t0, interval, sharp, stop, i)
    # hand-seeded dangerous cases (corpus/C11/*.json), incl. the regression cases of the fixed finding F9
    import json
    for j, path in enumerate(sorted((fw.ROOT / 'corpus' / 'C11').glob('*.json'))):
        c = json.loads(path.read_text())
        script = _norm_script(c['script'])
        ctx.count('corpus', c['driver'])
        if c['driver'] == 'activity':
            do_activity(ctx, D, c['handler'], script, c['t0'], 1000 + j)
        elif c['driver'] == 'daemon':
            do_daemon(ctx, D, c['handler'], script, c['t0'], c.get('stop'), 1000 + j)
        elif c['driver'] == 'timer':
            do_timer(ctx, D, c['handler'], script, c['t0'], c.get('interval'), bool(c.get('sharp')), c['stop'], 1000 + j)
    for name, cs in D.items():
        ctx.differential(name, HEADER, cs, shard=120)
        ctx.cov['traces_validated_against_impl'] += len(cs)


# --------------------------------------------------------------------------------------
# part D: the persisted driver (process_changing_cause, cycle by cycle, with restarts)
# --------------------------------------------------------------------------------------

class CycleHang(Exception):
    pass


def one_cycle(reg: Any, settings: Any, raw: dict, wall: int, origin: int, lifecycle: Any = None,
              reason: Any = None, initial: bool = False) -> tuple[list, dict, int]:
    """One processing cycle at wall-clock `wall` ms in a process whose loop clock reads wall - origin."""
    from kv import canon
    clock.set_offset(sec(origin))
    try:
        async def go() -> tuple[list, dict]:
            body = K.bodies.Body(raw)
            patch = K.patches.Patch({}, body=body)
            cause = K.causes.ChangingCause(resource=K.RES, indices={}, logger=K.logger, memo=K.ephemera.Memo(), body=body, patch=patch,
                                           initial=initial, reason=reason or K.causes.Reason.CREATE, old=None, new={'spec': dict(raw.get('spec', {}))})
            delays = await K.processing.process_changing_cause(lifecycle=lifecycle or K.lifecycles.asap, registry=reg, settings=settings,
                                                               memory=K.inventory.ResourceMemory(), cause=cause)
            return [to_ms(float(x)) for x in delays], dict(patch)
        res, end, finished = run_loop(go, wall - origin, wall - origin + 600000)
        if not finished:
            raise CycleHang(f'processing cycle did not finish: {res!r}')
        if isinstance(res, BaseException):
            raise res
        delays, patch = res
        return delays, canon.merge7386(raw, patch), end + origin
    finally:
        clock.set_offset(0.0)


def part_cycles(ctx: fw.Ctx) -> None:
    K.load()
    r = ctx.rng
    n = ctx.scale(170, 4000)
    env = c_env('T', DEFAULT_BACKOFF)
    cases: list[fw.Case] = []
    for i in range(n):
        if too_many_hangs(ctx):
            break
        h = gen_cfg(r)
        script = gen_script(r)
        at = lambda k, script=script: script[k][0] if k < len(script) else ('ok',)
        fn = Scripted(script, i)
        reg = K.registries.OperatorRegistry()
        reg._changing.append(K.handlers.ChangingHandler(
            id='chg', selector=K.references.Selector(K.references.EVERYTHING), old=None, new=None, field_needs_change=None,
            initial=None, deleted=None, requires_finalizer=None, reason=K.causes.Reason.CREATE, **RESOURCE_KW, **handler_kwargs(h, fn.fn)))
        settings = settings_with(DEFAULT_BACKOFF)
        storage = settings.persistence.progress_storage
        raw = {'apiVersion': 'kopf.dev/v1', 'kind': 'Kex', 'metadata': {'name': 'n', 'namespace': 'ns', 'uid': 'u'}, 'spec': {'x': 1}}
        t0 = r.choice([1000, 50000])
        wall, origin = t0, r.choice([0, 250])
        labels: list[str] = []
        schedule: list[dict] = []
        closed = False
        hung = False
        restarts = 0
        ncalls = 0
        for step in range(len(script) * 3 + 8):
            if r.random() < 0.35:      # the operator is restarted here: the new process has another loop-clock origin
                origin = wall - r.choice([0, 125, 1000, 30000])
                labels.append('(PRestart, %s)' % c_prec(rec_fields(storage.fetch(key='chg', body=K.bodies.Body(raw)))))
                schedule.append({'restart': True})
                restarts += 1
            try:
                delays, raw, end = one_cycle(reg, settings, raw, wall, origin)
            except CycleHang as e:
                ctx.fail('processing cycle did not finish (busy loop)', {'driver': 'cycle', 'handler': h, 'script': script, 't0': t0,
                                                                          'schedule': schedule}, str(e), sig='not-finished')
                hung = True
                break
            rec = storage.fetch(key='chg', body=K.bodies.Body(raw))
            called = len(fn.calls) > ncalls
            if len(fn.calls) > ncalls + 1:
                ctx.fail('handler entered twice in one processing cycle', {'handler': h, 'script': script}, sig='two-entries-one-cycle')
            tc, te = (fn.calls[-1][0], fn.calls[-1][2]) if called else (wall, wall)
            a = at(ncalls) if called else ('ok',)
            ncalls = len(fn.calls)
            labels.append(f'(PCycle {cq.cZ(wall)} {cq.cZ(tc)} {cq.cZ(te)} {cq.cZ(te)} {c_raised(a)}, {c_prec(rec_fields(rec))})')
            schedule.append({'cycle_at': wall, 'entered': called, 'delays': delays})
            if not delays:
                closed = rec is None
                break
            # the next event: the sleep-then-touch of application.apply, or something else touching the object earlier
            nxt = end + max(0, min(delays))
            if r.random() < 0.4 and nxt - end >= 250:
                nxt = end + Q * r.randrange(0, (nxt - end) // Q)
                ctx.count('cycle', 'event-before-delay')
            wall = max(nxt, end)
        if hung:
            continue
        calls = [tuple(c) for c in fn.calls]
        case = {'driver': 'cycle', 'handler': h, 'script': script, 't0': t0, 'schedule': schedule}
        ctx.count('driver', 'cycle')
        ctx.count('cycle_restarts', str(min(restarts, 4)))
        if nontrivial(script):
            ctx.nontriv(['cycle', h, script, schedule])
        if i < 1:
            ctx.sample({**case, 'entries': calls})
        expected = check_series(ctx, case, h, at, calls, 0, DEFAULT_BACKOFF, complete=closed)
        if not closed and not delays:
            ctx.fail('handling cycle ended but the progress record was not purged', case, sig='not-purged')
        term = f'prun_matches {env} {c_cfg(h)} {cq.cZ(t0)} {cq.clist(labels)} {c_obs(calls)} {cq.cbool(closed)}'
        cases.append(fw.Case(term, {**case, 'entries': calls, 'closed': closed}))
    ctx.differential('cycle', HEADER, cases, shard=120)
    ctx.cov['traces_validated_against_impl'] += len(cases)


# --------------------------------------------------------------------------------------
# part E: sub-handlers (kopf.execute inside a change handler), several handlers per batch
# --------------------------------------------------------------------------------------

def part_subhandlers(ctx: fw.Ctx) -> None:
    K.load()
    from kopf._core.reactor import subhandling
    r = ctx.rng
    n = ctx.scale(100, 1500)
    env = c_env('T', DEFAULT_BACKOFF)
    cases = []
    raise_cases: list[fw.Case] = []
    for i in range(n):
        if too_many_hangs(ctx):
            break
        subs = {}
        for name in ('a', 'b')[: r.choice([1, 2, 2])]:
            h = gen_cfg(r)
            script = gen_script(r, 4)
            subs[f'chg/{name}'] = (h, script, Scripted(script, i))
        lifecycle = r.choice([K.lifecycles.asap, K.lifecycles.all_at_once, K.lifecycles.one_by_one])
        parent_calls = []
        owner = {}

        def make_parent(owner=owner, subs=subs, parent_calls=parent_calls):
            async def parent(retry, **_):
                import asyncio
                loop = asyncio.get_running_loop()
                rec = [to_ms(loop.time() + clock._state['offset']), retry, None]
                parent_calls.append(rec)
                before = {hid: len(fn.calls) for hid, (_, _, fn) in subs.items()}
                try:
                    await subhandling.execute(handlers=[
                        K.handlers.ChangingHandler(id=hid, selector=None, old=None, new=None, field_needs_change=None, initial=None,
                                                   deleted=None, requires_finalizer=None, reason=None, **RESOURCE_KW,
                                                   **handler_kwargs(h, fn.fn))
                        for hid, (h, _, fn) in subs.items()])
                finally:
                    rec[2] = to_ms(loop.time() + clock._state['offset'])
                    for hid, (_, _, fn) in subs.items():
                        for k in range(before[hid], len(fn.calls)):
                            owner[(hid, k)] = rec
            return parent
        reg = K.registries.OperatorRegistry()
        ph = {'errors': None, 'retries': None, 'timeout': None, 'backoff': None}
        reg._changing.append(K.handlers.ChangingHandler(
            id='chg', selector=K.references.Selector(K.references.EVERYTHING), old=None, new=None, field_needs_change=None,
            initial=None, deleted=None, requires_finalizer=None, reason=K.causes.Reason.CREATE, **RESOURCE_KW,
            **handler_kwargs(ph, make_parent())))
        settings = settings_with(DEFAULT_BACKOFF)
        storage = settings.persistence.progress_storage
        raw = {'apiVersion': 'kopf.dev/v1', 'kind': 'Kex', 'metadata': {'name': 'n', 'namespace': 'ns', 'uid': 'u'}, 'spec': {'x': 1}}
        t0 = r.choice([1000, 50000])
        wall, origin = t0, 0
        finished = False
        for step in range(40):
            if r.random() < 0.3:
                origin = wall - r.choice([0, 125, 1000])
            nparent = len(parent_calls)
            try:
                delays, raw, end = one_cycle(reg, settings, raw, wall, origin, lifecycle=lifecycle)
            except CycleHang:
                break
            # D:sub_raise — the parent's record after a batch of its sub-handlers against [sub_parent_delayed]
            prec = storage.fetch(key='chg', body=K.bodies.Body(raw))
            if len(parent_calls) > nparent and prec is not None and parent_calls[-1][2] is not None:
                te = parent_calls[-1][2]
                kids = []
                for hid in subs:
                    rf = rec_fields(storage.fetch(key=hid, body=K.bodies.Body(raw)))
                    if rf is not None:
                        kids.append({'active': True, 'started': rf['started'], 'stopped': rf['stopped'], 'delayed': rf['delayed'],
                                     'retries': rf['retries'] or 0, 'success': bool(rf['success']), 'failure': bool(rf['failure'])})
                pf = rec_fields(prec)
                ctx.count('sub_raise', 'children done' if all(k['success'] or k['failure'] for k in kids) else
                          'children pending, delay' if pf['delayed'] is not None else 'children pending, no delay')
                raise_cases.append(fw.Case(
                    f"oz_eqb (sub_parent_delayed {cq.cZ(te)} {cq.clist(c_hstate(k) for k in kids)}) {coz(pf['delayed'])} "
                    f"&& Bool.eqb (match sub_raise {cq.cZ(te)} {cq.clist(c_hstate(k) for k in kids)} with ROk => true | _ => false end) {cq.cbool(bool(pf['success']))}",
                    {'driver': 'subhandlers', 'at': te, 'children': kids, 'parent_record': pf},
                    diag=f'sub_raise {cq.cZ(te)} {cq.clist(c_hstate(k) for k in kids)}'))
                # the property for the parent: re-entered not before its first pending sub-handler is due
                pend = [k for k in kids if not (k['success'] or k['failure'])]
                if pend and pf['delayed'] is not None and pf['delayed'] < min((k['delayed'] or te) for k in pend):
                    ctx.fail('parent handler scheduled before any of its pending sub-handlers is due', {'children': kids, 'parent_record': pf},
                             sig='retry-too-soon')
            if not delays:
                finished = True
                break
            nxt = end + max(0, min(delays))
            if r.random() < 0.3 and nxt - end >= 250:
                nxt = end + Q * r.randrange(0, (nxt - end) // Q)
            wall = max(nxt, end)
        case_base = {'driver': 'subhandlers', 'lifecycle': lifecycle.__name__, 't0': t0,
                     'subhandlers': {hid: {'handler': h, 'script': sc} for hid, (h, sc, _) in subs.items()}}
        ctx.count('driver', 'subhandlers')
        ctx.count('sub_lifecycle', lifecycle.__name__)
        if not finished:
            ctx.fail('handling cycle with sub-handlers did not finish in 40 processing cycles', case_base, sig='not-finished')
        started = parent_calls[0][0] if parent_calls else t0
        for hid, (h, script, fn) in subs.items():
            calls = [tuple(c) for c in fn.calls]
            case = {**case_base, 'id': hid, 'handler': h, 'script': script}
            at = lambda k, script=script: script[k][0] if k < len(script) else ('ok',)
            if nontrivial(script):
                ctx.nontriv(['sub', h, script, lifecycle.__name__])
            check_series(ctx, case, h, at, calls, 0, DEFAULT_BACKOFF, complete=finished)
            ticks = []
            obs = []    # the model's en_end is the instant the outcomes were folded into the state = the end of the batch
            for k, (tc, retry, tx) in enumerate(calls):
                p = owner.get((hid, k))
                if p is None:
                    ctx.correspondence_break('T:subhandlers', {'what': 'sub-handler entered outside its parent', 'case': case})
                    continue
                ticks.append(f'Tick {cq.cZ(p[0])} {cq.cZ(tc)} {cq.cZ(tx)} {cq.cZ(p[2])} {c_raised(at(k))}')
                obs.append((tc, retry, p[2]))
            term = f'trace_entries_match {env} {c_cfg(h)} {cq.cZ(started)} {cq.clist(ticks)} {c_obs(obs)}'
            cases.append(fw.Case(term, {**case, 'entries': calls, 'parent_entries': [tuple(p) for p in parent_calls]},
                                 diag=f'option_map (map obs_of) (entries_of {env} {c_cfg(h)} {cq.cZ(started)} {cq.clist(ticks)})'))
    ctx.differential('subhandlers', HEADER, cases, shard=150)
    ctx.differential('sub_raise', HEADER_DEEP, raise_cases, shard=300)
    ctx.cov['traces_validated_against_impl'] += len(cases)


# --------------------------------------------------------------------------------------
# part F: activities with several handlers per batch; state snapshots through the lifecycle callback
# --------------------------------------------------------------------------------------

def part_multi_activity(ctx: fw.Ctx) -> None:
    K.load()
    r = ctx.rng
    n = ctx.scale(100, 1500)
    env = c_env('T', DEFAULT_BACKOFF)
    cases: list[fw.Case] = []
    batch_cases: list[fw.Case] = []
    for i in range(n):
        if too_many_hangs(ctx):
            break
        names = ['a0', 'a1', 'a2'][: r.choice([2, 2, 3])]
        hs = {nm: (gen_cfg(r), gen_script(r, 4)) for nm in names}
        fns = {nm: Scripted(hs[nm][1], i) for nm in names}
        base = r.choice([K.lifecycles.all_at_once, K.lifecycles.all_at_once, K.lifecycles.one_by_one, K.lifecycles.asap])
        batches: list[dict] = []

        def lifecycle(handlers: Any, *, state: Any, **kw: Any) -> Any:
            chosen = base(handlers, state=state, **kw)
            batches.append({'at': to_ms(asyncio.get_running_loop().time()), 'todo': [h.id for h in handlers],
                            'chosen': [h.id for h in chosen], 'states': {nm: hs_fields(state[nm]) for nm in names}})
            return chosen

        reg = K.registries.OperatorRegistry()
        for nm in names:
            reg._activities.append(K.handlers.ActivityHandler(id=nm, activity=K.causes.Activity.STARTUP, **handler_kwargs(hs[nm][0], fns[nm].fn)))
        settings = settings_with(DEFAULT_BACKOFF)
        t0 = r.choice([0, 5000])
        res, end, finished = run_loop(lambda: K.activities.run_activity(
            lifecycle=lifecycle, registry=reg, settings=settings, activity=K.causes.Activity.STARTUP, indices={},
            memo=K.ephemera.Memo()), t0, t0 + 600000)
        verdict = ('stalled' if isinstance(res, vloop.Stall) else 'running') if not finished else \
            'failure' if isinstance(res, K.activities.ActivityError) else 'success'
        if finished and isinstance(res, BaseException) and verdict != 'failure':
            raise res
        case_base = {'driver': 'multi-activity', 'lifecycle': base.__name__, 't0': t0,
                     'handlers': {nm: {'handler': hs[nm][0], 'script': hs[nm][1]} for nm in names}}
        ctx.count('driver', 'multi-activity')
        ctx.count('multi_lifecycle', base.__name__)
        if verdict in ('running', 'stalled'):
            ctx.fail('activity did not finish: ' + ('busy loop without progress of time' if verdict == 'stalled' else '600 virtual seconds'),
                     case_base, {'batches': len(batches)}, sig='not-finished')
        # reconstruct, per batch, when each chosen handler was reached / left, and when the outcomes were folded in
        used = {nm: 0 for nm in names}
        labels: dict[str, list[str]] = {nm: [] for nm in names}
        obs: dict[str, list] = {nm: [] for nm in names}
        consistent = True
        for k, b in enumerate(batches):
            cursor = b['at']
            spans = {}
            for nm in b['chosen']:
                calls = fns[nm].calls
                if used[nm] < len(calls) and calls[used[nm]][0] == cursor and (k + 1 == len(batches) or calls[used[nm]][0] < batches[k + 1]['at']
                                                                               or calls[used[nm]][2] <= batches[k + 1]['at']):
                    c = calls[used[nm]]
                    spans[nm] = (cursor, c[2], True, used[nm])
                    cursor = c[2]
                    used[nm] += 1
                else:
                    spans[nm] = (cursor, cursor, False, None)
            te = cursor
            nxt = batches[k + 1]['states'] if k + 1 < len(batches) else None
            for nm in names:
                exp = 'None' if nxt is None else f'(Some {c_hstate(nxt[nm])})'
                if nm in spans:
                    tc, tx, called, idx = spans[nm]
                    a = (hs[nm][1][idx][0] if idx < len(hs[nm][1]) else ('ok',)) if called else ('ok',)
                    labels[nm].append(f'(Tick {cq.cZ(b["at"])} {cq.cZ(tc)} {cq.cZ(tx)} {cq.cZ(te)} {c_raised(a)}, {exp})')
                    if called:
                        obs[nm].append((tc, fns[nm].calls[idx][1], te))
                elif nm not in b['todo']:
                    labels[nm].append(f'(Tick {cq.cZ(b["at"])} {cq.cZ(b["at"])} {cq.cZ(b["at"])} {cq.cZ(b["at"])} ROk, {exp})')
        for nm in names:
            if used[nm] != len(fns[nm].calls):
                consistent = False
        if not consistent:
            ctx.correspondence_break('T:multi-activity', {'what': 'entries could not be attributed to the batches seen by the lifecycle callback',
                                                          'case': case_base})
            continue
        # D:batch — the whole multi-handler loop incl. the lifecycle against Model/AttemptsBatch.v [mact_trace]
        lc = {'all_at_once': 'LAllAtOnce', 'one_by_one': 'LOneByOne', 'asap': 'LAsap'}[base.__name__]
        hs_term = cq.clist(cq.cpair(c_cfg(hs[nm][0]), c_script(hs[nm][1])) for nm in names)
        b_term = cq.clist(f"({cq.cZ(b['at'])}, {cq.clist(cq.cnat(names.index(x)) for x in b['chosen'])})" for b in batches)
        o_term = cq.clist(c_obs(obs[nm]) for nm in names)
        ctx.count('batch_size', str(max((len(b['chosen']) for b in batches), default=0)))
        ctx.count('batch_offered_not_chosen', str(min(4, sum(len(b['todo']) - len(b['chosen']) for b in batches))))
        if verdict in ('success', 'failure'):
            batch_cases.append(fw.Case(
                f'mact_matches {cq.cnat(len(batches) + 3)} {env} {lc} {cq.cZ(t0)} {hs_term} {b_term} {o_term}',
                {**case_base, 'batches': [{k: v for k, v in b.items() if k != 'states'} for b in batches],
                 'entries': {nm: obs[nm] for nm in names}},
                diag=f'mact_trace {cq.cnat(len(batches) + 3)} {env} {lc} {cq.cZ(t0)} (bs_slots (binit {cq.cZ(t0)} {hs_term}))'))
        any_failure = False
        for nm in names:
            h, script = hs[nm]
            calls = [tuple(c) for c in fns[nm].calls]
            case = {**case_base, 'id': nm, 'handler': h, 'script': script}
            at = lambda k, script=script: script[k][0] if k < len(script) else ('ok',)
            if nontrivial(script):
                ctx.nontriv(['multi', h, script, base.__name__])
            v = check_series(ctx, case, h, at, calls, 0, DEFAULT_BACKOFF, complete=verdict in ('success', 'failure'))
            any_failure = any_failure or v == 'failure'
            # the awakened filter: a handler is offered to the lifecycle only when it is not sleeping and not finished
            for b in batches:
                st = b['states'][nm]
                sleeping = st['delayed'] is not None and st['delayed'] > b['at']
                if nm in b['todo'] and (sleeping or st['success'] or st['failure']):
                    ctx.fail('handler offered for execution while sleeping or finished', case, {'at': b['at'], 'state': st},
                             sig='retry-too-soon' if sleeping else 'entry-after-final')
            term = f'run_check_matches {env} {c_cfg(h)} {cq.cZ(t0)} {cq.clist(labels[nm])} {c_obs(obs[nm])}'
            cases.append(fw.Case(term, {**case, 'entries': calls, 'batches': [{k: v for k, v in b.items() if k != 'states'} for b in batches]}))
        if all(hs[nm][0]['timeout'] is None for nm in names) and verdict in ('success', 'failure'):
            if (verdict == 'failure') != any_failure:
                ctx.fail(f'activity ended with {verdict}, the property prescribes {"failure" if any_failure else "success"}', case_base, sig='verdict')
    ctx.differential('multi_activity', HEADER, cases, shard=150)
    ctx.differential('batch', HEADER_DEEP, batch_cases, shard=100)
    ctx.cov['traces_validated_against_impl'] += len(cases) + len(batch_cases)


# --------------------------------------------------------------------------------------

def run_parts(ctx: fw.Ctx) -> None:
    from kv.props import c11_loop
    part_exec(ctx)
    part_state(ctx)
    part_drivers(ctx)
    part_cycles(ctx)
    c11_loop.part_apply(ctx)
    c11_loop.part_closed(ctx)
    c11_loop.part_supersession(ctx)
    part_subhandlers(ctx)
    part_multi_activity(ctx)


def run(ctx: fw.Ctx) -> int:
    ctx.matchers = {}          # F9 (timer reset after a final failure) is fixed in kopf (e01f313): a violation again
    ctx.proofs()
    ok, logtxt = fw.build_models(['Model/Outcome.v', 'Model/Attempts.v', 'Model/AttemptsApply.v', 'Model/AttemptsBatch.v'])
    if not ok:
        ctx.correspondence_break('model build', logtxt[-1500:])
        return ctx.finish(RULE)
    run_parts(ctx)
    return ctx.finish(RULE, level_note=[
        'user handlers are oracles (scripts of raised exception kinds and durations); times are integer ms (dyadic), '
        'floats outside the model', 'stepped virtual-time loop kv.vloop (CPython 3.12 asyncio internals), wall-clock shim kv.clock',
        'the closed persisted loop (patch/echo/sleep-touch, purge, next cause) is driven by the harness around the real '
        'process_changing_cause; the whole-operator loop belongs to the cycle simulation (C02/C03)'])


def _norm_script(script: list) -> list:
    return [(tuple(a), d) for a, d in script]


def replay(ctx: fw.Ctx, body: dict) -> bool:
    """Re-run the failing input of a replay file on the current tree: True iff the property still fails on it."""
    K.load()
    ctx.matchers = {}           # a replay reports the raw truth, known or not
    case = body.get('case') or {}
    D: dict[str, list[fw.Case]] = {'activity': [], 'daemon': [], 'timer': []}
    d = case.get('driver')
    if d == 'activity':
        do_activity(ctx, D, case['handler'], _norm_script(case['script']), case['t0'], 0)
    elif d == 'daemon':
        do_daemon(ctx, D, case['handler'], _norm_script(case['script']), case['t0'], case.get('stop'), 0)
    elif d == 'timer':
        do_timer(ctx, D, case['handler'], _norm_script(case['script']), case['t0'], case.get('interval'), bool(case.get('sharp')),
                 case['stop'], 0)
    else:
        # exec table, state algebra, cycles, sub-handlers, multi-handler activities: the case is a position in a
        # deterministic sweep; re-run the sweep with the recorded seed/tier and look for the same failure
        run_parts(ctx)
        sig = body.get('sig')
        return any(f['sig'] == sig and f['case'] == case for f in ctx.failures) or \
            (body.get('kind') == 'no-failing-input-found' and bool(ctx.broken))
    return bool(ctx.failures)
