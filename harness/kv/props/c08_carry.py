"""C08, carry layer — the carry-over of transformation functions (Patch.fns) from one processing cycle of an object
to the next, through memory.remaining_patch of the real processing.process_resource_event.

T-tie: the REAL process_resource_event (real registry with an @kopf.on.event handler, real ResourceMemories, real
application.apply / patching.patch_obj / api.request, the real error throttler where the script says so) is driven
over multi-cycle scripts on ONE object of a FakeAPI.  The handler sets a plain field in every cycle (so a merge-patch
precedes the JSON-patch) and, where scripted, appends a fresh idempotent transformation ("append 'mine-k' to
spec.owners if absent") to patch.fns.  Per cycle the environment is: nothing / a foreign write slipped in before the
JSON-patch (422) / 503 on the merge-patch / 503 on the JSON-patch / the JSON-patch applied but its response lost /
the object deleted under the cycle (404) / the object deleted before the cycle (DELETED event); in throttled scripts
the next event may arrive while the error throttler is still active (skipped cycle).  What happened is written down
as a label trace of coq/Model/Carry.v — the outcome of each label is read off the HTTP dialogue, the exception and the
throttler, never off the memory — and replayed in the Gallina acceptor: after every cycle the model's memory must be
the identities (and order) found in the real memory.remaining_patch.fns and the model's applied effects must be the
ones on the server object.

Monitors (property text): a transformation carried after a 422 is on the server exactly once after the faults stop
(never lost while the object exists); no effect is ever duplicated.
"""
from __future__ import annotations

import asyncio
import copy
import itertools
from typing import Any

from kv import coqio as cq, fakeapi as fa, framework as fw
from kv.props import c08_model as m

RULE_CARRY = ('carry layer: scripts of cycles on one object, bounded-exhaustive: length <= 3 over {ok, conflict(422), 503 on merge, 503 on JSON, '
              'JSON applied + response lost, gone(404), deleted event} x {no new fn, one fresh fn appended}; "ensure" scripts: an ensure-label fn (a no-op on the known body) '
              'appended next to an effective one while the label is removed before the JSON-patch (422), after {nothing, an accepted, a conflicting} ensure cycle and followed by <= 2 cycles; throttled scripts: a conflict '
              'carrying a fn, then <= 3 cycles over {ok, 503 on JSON, 503 on merge} x {next event after / during the throttling}; every script '
              'is followed by two undisturbed cycles while the object exists; random longer scripts in thorough; non-trivial iff the script '
              'contains a conflict followed by a cycle that does not apply')

HEADER = fw.STD_HEADER + 'From KV Require Import Model.Carry.\n'

ENVS = ('ok', 'conflict', 'e503m', 'e503j', 'lost', 'gone', 'deleted')
SETTLE = {'env': 'ok', 'new': 0, 'rush': False, 'settle': True}


def mk_fn(k: int) -> Any:
    def fn(body: dict) -> None:
        owners = body.setdefault('spec', {}).setdefault('owners', [])
        if f'mine-{k}' not in owners:
            owners.append(f'mine-{k}')
    fn.__name__ = f'mine_{k}'
    return fn


ENSURE_BASE = 1000      # identities of the 'ensure' transformations (Model/Carry.v cy_untracked)


def mk_ensure(k: int) -> Any:
    """'ensure'-style: keep the label guard=yes in place; a no-op on every body which has it (as the initial object does)."""
    def fn(body: dict) -> None:
        body.setdefault('metadata', {}).setdefault('labels', {}).setdefault('guard', 'yes')
    fn.__name__ = f'ensure_{k}'
    return fn


class CarrySession(m.ScriptedSession):
    def foreign(self, how: str) -> None:
        if how == 'unguard':          # somebody removes exactly what the 'ensure' transformation keeps in place
            self.api.edit(self.kind, m.NS, m.NAME, lambda b: (b['metadata'].get('labels') or {}).pop('guard', None), actor='foreign')
        else:
            super().foreign(how)


class World:
    def __init__(self, env: m.Env, throttled: bool) -> None:
        import kopf
        from kopf._core.engines import indexing
        from kopf._core.intents import registries
        from kopf._core.reactor import inventory
        self.env, self.throttled = env, throttled
        self.kind = fa.Kind(m.GROUP, m.VERSION, 'KopfExample', m.PLURAL, status_subresource=False)
        self.api = fa.FakeAPI([self.kind])
        self.last_doc = self.api.create(self.kind, m.NS, m.NAME, {'spec': {'owners': []}, 'metadata': {'labels': {'app': 'demo', 'guard': 'yes'}}})
        self.reg = registries.OperatorRegistry()
        self.memories = inventory.ResourceMemories()
        self.indexers = indexing.OperatorIndexers()
        self.fns: dict[int, Any] = {}
        self.ids: dict[int, int] = {}          # id(function object) -> number
        self.next_id = 1
        self.next_ensure = ENSURE_BASE
        self.cycle_no = 0
        self.plan_new: list[int] = []
        self.handler_ran = False
        self.cycles: list[dict] = []           # what was observed, per cycle
        w = self

        async def spy(patch: Any, **_: Any) -> None:
            w.handler_ran = True
            patch.metadata.annotations['cycle'] = f'c{w.cycle_no}'          # a plain field: the merge-patch goes first
            for k in w.plan_new:
                patch.fns.append(w.fns[k])
        kopf.on.event(m.PLURAL, registry=self.reg, id='spy')(spy)

    def memory(self) -> Any:
        mems = list(self.memories._items.values())
        return mems[0] if mems else None

    def carried(self) -> list[int]:
        mem = self.memory()
        if mem is None or mem.remaining_patch is None:
            return []
        return [self.ids.get(id(f), 4999) for f in mem.remaining_patch.fns]

    def guarded(self) -> bool | None:
        obj = self.api.get(self.kind, m.NS, m.NAME)
        return None if obj is None else (obj.get('metadata', {}).get('labels') or {}).get('guard') == 'yes'

    def effects(self) -> list[int] | None:
        obj = self.api.get(self.kind, m.NS, m.NAME)
        if obj is None:
            return None
        return [int(o.split('-', 1)[1]) for o in (obj.get('spec', {}).get('owners') or []) if isinstance(o, str) and o.startswith('mine-')]

    def cycle(self, step: dict) -> dict:
        from kopf._cogs.structs import ephemera
        from kopf._core.actions import lifecycles
        from kopf._core.reactor import processing
        env, api, kind = self.env, self.api, self.kind
        self.cycle_no += 1
        envk = step['env']
        if self.throttled and not step.get('rush'):
            env.loop.advance_by(100000.0)                 # the next event comes after the throttling is over
        if envk == 'deleted':
            api.delete(kind, m.NS, m.NAME, actor='foreign', force=True)
        obj = api.get(kind, m.NS, m.NAME)
        if obj is not None:
            self.last_doc = obj
        ev_type = 'MODIFIED' if obj is not None else 'DELETED'
        raw = {'type': ev_type, 'object': copy.deepcopy(obj if obj is not None else self.last_doc)}
        fault = {'e503m': (0, '503'), 'e503j': (1, '503'), 'lost': (1, 'lost')}.get(envk)
        slip = {'conflict': (1, 'edit'), 'gone': (0, 'delete'), 'undo': (1, 'unguard')}.get(envk)
        sess = CarrySession(api, kind, fault, slip)
        m.set_vault(sess)
        self.plan_new = []
        if step.get('ensure'):            # appended first: a no-op next to the effective ones
            k = self.next_ensure
            self.next_ensure += 1
            self.fns[k] = mk_ensure(k)
            self.ids[id(self.fns[k])] = k
            self.plan_new.append(k)
        for _ in range(step.get('new', 0)):
            k = self.next_id
            self.next_id += 1
            self.fns[k] = mk_fn(k)
            self.ids[id(self.fns[k])] = k
            self.plan_new.append(k)
        self.handler_ran = False
        pressure = asyncio.Event()
        pressure.set()
        mem_before = self.memory()
        how, val = env.run(processing.process_resource_event(
            lifecycle=lifecycles.all_at_once, indexers=self.indexers, registry=self.reg, settings=env.settings,
            memories=self.memories, memobase=ephemera.Memo(), resource=env.resources[False], raw_event=raw,
            event_queue=asyncio.Queue(), stream_pressure=pressure, no_throttling=not self.throttled))
        log = sess.log
        jsons = [x for x in log if x.ctype == m.CT_JSON]
        landed = any(x.status == 200 and x.injected in (None, 'lost') and x.after != x.before for x in jsons)
        mem_now = self.memory() or mem_before
        swallowed = bool(self.throttled and self.handler_ran and mem_now is not None and mem_now.error_throttler.active_until is not None)
        # ---- the outcome, read off the dialogue / the exception / the throttler (never off the memory)
        if ev_type == 'DELETED':
            outcome = 'ODeleted'
        elif not self.handler_ran and not log and how == 'ok':
            outcome = 'OSkipped'
        elif how == 'exc' or swallowed:
            outcome = f'(ORaised {cq.cbool(landed)})'
        elif any(x.status == 404 for x in log):
            outcome = 'OGone'
        elif any(x.status == 422 for x in jsons):
            outcome = f'(OConflict {cq.cbool(any(x.status == 200 and x.after != x.before for x in jsons))})'
        elif jsons:
            outcome = 'OApplied'
        else:
            outcome = 'ONoops'
        new = list(self.plan_new) if self.handler_ran else []
        c = {'step': step, 'event': ev_type, 'outcome': outcome, 'new': new, 'ran': self.handler_ran, 'mem': self.carried(),
             'effects': self.effects(), 'statuses': [[x.kind, 'json' if x.ctype == m.CT_JSON else 'merge', x.status, x.injected, x.slipped] for x in log],
             'raised': repr(val) if how == 'exc' else ('swallowed by the throttler' if swallowed else None),
             'conflict422': any(x.status == 422 for x in jsons), 'guarded': self.guarded()}
        self.cycles.append(c)
        return c


def run_script(env: m.Env, desc: dict) -> World:
    w = World(env, bool(desc.get('throttled')))
    for step in desc['script']:
        w.cycle(step)
    for _ in range(2):                                   # the faults stop: undisturbed cycles while the object exists
        if w.api.get(w.kind, m.NS, m.NAME) is None:
            break
        w.cycle(SETTLE)
    return w


def case_of(desc: dict, w: World) -> fw.Case:
    items = []
    for c in w.cycles:
        eff = 'None' if c['effects'] is None else f'(Some {cq.clist(cq.cnat(k) for k in c["effects"])})'
        items.append(f'(Cyc {cq.clist(cq.cnat(k) for k in c["new"])} {c["outcome"]}, mkObs {cq.clist(cq.cnat(k) for k in c["mem"])} {eff})')
    tr = cq.clist(items)
    data = dict(desc, observed=[{k: v for k, v in c.items() if k != 'step'} for c in w.cycles])
    return fw.Case(f'cy_accepts {tr}', data, diag=f'cy_accept_from 0 cy_init {tr}')


def monitors(ctx: fw.Ctx, desc: dict, w: World) -> None:
    case = dict(desc, observed=[{'outcome': c['outcome'], 'new': c['new'], 'mem': c['mem'], 'effects': c['effects'], 'statuses': c['statuses'],
                                 'raised': c['raised']} for c in w.cycles])
    kept = all(c['outcome'] not in ('OGone', 'ODeleted') for c in w.cycles)
    final = w.effects()
    # no effect is ever duplicated
    for i, c in enumerate(w.cycles):
        eff = c['effects'] or []
        dup = sorted({k for k in eff if eff.count(k) > 1})
        if dup:
            ctx.fail('the effect of a transformation is on the server more than once', case, {'cycle': i, 'duplicated': dup, 'effects': eff},
                     sig='carried-fn-duplicated')
            break
    # carried after a 422 -> applied exactly once by a later cycle once the faults stop; never lost while the object exists
    carried = [k for c in w.cycles if c['conflict422'] for k in c['new'] if k < ENSURE_BASE]     # the 'ensure' ones are judged below
    settled = [c for c in w.cycles if c['step'].get('settle')]
    if kept and final is not None and len(settled) == 2 and all(c['outcome'] in ('OApplied', 'ONoops') for c in settled):
        for k in carried:
            if final.count(k) != 1:
                ctx.fail('a transformation that was to be carried forward after a conflict (422) is not on the server after the faults stopped: '
                         'it was lost on the way to the next cycle' if final.count(k) == 0 else
                         'a transformation carried forward after a conflict (422) took effect more than once', case,
                         {'fn': k, 'server_effects': final, 'carried_after_422': carried}, expected='exactly once', sig='carried-fn-lost')
                break
        ctx.count('carry_monitor', 'carried-after-422-checked', len(carried))
    # after the cycles settle, the effect of every transformation appended in a cycle that ended normally (accepted, nothing to
    # do, or carried after a 422) holds on the server object exactly once
    if kept and final is not None and len(settled) == 2 and all(c['outcome'] in ('OApplied', 'ONoops') for c in settled):
        normal = [c for c in w.cycles if c['outcome'] in ('OApplied', 'ONoops') or c['outcome'].startswith('(OConflict')]
        for c in normal:
            for k in c['new']:
                if k >= ENSURE_BASE:
                    # the foreign writer removes the label only under a cycle which appends an 'ensure' transformation for it
                    if not w.guarded():
                        ctx.fail('an "ensure" transformation (a no-op on the body the operator knew) was appended, the state it ensures was '
                                 'undone by a concurrent write (422), and after the cycles settled it still does not hold: the transformation '
                                 'was not carried forward and re-evaluated against the fresh state', case,
                                 {'fn': k, 'label_guard_present': False, 'server_effects': final}, expected='label guard=yes', sig='fn-effect-lost')
                        return
                elif final.count(k) != 1:
                    ctx.fail('after the cycles settled the effect of an appended transformation is ' + ('missing' if final.count(k) == 0 else 'duplicated'),
                             case, {'fn': k, 'server_effects': final}, expected='exactly once',
                             sig='fn-effect-lost' if final.count(k) == 0 else 'fn-effect-duplicated')
                    return
        ctx.count('carry_monitor', 'appended-effects-checked', sum(len(c['new']) for c in normal))
    # observation (outside the quantifier: a 5xx): a fn appended in a cycle that dies of an exception is not carried
    if kept and final is not None:
        for c in w.cycles:
            if c['outcome'] == '(ORaised false)':
                for k in c['new']:
                    ctx.count('carry_observation', 'new-fn-dropped-by-escalated-5xx' if k not in final else 'new-fn-survived-5xx')


def descs_quick() -> list[dict]:
    out = []
    opts = [{'env': e, 'new': n} for e in ENVS for n in (0, 1)]
    seen: set[str] = set()
    for n in (1, 2, 3):
        for combo in itertools.product(opts, repeat=n):
            # after gone / deleted every further cycle is a DELETED event whatever the environment: keep one representative
            cut = next((i for i, s in enumerate(combo) if s['env'] in ('gone', 'deleted')), None)
            if cut is not None and any(s['env'] != 'ok' for s in combo[cut + 1:]):
                continue
            out.append({'level': 'function', 'fn': 'carry', 'throttled': False, 'script': [dict(s) for s in combo]})
    topts = [{'env': e, 'new': 0, 'rush': r} for e in ('ok', 'e503j', 'e503m') for r in (False, True)]
    for n in (1, 2, 3):
        for combo in itertools.product(topts, repeat=n):
            out.append({'level': 'function', 'fn': 'carry', 'throttled': True,
                        'script': [{'env': 'conflict', 'new': 1, 'rush': False}] + [dict(s) for s in combo]})
    for last in (1,):
        for a, b in itertools.product(('e503j', 'e503m'), (False, True)):
            out.append({'level': 'function', 'fn': 'carry', 'throttled': True,
                        'script': [{'env': 'conflict', 'new': 1, 'rush': False}, {'env': a, 'new': 1, 'rush': False},
                                   {'env': 'ok', 'new': 1, 'rush': b}, {'env': 'conflict', 'new': 0, 'rush': False}]})
    # 'ensure' transformations: a no-op on the known body next to an effective one, the ensured state undone before the JSON-patch
    tail = [{'env': e, 'new': n} for e in ('ok', 'conflict', 'e503j', 'e503m') for n in (0, 1)]
    for prefix in ([], [{'env': 'ok', 'new': 1, 'ensure': True}], [{'env': 'conflict', 'new': 1, 'ensure': True}]):
        for n in (0, 1, 2):
            for combo in itertools.product(tail, repeat=n):
                out.append({'level': 'function', 'fn': 'carry', 'throttled': False,
                            'script': [dict(s) for s in prefix] + [{'env': 'undo', 'new': 1, 'ensure': True}] + [dict(s) for s in combo]})
    out.append({'level': 'function', 'fn': 'carry', 'throttled': True,
                'script': [{'env': 'undo', 'new': 1, 'ensure': True, 'rush': False}, {'env': 'e503j', 'new': 0, 'rush': False}, {'env': 'ok', 'new': 0, 'rush': True}]})
    return out


def descs_random(ctx: fw.Ctx, n: int) -> list[dict]:
    r = ctx.rng
    out = []
    for _ in range(n):
        thr = r.random() < 0.4
        envs = ['ok', 'conflict', 'conflict', 'e503m', 'e503j', 'lost'] + ([] if thr else ['gone', 'deleted'])
        script = [{'env': r.choice(envs), 'new': r.choice([0, 0, 1, 2]), 'rush': thr and r.random() < 0.5} for _ in range(r.randrange(4, 9))]
        for st in script:
            if r.random() < 0.25:
                st['ensure'] = True
                if st['env'] in ('ok', 'conflict') and st['new'] and r.random() < 0.6:
                    st['env'] = 'undo'
        out.append({'level': 'function', 'fn': 'carry', 'throttled': thr, 'script': script})
    return out


def corpus_descs() -> list[dict]:
    import json
    out = []
    for f in sorted((fw.ROOT / 'corpus' / 'C08').glob('fn_*.json')):
        for c in json.loads(f.read_text()).get('cases', []):
            if c.get('fn') == 'carry':
                out.append(c)
    return out


def carry_layer(ctx: fw.Ctx, env: m.Env | None = None) -> None:
    ok, logtxt = fw.build_models(['Model/Carry.v'])
    if not ok:
        ctx.correspondence_break('T:carry model build', logtxt[-1500:])
        return
    ctx.notes.append(RULE_CARRY)
    own = env is None
    env = env or m.Env()
    try:
        cases: list[fw.Case] = []
        for desc in corpus_descs() + descs_quick() + descs_random(ctx, ctx.scale(0, 1500)):
            w = run_script(env, desc)
            cases.append(case_of(desc, w))
            monitors(ctx, desc, w)
            outs = [c['outcome'] for c in w.cycles]
            for o in outs:
                ctx.count('carry_outcome', o.strip('()'))
            ctx.count('carry_script', 'throttled' if desc.get('throttled') else 'unthrottled')
            ctx.cov['traces_validated_against_impl'] += 1
            scripted = outs[:len(desc['script'])]
            if any(o.startswith('(OConflict') and any(p != 'OApplied' for p in scripted[i + 1:i + 2]) for i, o in enumerate(scripted)):
                ctx.nontriv(['carry', desc.get('throttled'), desc['script']])
                ctx.sample({'carry_script': [[s['env'], s.get('new', 0), bool(s.get('rush'))] for s in desc['script']], 'throttled': bool(desc.get('throttled')),
                            'outcomes': outs, 'memory_after_each': [c['mem'] for c in w.cycles], 'effects': w.effects()}, limit=4)
        ctx.differential('carry_trace', HEADER, cases, shard=120)
    finally:
        if own:
            env.close()


def replay(ctx: fw.Ctx, body: dict) -> bool:
    desc = {k: v for k, v in (body.get('case') or {}).items() if k in ('level', 'fn', 'throttled', 'script')}
    env = m.Env()
    try:
        w = run_script(env, desc)
        monitors(ctx, desc, w)
    finally:
        env.close()
    for f in ctx.failures:
        print('  still failing:', f['sig'], '-', f['what'])
    return bool(ctx.failures) or bool(ctx.known_hits)
