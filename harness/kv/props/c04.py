"""C04 — change detection is exact: own writes invisible, diffs sound and complete."""
from __future__ import annotations

import copy
import itertools
import json
import logging
import types
from typing import Any

from kv import canon, coqio as cq, framework as fw, gen as g, storages as st

RULE = ('cases = (object body incl. annotations of this operator / of other Kopf operators with and without marker / kubectl '
        'last-applied / ReplicaSet-of-Deployment, diff-base storage configuration, progress storage configuration, '
        'extra_fields, framework write sequence) and (a, b, scope, path) pairs for diff/reduce, all from one PRNG plus the '
        'hand-seeded corpus; a (body, config, patch) case is non-trivial iff the body has >= 1 essential and >= 1 non-essential '
        'field and the patch is non-empty; a diff pair is non-trivial iff the diff has >= 2 items or nests >= 2 levels; '
        'distinct after canonicalisation')

HEADER = fw.STD_HEADER + ('From KV Require Import Base.Dicts Model.Keys Model.Storage Model.Diff Model.Essence Model.OwnWrites Model.Results.\n'
                          'Definition ond_eqb (x y : option json * json * list ditem) : bool :=\n'
                          '  ojeqb (fst (fst x)) (fst (fst y)) && jeqb (snd (fst x)) (snd (fst y)) && diff_sameb (snd x) (snd y).\n'
                          'Definition adj_eqb (x y : json * json * list ditem) : bool :=\n'
                          '  jeqb (fst (fst x)) (fst (fst y)) && jeqb (snd (fst x)) (snd (fst y)) && diff_sameb (snd x) (snd y).\n'
                          'Definition ck_eqb (x y : change_kind) : bool :=\n'
                          '  match x, y with KCreate, KCreate | KSame, KSame | KUpdate, KUpdate => true | _, _ => false end.\n')

CORPUS = fw.ROOT / 'corpus' / 'C04'
FINALIZER = 'kopf.zalando.org/KopfFinalizerMarker'
LAST_APPLIED = 'kubectl.kubernetes.io/last-applied-configuration'
LOG = logging.getLogger('kv.c04')
LOG.addHandler(logging.NullHandler())
LOG.propagate = False


# ------------------------------------------------------------------------------------------
# strict JSON equality and the F3 normal form (harness's own reading, independent of kopf)
# ------------------------------------------------------------------------------------------

def sdump(v: Any) -> str:
    return json.dumps(v, sort_keys=True, ensure_ascii=False, default=str)


def strict_eq(x: Any, y: Any) -> bool:
    """JSON equality: key order irrelevant, true != 1, {'x': null} != {}."""
    return sdump(x) == sdump(y)


def f3_norm(v: Any, through_list: bool = False) -> Any:
    """bool -> int everywhere; None-valued keys dropped in mappings reached through mappings only."""
    if isinstance(v, bool):
        return int(v)
    if isinstance(v, dict):
        return {k: f3_norm(x, through_list) for k, x in v.items() if through_list or x is not None}
    if isinstance(v, list):
        return [f3_norm(x, True) for x in v]
    return v


def resolve_path(v: Any, path: tuple) -> Any:
    for k in path:
        if not isinstance(v, dict) or k not in v:
            return None
        v = v[k]
    return v


def apply_diff_strict(old: Any, d: Any) -> Any:
    """The harness's own application of a diff: add/change write `new` at `field`, remove deletes the key."""
    cur = copy.deepcopy(old)
    for op, field, _o, n in d:
        op = str(op)
        field = tuple(field)
        if not field:
            cur = copy.deepcopy(n) if op in ('add', 'change') else None
            continue
        parent = cur
        for k in field[:-1]:
            if not isinstance(parent, dict) or k not in parent:
                raise LookupError(f'diff item {op} {field}: parent {k!r} does not exist')
            parent = parent[k]
        if not isinstance(parent, dict):
            raise LookupError(f'diff item {op} {field}: parent is not a mapping')
        if op in ('add', 'change'):
            parent[field[-1]] = copy.deepcopy(n)
        elif op == 'remove':
            if field[-1] not in parent:
                raise LookupError(f'diff item remove {field}: key does not exist')
            del parent[field[-1]]
        else:
            raise LookupError(f'unknown op {op!r}')
    return cur


def diff_list(d: Any) -> list:
    return sorted(([str(op), list(field), o, n] for op, field, o, n in d), key=lambda it: sdump(it[1]))


# ------------------------------------------------------------------------------------------
# Coq encoders
# ------------------------------------------------------------------------------------------

def cdiff(d: Any) -> str:
    items = []
    for op, field, o, n in d:
        c = {'add': 'DAdd', 'change': 'DChange', 'remove': 'DRemove'}[str(op)]
        items.append(f'(mk_ditem {c} {cq.cpath(field)} {canon.cj(o)} {canon.cj(n)})')
    return cq.clist(items)


def cscope(name: str) -> str:
    return {'full': 'scope_full', 'left': 'scope_left', 'right': 'scope_right', 'none': '(mk_scope false false)'}[name]


def real_scope(name: str) -> Any:
    from kopf._cogs.structs import diffs
    return {'full': diffs.DiffScope.FULL, 'left': diffs.DiffScope.LEFT, 'right': diffs.DiffScope.RIGHT,
            'none': diffs.DiffScope(0)}[name]


def cops(ops: list) -> str:
    out = []
    for op in ops:
        k = op[0]
        if k == 'store':
            out.append(f'(OwStore {cq.cstr(op[1])} (match {canon.cj(op[2])} with JObj o => o | _ => [] end))')
        elif k == 'purge':
            out.append(f'(OwPurge {cq.cstr(op[1])})')
        elif k == 'diffbase':
            out.append(f'(OwDiffbase {canon.cj(op[1])})')
        elif k == 'touch':
            out.append(f'(OwTouch {canon.cj(op[1])})')
        elif k == 'marker':
            out.append(f'(OwMarker {cq.cstr(op[1])})')
        else:
            raise ValueError(k)
    return cq.clist(out)


# ------------------------------------------------------------------------------------------
# the real code: one operator = (diff-base storage, progress storage, handlers' fields)
# ------------------------------------------------------------------------------------------

class Operator:
    def __init__(self, dcfg: dict, pcfg: dict, fields: list) -> None:
        import kopf
        from kopf._cogs.configs import configuration
        from kopf._cogs.structs import references
        from kopf._core.engines import indexing
        from kopf._core.intents import registries
        self.dcfg, self.pcfg, self.fields = dcfg, pcfg, [tuple(f) for f in fields]
        self.ds = st.build_diffbase(dcfg)
        self.ps = st.build_progress(pcfg)
        self.registry = registries.OperatorRegistry()

        def fn(**_: Any) -> None:
            return None
        kopf.on.update('kopfexamples', registry=self.registry, id='upd')(fn)
        for i, f in enumerate(self.fields):
            kopf.on.field('kopfexamples', field=tuple(f), registry=self.registry, id=f'fld{i}')(fn)
        self.settings = configuration.OperatorSettings()
        self.settings.persistence.progress_storage = self.ps
        self.settings.persistence.diffbase_storage = self.ds
        self.settings.persistence.finalizer = FINALIZER
        self.resource = references.Resource('kopf.dev', 'v1', 'kopfexamples', namespaced=True)
        self.indexers = indexing.OperatorIndexers()
        self.memo = kopf.Memo()

    def causes(self, raw: dict, initial: bool = False) -> Any:
        """old/new/diff/reason exactly as processing.py computes them for a MODIFIED event."""
        from kopf._cogs.structs import bodies, patches
        from kopf._core.reactor import processing
        mem = types.SimpleNamespace(memo=self.memo, noticed_by_listing=initial, fully_handled_once=False)
        cs = processing._detect_causes(
            indexers=self.indexers, registry=self.registry, settings=self.settings, resource=self.resource,
            raw_event={'type': 'MODIFIED', 'object': raw}, body=bodies.Body(raw), patch=patches.Patch({}), memory=mem,
            local_logger=LOG, event_logger=LOG)
        return cs.changing_cause

    def essence(self, raw: dict) -> tuple[str, Any]:
        kind, cc = canon.run_res(lambda: self.causes(raw))
        return kind, (copy.deepcopy(cc.new) if kind == 'ok' else None)

    def field_handlers(self) -> list:
        return [h for h in self.registry._changing._handlers if h.field is not None]

    def own_write(self, raw: dict, ops: list) -> tuple[str, dict | None]:
        """Perform the framework's writes on ONE accumulating patch, as one processing cycle does."""
        from kopf._cogs.structs import bodies, patches
        body = bodies.Body(raw)
        patch = patches.Patch({})

        def go() -> None:
            for op in ops:
                k = op[0]
                if k == 'store':
                    self.ps.store(key=op[1], record=copy.deepcopy(op[2]), body=body, patch=patch)
                elif k == 'purge':
                    self.ps.purge(key=op[1], body=body, patch=patch)
                elif k == 'diffbase':
                    self.ds.store(body=body, patch=patch, essence=copy.deepcopy(op[1]))
                elif k == 'touch':
                    self.ps.touch(body=body, patch=patch, value=op[1])
                elif k == 'marker':
                    self.ds._store_marker(prefix=op[1], patch=patch, body=body)
                else:
                    raise ValueError(k)
        kind, _ = canon.run_res(go)
        return kind, (copy.deepcopy(dict(patch)) if kind == 'ok' else None)

    def coq(self) -> tuple[str, str, str]:
        return st.coq_diffbase(self.dcfg), st.coq_progress(self.pcfg), cq.clist(cq.cpath(f) for f in self.fields)

    def dg(self, keys: list[str]) -> str:
        return st.digest_table(list(keys) + st.cfg_keys(self.dcfg) + st.cfg_keys(self.pcfg))

    def describe(self) -> dict:
        return {'diffbase': self.dcfg, 'progress': self.pcfg, 'fields': [list(f) for f in self.fields]}


def operator_from(desc: dict) -> Operator:
    return Operator(desc['diffbase'], desc['progress'], desc['fields'])


def all_prefixes(op_desc: dict) -> list[str]:
    return st.ann_prefixes(op_desc['diffbase']) + st.ann_prefixes(op_desc['progress'])


def status_roots(cfg: dict) -> list[tuple]:
    """Status paths a storage configuration writes to or reads from."""
    k = cfg['kind']
    out: list[tuple] = []
    if k in ('status', 'smart'):
        for f in ('field', 'touch_field'):
            if f in cfg:
                out.append(tuple(cfg[f]))
    if k == 'multi':
        for c in cfg['storages']:
            out += status_roots(c)
    return out


def related(p: tuple, q: tuple) -> bool:
    n = min(len(p), len(q))
    return tuple(p[:n]) == tuple(q[:n])


FIELD_CHOICES = [[], [], [], [['status', 'x']], [['spec', 'a']], [['spec']], [['status', 'x'], ['spec', 'a', 'b']],
                 [['metadata', 'labels', 'tier']], [['status', 'cond'], ['spec', 'field']], [['data']],
                 [['spec', 'struct', 'other']], [['spec', 'struct', 'other'], ['status', 'x']]]


def field_path_kind(raw: Any, f: tuple) -> str:
    """How a handler's field path meets the object: resolves / absent / through-nonmapping (a value on the way, incl.
    null, is not a mapping: dicts.cherrypick raises TypeError there — pinned by kopf's tests, recorded as an observation)."""
    v = raw
    for k in f:
        if not isinstance(v, dict):
            return 'through-nonmapping'
        if k not in v:
            return 'absent'
        v = v[k]
    return 'resolves'


def gen_operator(r: Any) -> Operator:
    return Operator(st.gen_diffbase_cfg(r), st.gen_progress_cfg(r), r.choice(FIELD_CHOICES))


def gen_ops(r: Any, G: g.Gen, op: Operator, raw: dict, ess: Any) -> list:
    """A framework write sequence in the order of one processing cycle."""
    ops: list = []
    keys = [r.choice(['upd', 'create_fn', 'fld0', 'upd/spec.a', G.handler_id()]) for _ in range(r.choice([1, 1, 2]))]
    style = r.randrange(7)
    if style in (0, 1, 2):
        for k in keys:
            ops.append(('store', k, G.record()))
    if style in (2, 3):
        for k in keys:
            ops.append(('purge', k))
    if style in (2, 3, 4) and ess is not None:
        ops.append(('diffbase', ess))
    if style == 5:
        ops.append(('touch', r.choice([G.timestamp(), 'x'])))
    elif style == 6:
        prefixes = all_prefixes(op.describe())
        if prefixes:
            ops.append(('marker', r.choice(prefixes)))
        else:
            ops.append(('touch', G.timestamp()))
    elif ops and r.random() < 0.7:
        ops.append(('touch', None))    # application.apply: dummies removed whenever there is a patch
    return ops


def is_drs(raw: dict) -> bool:
    md = raw.get('metadata') if isinstance(raw.get('metadata'), dict) else {}
    return raw.get('kind') == 'ReplicaSet' and any(isinstance(o, dict) and o.get('kind') == 'Deployment'
                                                  for o in (md.get('ownerReferences') or []))


def near_miss_keys(prefixes: list[str]) -> list[str]:
    """Ordinary annotation keys that merely share a string prefix with a Kopf operator's prefix (another domain)."""
    out = []
    for q in sorted(set(prefixes)):
        out += [f'{q}x/thing', f'{q}.evil.io/thing', f'{q}-plain']
    return out


def marked_in(raw: dict) -> list[str]:
    md = raw.get('metadata') if isinstance(raw.get('metadata'), dict) else {}
    an = md.get('annotations') if isinstance(md.get('annotations'), dict) else {}
    return sorted({k.split('/', 1)[0] for k in an if '/' in k and (k.endswith('/kopf-managed') or k.startswith('kopf.zalando.org/'))})


def gen_body(r: Any, G: g.Gen, op: Operator, others: list[Operator]) -> tuple[dict, dict]:
    """A body with the leftovers of this operator and of other Kopf operators; returns (body, tags)."""
    tags = {'own': False, 'other_marked': False, 'other_unmarked': False, 'last_applied': False, 'drs': False, 'old': False,
            'near_miss': False, 'changed_since': False}
    status = None
    if r.random() < 0.35:
        status = {'kopf': {'progress': {G.handler_id(): G.record()}, 'dummy': G.timestamp()}, 'x': r.choice([1, 'v', {'y': 1}]),
                  'cond': r.choice([True, 'ok'])}
        if r.random() < 0.3:
            status['myop'] = {'progress': {}, 'last-handled-configuration': '{"spec":{}}'}
    raw = G.body(status=status)
    if isinstance(raw.get('spec'), dict) and r.random() < 0.5:
        raw['spec'].update({'a': r.choice([1, {'b': 2, 'c': None}, 'v']), 'field': r.choice(['v', 'w', 5]), 'ignored': 'i'})
    if isinstance(raw.get('spec'), dict) and (r.random() < 0.25 or ('spec', 'struct', 'other') in op.fields and r.random() < 0.8):
        raw['spec']['struct'] = r.choice([None, 'str', {'other': 1}, {'other': {'deep': [2]}}, [1], 5, {}])
    if r.random() < 0.4 and isinstance(raw.get('metadata'), dict):
        nm = near_miss_keys(all_prefixes(op.describe()) + [q for o in others for q in all_prefixes(o.describe())])
        an = raw['metadata'].setdefault('annotations', {})
        for k in r.sample(nm, min(len(nm), r.choice([1, 2]))):
            an[k] = r.choice(g.WORDS)
            tags['near_miss'] = True

    def merge_from(o: Operator, ops: list) -> bool:
        nonlocal raw
        kind, p = o.own_write(raw, ops)
        if kind == 'ok' and p:
            raw = canon.merge7386(raw, p)
            return True
        return False

    # other Kopf-based operators first (their annotations are part of what this operator sees)
    for o in others:
        ops = gen_ops(r, G, o, raw, G.obj(1))
        if merge_from(o, ops):
            stripped = False
            if r.random() < 0.3:      # "without marker": e.g. written by an old Kopf version
                anns = raw.get('metadata', {}).get('annotations', {})
                for k in [k for k in anns if k.endswith('/kopf-managed')]:
                    del anns[k]
                    stripped = True
                    tags['stripped'] = tags.get('stripped', []) + [k[:-len('/kopf-managed')]]
            anns = raw.get('metadata', {}).get('annotations', {}) if isinstance(raw.get('metadata'), dict) else {}
            marked = any(k.endswith('/kopf-managed') for k in anns)
            tags['other_marked' if marked and not stripped else 'other_unmarked'] = True
    # this operator: the last-handled state of an earlier version of the object, and/or progress
    if r.random() < 0.6:
        kind, ess = op.essence(raw)
        if kind == 'ok' and merge_from(op, [('diffbase', ess)]):
            tags['old'] = True
            tags['own'] = True
            # ... and the object has changed since (so that old != new, reason = update, a real diff)
            x = r.random()
            if x < 0.25:
                raw, _, _ = mutate_payload(r, raw)
                tags['changed_since'] = True
            elif x < 0.45 and isinstance(raw.get('spec'), dict):
                raw['spec'] = mutate_json(r, G, raw['spec'])
                tags['changed_since'] = True
    if r.random() < 0.4:
        if merge_from(op, [('store', r.choice(['upd', 'fld0', G.handler_id()]), G.record())]):
            tags['own'] = True
    md = raw.get('metadata') if isinstance(raw.get('metadata'), dict) else {}
    tags['last_applied'] = LAST_APPLIED in (md.get('annotations') or {})
    tags['drs'] = is_drs(raw)
    return raw, tags


# mutations ---------------------------------------------------------------------------------

def mutate_system(r: Any, raw: dict) -> tuple[dict, str]:
    """A change confined to system metadata / status (outside extra_fields) / apiVersion."""
    b = copy.deepcopy(raw)
    md = b.setdefault('metadata', {})
    if not isinstance(md, dict):
        b['metadata'] = md = {}
    k = r.randrange(8)
    if k == 0:
        md['resourceVersion'] = str(r.randrange(5000, 9000)); what = 'resourceVersion'
    elif k == 1:
        md['generation'] = r.randrange(10, 99); what = 'generation'
    elif k == 2:
        md['managedFields'] = [{'manager': 'kubectl', 'time': str(r.randrange(100))}]; what = 'managedFields'
    elif k == 3:
        md['uid'] = f'uid-{r.randrange(1000, 2000)}'; md['creationTimestamp'] = '2021-02-03T04:05:06Z'; what = 'uid+creationTimestamp'
    elif k == 4:
        md['finalizers'] = list(md.get('finalizers') or []) + [f'other/fin{r.randrange(9)}']; what = 'finalizers'
    elif k == 5:
        b['apiVersion'] = 'kopf.dev/v2' if b.get('apiVersion') != 'kopf.dev/v2' else 'kopf.dev/v3'; what = 'apiVersion'
    elif k == 6:
        s = b.get('status')
        if not isinstance(s, dict):
            b['status'] = s = {}
        s['c04sys'] = {'observed': r.randrange(1000)}; what = 'status'
    else:
        md['selfLink'] = f'/apis/x/{r.randrange(99)}'; md['deletionGracePeriodSeconds'] = 30; what = 'selfLink'
    return b, what


def mutate_payload(r: Any, raw: dict) -> tuple[dict, str, tuple]:
    """A change of spec / another top-level payload field / a label / an ordinary annotation (never null, never bool<->int)."""
    b = copy.deepcopy(raw)
    v = f'changed-{r.randrange(10 ** 6)}'
    k = r.randrange(6)
    if k == 0:
        if isinstance(b.get('spec'), dict):
            b['spec']['c04'] = v; return b, 'spec', ('spec', 'c04')
        b['spec'] = {'c04': v}; return b, 'spec', ('spec',)
    if k == 1:
        b['c04data'] = {'k': [v]}; return b, 'toplevel', ('c04data',)
    md = b.setdefault('metadata', {})
    if not isinstance(md, dict):
        b['metadata'] = md = {}
    if k == 2:
        lb = md.get('labels')
        if not isinstance(lb, dict):
            md['labels'] = lb = {}
        lb['c04-label'] = v; return b, 'label', ('metadata', 'labels', 'c04-label')
    if k == 3:
        an = md.get('annotations')
        if not isinstance(an, dict):
            md['annotations'] = an = {}
        key = r.choice(['c04-note', 'example.org/c04', 'c04/with/slashes'])
        an[key] = v; return b, 'annotation', ('metadata', 'annotations', key)
    if k == 4 and isinstance(b.get('spec'), dict) and b['spec']:
        key = r.choice(sorted(b['spec']))
        if key not in ('ignored', 'a'):
            b['spec'][key] = [v]; return b, 'spec-replace', ('spec', key)
    if isinstance(b.get('spec'), dict) and any(x not in ('ignored', 'a') for x in b['spec']):
        key = r.choice(sorted(x for x in b['spec'] if x not in ('ignored', 'a')))
        if b['spec'][key] is not None:
            del b['spec'][key]; return b, 'spec-delete', ('spec', key)
    b['c04data'] = v
    return b, 'toplevel', ('c04data',)


def mutate_json(r: Any, G: g.Gen, a: Any, depth: int = 0) -> Any:
    """b close to a: the pairs kopf's diff actually sees."""
    k = r.randrange(12)
    if isinstance(a, dict) and a and k < 7:
        b = dict(a)
        key = r.choice(sorted(b))
        if k < 3:
            b[key] = mutate_json(r, G, b[key], depth + 1)
        elif k == 3:
            del b[key]
        elif k == 4:
            b[key] = None
        elif k == 5:
            b[r.choice(g.KEYS)] = G.json(1)
        else:
            b[key] = G.json(2)
        return b
    if isinstance(a, dict) and k < 9:
        b = dict(a)
        b[r.choice(g.KEYS)] = r.choice([None, G.json(1)])
        return b
    if isinstance(a, bool) and k < 6:
        return int(a)
    if isinstance(a, int) and not isinstance(a, bool) and a in (0, 1) and k < 6:
        return bool(a)
    if isinstance(a, list) and k < 6:
        return a + [G.scalar()] if k < 3 else [mutate_json(r, G, x, depth + 1) for x in a]
    if k == 9:
        return copy.deepcopy(a)
    return G.json(2)


def small_values() -> list:
    leaves: list = [None, True, 1, 0, 's', [], [None], {}]
    lvl1 = [dict(zip(ks, vs)) for n in (1, 2) for ks in itertools.combinations(['x', 'y'], n)
            for vs in itertools.product(leaves, repeat=n)]
    return leaves + lvl1


# ------------------------------------------------------------------------------------------
# known findings
# ------------------------------------------------------------------------------------------

def match_f3(f: dict) -> bool:
    """F3: the diff is inexact ONLY by null-valued key vs absent key and/or True/False vs 1/0."""
    if f['sig'] not in ('diff-unsound', 'diff-empty-but-different', 'reduce-inexact'):
        return False
    c = f['case']
    got, want = f.get('observed'), f.get('expected')
    return not strict_eq(got, want) and strict_eq(f3_norm(got), f3_norm(want)) and 'a' in c and 'b' in c


def _kopf_dot(prefix: str) -> bool:
    """Prefixes which were never marked before kopf commit e6fe434 (F5, fixed): 'kopf.*' other than kopf.zalando.org."""
    return prefix.startswith('kopf.') and prefix != 'kopf.zalando.org' and not prefix.endswith('.kopf.zalando.org')


def _ann(e: Any) -> dict:
    md = e.get('metadata') if isinstance(e, dict) else None
    an = md.get('annotations') if isinstance(md, dict) else None
    return an if isinstance(an, dict) else {}


def _without_ann(e: Any, pred: Any) -> Any:
    e = copy.deepcopy(e)
    an = _ann(e)
    for k in [k for k in an if pred(k)]:
        del an[k]
    if isinstance(e, dict) and isinstance(e.get('metadata'), dict):
        if 'annotations' in e['metadata'] and not e['metadata']['annotations']:
            del e['metadata']['annotations']
        if not e['metadata']:
            del e['metadata']
    return e


def match_f41(f: dict) -> bool:
    """F41: the write adds the FIRST `<q>/kopf-managed` marker while the object carries annotations under `<q>/` that no
    Kopf storage wrote and that were visible before: they vanish from the essence (and only they)."""
    if f['sig'] not in ('own-write-visible', 'other-operator-visible', 'self-trigger-after-store'):
        return False
    patch = f['case'].get('patch') or {}
    added = [k[:-len('/kopf-managed')] for k, v in _ann(patch).items() if k.endswith('/kopf-managed') and v is not None]
    if not added:
        return False
    before, after = f['expected'], f['observed']
    under = lambda k: any(k.startswith(q + '/') for q in added)
    hidden = [k for k in _ann(before) if under(k)]
    return bool(hidden) and not any(under(k) for k in _ann(after)) and strict_eq(_without_ann(before, under), after)


# ------------------------------------------------------------------------------------------
# monitors
# ------------------------------------------------------------------------------------------

def check_diff_pair(ctx: fw.Ctx, a: Any, b: Any, src: str) -> None:
    """Soundness / completeness / truthfulness of diffs.diff(a, b) by the harness's own apply."""
    from kopf._cogs.structs import diffs
    d = diffs.diff(a, b)
    case = {'a': a, 'b': b, 'src': src}
    ctx.count('diff_ops', ','.join(sorted({str(i.op) for i in d})) or 'empty')
    try:
        got = apply_diff_strict(a, d)
    except LookupError as e:
        ctx.fail('diff cannot be applied to old', case, observed=str(e), expected=b, sig='diff-inapplicable')
        return
    if not strict_eq(got, b):
        if len(d) == 0:
            ctx.fail('diff is empty although old and new differ', case, observed=got, expected=b, sig='diff-empty-but-different')
        else:
            ctx.fail('applying diff to old does not yield new', case, observed=got, expected=b, sig='diff-unsound')
    if strict_eq(a, b) and len(d) != 0:
        ctx.fail('diff is non-empty although old and new are equal', case, observed=diff_list(d), expected=[], sig='diff-spurious')
    fields = [tuple(i.field) for i in d]
    if len(set(fields)) != len(fields):
        ctx.fail('two diff items for one field', case, observed=diff_list(d), sig='diff-duplicate-field')
    for op, field, o, n in d:
        ra, rb = resolve_path(a, tuple(field)), resolve_path(b, tuple(field))
        if not strict_eq(o, ra) or not strict_eq(n, rb):
            ctx.fail('diff item old/new are not the values at its field', case, observed=[str(op), list(field), o, n],
                     expected=[ra, rb], sig='diff-untruthful')
        want = 'add' if ra is None else 'remove' if rb is None else 'change'
        if str(op) != want:
            ctx.fail('diff item operation is wrong', case, observed=[str(op), list(field)], expected=want, sig='diff-wrong-op')


def check_reduce(ctx: fw.Ctx, a: Any, b: Any, path: tuple) -> None:
    from kopf._cogs.structs import diffs, dicts
    d = diffs.diff(a, b)
    red = diffs.reduce(d, path)
    sa, sb = resolve_path(a, path), resolve_path(b, path)
    case = {'a': a, 'b': b, 'path': list(path)}
    ctx.count('reduce', 'root' if not path else 'empty' if not red else 'items')
    # (1) reduce is exactly the diff of the sub-values
    direct = diffs.diff(sa, sb)
    if not strict_eq(diff_list(red), diff_list(direct)):
        ctx.fail('reduce(diff(a,b), path) differs from diff(a[path], b[path])', case, observed=diff_list(red),
                 expected=diff_list(direct), sig='reduce-differs')
    # (2) and applying it to old[path] yields new[path]
    try:
        got = apply_diff_strict(sa, red)
    except LookupError as e:
        ctx.fail('reduced diff cannot be applied to old[path]', case, observed=str(e), expected=sb, sig='reduce-inapplicable')
        return
    if not strict_eq(got, sb):
        ctx.fail('applying the reduced diff to old[path] does not yield new[path]', case, observed=got, expected=sb, sig='reduce-inexact')
    # (3) what adjust_cause hands to a field handler
    if path:
        h = types.SimpleNamespace(field=tuple(path))
        from kopf._core.intents import causes, handlers
        cc = causes.ChangingCause(resource=None, indices=None, logger=LOG, patch=None, body=None, memo=None,  # type: ignore
                                  initial=False, reason=causes.Reason.UPDATE, diff=d, old=a, new=b)
        c2 = handlers.ResourceHandler.adjust_cause(h, cc)  # type: ignore
        if not strict_eq(c2.old, sa) or not strict_eq(c2.new, sb) or not strict_eq(diff_list(c2.diff), diff_list(red)):
            ctx.fail('field handler old/new/diff are not the sub-values', case, observed=[c2.old, c2.new, diff_list(c2.diff)],
                     expected=[sa, sb, diff_list(red)], sig='adjust-cause')


def nontrivial_body(raw: dict, ess: Any) -> bool:
    if not isinstance(ess, dict) or not ess:
        return False
    md = raw.get('metadata') if isinstance(raw.get('metadata'), dict) else {}
    nonessential = any(k not in ('labels', 'annotations') for k in md) or 'status' in raw
    return nonessential


def check_own_write(ctx: fw.Ctx, op: Operator, raw: dict, ops: list, tag: str = 'gen') -> tuple[dict | None, Any]:
    """essence(merge(own patch, body)) == essence(body), through the real cause detection."""
    k0, e0 = op.essence(raw)
    kind, patch = op.own_write(raw, ops)
    if k0 != 'ok' or kind != 'ok' or not patch:
        ctx.count('own_write', 'skipped:' + (k0 if k0 != 'ok' else kind if kind != 'ok' else 'empty-patch'))
        return patch, None
    after = canon.merge7386(raw, patch)
    k1, e1 = op.essence(after)
    case = {'operator': op.describe(), 'body': raw, 'ops': [list(o) for o in ops], 'patch': patch, 'src': tag}
    ctx.count('own_write', '+'.join(sorted({o[0] for o in ops})))
    if k1 != 'ok' or not strict_eq(e0, e1):
        ctx.fail("the framework's own write changes the essence", case, observed=e1 if k1 == 'ok' else f'error:{k1}', expected=e0,
                 sig='own-write-visible')
    if nontrivial_body(raw, e0):
        ctx.nontriv(['own', op.describe(), raw, patch])
    return patch, after


def check_finalizers(ctx: fw.Ctx, op: Operator, raw: dict) -> list[tuple[str, dict, str, Any]]:
    from kopf._cogs.structs import finalizers
    k0, e0 = op.essence(raw)
    outs = []
    for name, fn in (('block', finalizers.block_deletion), ('allow', finalizers.allow_deletion)):
        b = copy.deepcopy(raw)
        kind, _ = canon.run_res(lambda: fn(b, FINALIZER))
        outs.append((name, copy.deepcopy(raw), kind, b if kind == 'ok' else None))
        if kind != 'ok' or k0 != 'ok':
            continue
        k1, e1 = op.essence(b)
        ctx.count('own_write', 'finalizer-' + name)
        if k1 != 'ok' or not strict_eq(e0, e1):
            ctx.fail('adding/removing the finalizer changes the essence', {'operator': op.describe(), 'body': raw, 'fn': name},
                     observed=e1, expected=e0, sig='finalizer-visible')
    return outs


RESULTS = [None, 'done', 5, True, {'k': 'v'}, {'a': {'b': 1}, 'n': None}, [1, 2], {}, '']


def check_results(ctx: fw.Ctx, op: Operator, raw: dict, r: Any, G: g.Gen) -> tuple[tuple[str, Any], dict]:
    """deliver_results on a patch that may already carry this cycle's writes; its effect never reaches the essence."""
    from kopf._cogs.structs import patches
    from kopf._core.actions import execution, progression
    hids = [r.choice(['create_fn', 'upd', 'fld0', 'upd/spec.a']) for _ in range(r.choice([1, 2, 3]))]
    outcomes = [(h, r.random() < 0.85, r.choice(RESULTS)) for h in dict.fromkeys(hids)]
    kind0, p_in = op.own_write(raw, [('store', hids[0], G.record())]) if r.random() < 0.5 else ('ok', {})
    if kind0 != 'ok' or p_in is None:
        p_in = {}
    if r.random() < 0.15:
        p_in = {**p_in, 'status': r.choice([None, 'oops', {'create_fn': 'str'}, {'create_fn': {'old': 1}}])}
    patch = patches.Patch(copy.deepcopy(p_in))
    outs = {h: execution.Outcome(final=True, result=copy.deepcopy(v) if ok_ else None, exception=None if ok_ else RuntimeError('boom'))
            for h, ok_, v in outcomes}
    kres, _ = canon.run_res(lambda: progression.deliver_results(outcomes=outs, patch=patch))
    pres = copy.deepcopy(dict(patch)) if kres == 'ok' else None
    data = {'operator': op.describe(), 'body': raw, 'outcomes': [[h, ok_, v] for h, ok_, v in outcomes], 'patch_in': p_in}
    for h, ok_, v in outcomes:
        ctx.count('result_kind', 'raised' if not ok_ else 'None' if v is None else 'mapping' if isinstance(v, dict) else 'scalar/list')
    ctx.count('results_outcome', kres)
    # proviso: no handler field reaches into status.<handler id>
    if kres == 'ok' and pres and not any(related(f, ('status', h)) for f in op.fields for h, _, _ in outcomes):
        # baseline = the body with the PENDING patch applied (its own effect, e.g. an injected `status: null`, is not the
        # effect of deliver_results); after = the body with the pending patch AND the delivered results applied
        k0, e0 = op.essence(canon.merge7386(raw, p_in) if p_in else raw)
        k1, e1 = op.essence(canon.merge7386(raw, pres))
        # judged only where the essence is computable before and after: a (deliberately malformed) pending patch that
        # turns `status` into a non-mapping makes a handler's field status.* run through a non-mapping, and build raises
        # TypeError (the cherrypick observation; model and code agree on it in D:build / D:essence) — not a change.
        if k0 != 'ok' or k1 != 'ok':
            ctx.count('results_monitor', f'essence-not-computable:{k0}->{k1}')
        else:
            ctx.count('results_monitor', 'judged')
            if not strict_eq(e0, e1):
                ctx.fail("delivering the handlers' results changes the essence", data, observed=e1, expected=e0, sig='results-visible')
    return (kres, pres), data


def check_system(ctx: fw.Ctx, op: Operator, raw: dict, r: Any) -> None:
    b, what = mutate_system(r, raw)
    if is_drs(b) != is_drs(raw):
        return
    k0, e0 = op.essence(raw)
    k1, e1 = op.essence(b)
    if k0 != 'ok' or k1 != 'ok':
        return
    ctx.count('system_change', what)
    if not strict_eq(e0, e1):
        ctx.fail('a change of system metadata / status counts as an essential change',
                 {'operator': op.describe(), 'body': raw, 'changed': b, 'what': what}, observed=e1, expected=e0, sig='system-visible')


def check_payload(ctx: fw.Ctx, op: Operator, raw: dict, r: Any) -> None:
    b, what, path = mutate_payload(r, raw)
    marked = marked_in(raw) + all_prefixes(op.describe())
    if marked and r.random() < 0.35 and isinstance(raw.get('metadata'), dict):
        # an ordinary annotation of ANOTHER domain that shares a string prefix with a marked / own prefix
        key = r.choice(near_miss_keys(marked))
        b = copy.deepcopy(raw)
        b['metadata'].setdefault('annotations', {})[key] = f'changed-{r.randrange(10 ** 6)}'
        what, path = 'near-miss-annotation', ('metadata', 'annotations', key)
    # hypotheses of the statement: the field is not configured as ignored, not under a marked/own prefix
    ign = [tuple(p) for c in flat_cfgs(op.dcfg) for p in c.get('ignored', [])]
    if any(related(tuple(p), path) for p in ign):
        ctx.count('payload_change', 'skipped:ignored_fields')
        return
    k0, e0 = op.essence(raw)
    k1, e1 = op.essence(b)
    if k0 != 'ok' or k1 != 'ok':
        return
    ctx.count('payload_change', what)
    case = {'operator': op.describe(), 'body': raw, 'changed': b, 'what': what, 'path': list(path)}
    if strict_eq(e0, e1):
        ctx.fail('a payload change does not count as an essential change', case, observed=e1, expected='differs', sig='payload-invisible')
        return
    from kopf._cogs.structs import diffs
    if not diffs.diff(e0, e1):
        ctx.fail('a payload change yields an empty diff', case, observed=[], sig='payload-empty-diff')


def flat_cfgs(cfg: dict) -> list[dict]:
    return [x for c in cfg['storages'] for x in flat_cfgs(c)] if cfg['kind'] == 'multi' else [cfg]


def check_other_operator(ctx: fw.Ctx, op: Operator, other: Operator, raw: dict, ops: list, tag: str = 'gen',
                         unmarked_legacy: tuple = ()) -> None:
    """Writes of ANOTHER Kopf operator (annotation storages, different prefix) do not change THIS operator's essence."""
    mine = set(all_prefixes(op.describe()))
    theirs = [q for q in all_prefixes(other.describe())]
    if not theirs or mine & set(theirs) or status_roots(other.dcfg) or status_roots(other.pcfg):
        return
    k0, e0 = op.essence(raw)
    kind, patch = other.own_write(raw, ops)
    if k0 != 'ok' or kind != 'ok' or not patch:
        return
    # "invisible iff detectable": annotations which the GENERATOR left without a marker (a Kopf older than the marker)
    # and which get no marker with this write either (e.g. such a record is purged) are outside the statement.
    # Everything a current Kopf writes is in: every prefix gets its marker or is known without one (F5 is fixed).
    for q in sorted({k.split('/', 1)[0] for k in _ann(patch) if '/' in k}):
        if q in unmarked_legacy and f'{q}/kopf-managed' not in _ann(raw) and _ann(patch).get(f'{q}/kopf-managed') is None:
            ctx.count('other_operator', 'skipped:legacy-unmarked')
            return
    after = canon.merge7386(raw, patch)
    k1, e1 = op.essence(after)
    case = {'operator': op.describe(), 'other': other.describe(), 'other_prefixes': theirs, 'body': raw,
            'ops': [list(o) for o in ops], 'patch': patch, 'src': tag}
    ctx.count('other_operator', 'kopf.*-prefix' if any(_kopf_dot(q) for q in theirs) else 'other-prefix')
    if k1 != 'ok' or not strict_eq(e0, e1):
        ctx.fail("another Kopf operator's write counts as an essential change", case, observed=e1 if k1 == 'ok' else f'error:{k1}',
                 expected=e0, sig='other-operator-visible')


def check_cycle(ctx: fw.Ctx, op: Operator, raw: dict, r: Any, G: g.Gen) -> None:
    """Function-level closed loop: handled once -> own writes / system changes never give UPDATE, payload changes always do."""
    k0, e0 = op.essence(raw)
    if k0 != 'ok':
        return
    kind, p = op.own_write(raw, [('diffbase', e0)])
    if kind != 'ok' or not p:
        return
    handled = canon.merge7386(raw, p)
    kc, cc = canon.run_res(lambda: op.causes(handled))
    if kc != 'ok':
        return
    case = {'operator': op.describe(), 'body': raw, 'handled': handled}
    if str(cc.reason.value) != 'noop':
        ctx.fail('the object is seen as changed right after its state was recorded',
                 {**case, 'patch': p, 'reason': str(cc.reason.value), 'diff': diff_list(cc.diff)}, observed=cc.new, expected=e0,
                 sig='self-trigger-after-store')
        return
    ctx.count('cycle', 'noop-after-store')
    # framework writes on top
    ops = gen_ops(r, G, op, handled, None)
    kind, p2 = op.own_write(handled, ops)
    if kind == 'ok' and p2:
        b2 = canon.merge7386(handled, p2)
        k2, c2 = canon.run_res(lambda: op.causes(b2))
        if k2 == 'ok':
            ctx.count('cycle', 'own-write:' + str(c2.reason.value))
            if str(c2.reason.value) != 'noop':
                ctx.fail("a framework write produces a create/update cause", {**case, 'ops': [list(o) for o in ops], 'patch': p2},
                         observed=c2.new, expected=cc.new, sig='own-write-visible')
    # a system change
    b3, what = mutate_system(r, handled)
    if is_drs(b3) == is_drs(handled):
        k3, c3 = canon.run_res(lambda: op.causes(b3))
        if k3 == 'ok':
            ctx.count('cycle', 'system:' + str(c3.reason.value))
            if str(c3.reason.value) != 'noop':
                ctx.fail('a system-field change produces a create/update cause', {**case, 'changed': b3, 'what': what},
                         observed=[str(c3.reason.value), diff_list(c3.diff)], expected='noop', sig='system-visible')
    # a payload change
    b4, what, path = mutate_payload(r, handled)
    ign = [tuple(p) for c in flat_cfgs(op.dcfg) for p in c.get('ignored', [])]
    if not any(related(tuple(p), path) for p in ign):
        k4, c4 = canon.run_res(lambda: op.causes(b4))
        if k4 == 'ok':
            ctx.count('cycle', 'payload:' + str(c4.reason.value))
            if str(c4.reason.value) != 'update':
                ctx.fail('a payload change produces no update cause', {**case, 'changed': b4, 'what': what, 'path': list(path)},
                         observed=str(c4.reason.value), expected='update', sig='payload-invisible')
            else:
                try:
                    got = apply_diff_strict(c4.old, c4.diff)
                    if not strict_eq(f3_norm(got), f3_norm(c4.new)):
                        ctx.fail('cause.diff applied to cause.old is not cause.new', {'a': c4.old, 'b': c4.new, 'src': 'cycle'},
                                 observed=got, expected=c4.new, sig='diff-unsound')
                except LookupError as e:
                    ctx.fail('cause.diff cannot be applied to cause.old', {'a': c4.old, 'b': c4.new, 'src': 'cycle'}, observed=str(e),
                             sig='diff-inapplicable')


# ------------------------------------------------------------------------------------------
# the run
# ------------------------------------------------------------------------------------------

def load_corpus() -> list[dict]:
    out = []
    if CORPUS.is_dir():
        for p in sorted(CORPUS.glob('*.json')):
            c = json.loads(p.read_text())
            c['file'] = p.name
            out.append(c)
    return out


def run(ctx: fw.Ctx) -> int:
    from kopf._cogs.structs import bodies, diffs, finalizers
    ctx.matchers = {'F3': match_f3, 'F41': match_f41}

    ctx.proofs()
    ok, logtxt = fw.build_models(['Model/Diff.v', 'Model/Essence.v', 'Model/OwnWrites.v', 'Model/Results.v'])
    if not ok:
        ctx.correspondence_break('model build', logtxt[-1500:])
        return ctx.finish(RULE)

    G = g.Gen(ctx.rng)
    r = ctx.rng
    D: dict[str, list[fw.Case]] = {k: [] for k in ('diff', 'reduce', 'build', 'essence', 'adjust', 'own', 'fin', 'results')}
    skipped = 0
    tie_on = True     # thorough: the monitors sweep a larger volume than the (costly) Coq evaluation of the ties

    def addD(name: str, case: fw.Case) -> None:
        if tie_on:
            D[name].append(case)

    # ================= corpus (hand-seeded dangerous cases; known findings are reproduced here) =================
    corpus = load_corpus()
    pairs: list[tuple[Any, Any, str]] = []
    for c in corpus:
        if c['kind'] == 'diff-pair':
            pairs.append((c['a'], c['b'], 'corpus:' + c['file']))
        elif c['kind'] == 'other-operator':
            check_other_operator(ctx, operator_from(c['operator']), operator_from(c['other']), c['body'],
                                 [tuple(o) for o in c['ops']], tag='corpus:' + c['file'])
        elif c['kind'] == 'own-write':
            cop = operator_from(c['operator'])
            cess = cop.essence(c['body'])[1]
            check_own_write(ctx, cop, c['body'], [tuple(cess if x == '$essence' else x for x in o) for o in c['ops']],
                            tag='corpus:' + c['file'])
        ctx.count('corpus', c['kind'])

    # ================= diff / reduce =================
    n_pairs = ctx.scale(800, 40000)
    tie_pairs = ctx.scale(800, 8000)
    for i in range(n_pairs):
        a = G.obj(3, nkeys=(1, 2, 3, 4)) if r.random() < 0.85 else G.json(3)
        b = mutate_json(r, G, a) if r.random() < 0.85 else G.json(3)
        if r.random() < 0.05:
            a = None
        pairs.append((a, b, 'gen'))
    small = small_values()
    exhaustive = [(x, y, 'exhaustive') for x in small for y in small]
    ctx.count('exhaustive', 'small-alphabet pairs (8 leaves, 2 keys, 1 level)', len(exhaustive))

    def add_diff_case(a: Any, b: Any, src: str, scope: str) -> None:
        nonlocal skipped
        try:
            d = diffs.diff(a, b, scope=real_scope(scope))
            term = f'diff_sameb (diff_iter {cscope(scope)} {canon.cj(a)} {canon.cj(b)} []) {cdiff(d)}'
        except cq.Unencodable:
            skipped += 1
            return
        addD('diff', fw.Case(term, {'a': a, 'b': b, 'scope': scope, 'diff': diff_list(d), 'src': src},
                                 diag=f'diff_iter {cscope(scope)} {canon.cj(a)} {canon.cj(b)} []'))

    def paths_of(v: Any, pre: tuple = ()) -> list[tuple]:
        out = [pre]
        if isinstance(v, dict):
            for k, x in v.items():
                out += paths_of(x, pre + (k,))
        return out

    for idx, (a, b, src) in enumerate(pairs):
        tie_on = idx < tie_pairs + len(corpus)
        check_diff_pair(ctx, a, b, src)
        add_diff_case(a, b, src, 'full')
        if r.random() < 0.3:
            add_diff_case(a, b, src, r.choice(['left', 'right', 'none']))
        d = diffs.diff(a, b)
        if len(d) >= 2 or any(len(i.field) >= 2 for i in d):
            ctx.nontriv(['diff', a, b])
        ctx.count('diff_size', str(min(len(d), 5)) + ('+' if len(d) >= 5 else ''))
        # reduce at a path of a or b, at an extension, and at an unrelated path
        cand = sorted(set(paths_of(a) + paths_of(b)), key=sdump)
        path = r.choice(cand)
        k = r.randrange(6)
        if k == 0:
            path = path + (r.choice(g.KEYS),)
        elif k == 1:
            path = (r.choice(g.KEYS),) + path[1:]
        check_reduce(ctx, a, b, path)
        try:
            red = diffs.reduce(d, path)
            term = f'diff_sameb (reduce {cdiff(d)} {cq.cpath(path)}) {cdiff(red)}'
            addD('reduce', fw.Case(term, {'a': a, 'b': b, 'path': list(path), 'diff': diff_list(d), 'reduced': diff_list(red)},
                                       diag=f'reduce {cdiff(d)} {cq.cpath(path)}'))
            # reduce of a hand-made (coarser) diff: one CHANGE item above the path, old/new possibly both mappings
            if path and r.random() < 0.3:
                j = r.randrange(len(path))
                hand = diffs.Diff([diffs.DiffItem(diffs.DiffOperation.CHANGE, tuple(path[:j]), resolve_path(a, tuple(path[:j])),
                                                  resolve_path(b, tuple(path[:j])))])
                hred = diffs.reduce(hand, path)
                addD('reduce', fw.Case(f'diff_sameb (reduce {cdiff(hand)} {cq.cpath(path)}) {cdiff(hred)}',
                                           {'hand_made_diff': diff_list(hand), 'path': list(path), 'reduced': diff_list(hred)},
                                           diag=f'reduce {cdiff(hand)} {cq.cpath(path)}'))
            # adjust_cause as a whole (old may be None = never handled)
            old = None if r.random() < 0.1 else a
            dd = diffs.diff(old, b)
            if path and isinstance(b, dict):
                h = types.SimpleNamespace(field=tuple(path))
                from kopf._core.intents import causes, handlers
                cc = causes.ChangingCause(resource=None, indices=None, logger=LOG, patch=None, body=None, memo=None,  # type: ignore
                                          initial=False, reason=causes.Reason.UPDATE, diff=dd, old=old, new=b)
                c2 = handlers.ResourceHandler.adjust_cause(h, cc)  # type: ignore
                term = (f'adj_eqb (adjust_cause {cq.cpath(path)} {cq.copt(canon.cj(old)) if old is not None else "None"} {canon.cj(b)} {cdiff(dd)}) '
                        f'({canon.cj(c2.old)}, {canon.cj(c2.new)}, {cdiff(c2.diff)})')
                addD('adjust', fw.Case(term, {'old': old, 'new': b, 'path': list(path), 'adjusted': [c2.old, c2.new, diff_list(c2.diff)]}))
        except cq.Unencodable:
            skipped += 1
    tie_on = True
    for a, b, src in exhaustive:
        check_diff_pair(ctx, a, b, src)
        for path in [(), ('x',), ('x', 'y')]:
            check_reduce(ctx, a, b, path)
    for a, b, src in (exhaustive if ctx.thorough else r.sample(exhaustive, 300)):
        add_diff_case(a, b, src, 'full')

    # ================= essence: build, clear o build, old/new/diff, own writes, other operators =================
    n = ctx.scale(300, 8000)
    tie_bodies = ctx.scale(300, 1500)
    for i in range(n):
        tie_on = i < tie_bodies
        op = gen_operator(r)
        others = [gen_operator(r) for _ in range(r.choice([0, 0, 1, 1, 2]))]
        # other operators use annotation storages under their own prefix (status storages would share status.kopf)
        others = [o for o in others if not (set(all_prefixes(o.describe())) & set(all_prefixes(op.describe())))
                  and all_prefixes(o.describe()) and not status_roots(o.dcfg) and not status_roots(o.pcfg)]
        # the statement's proviso: handlers' fields do not reach into the operator's own status storage
        roots = status_roots(op.dcfg) + status_roots(op.pcfg)
        if any(related(f, p) for f in op.fields for p in roots):
            continue
        raw, tags = gen_body(r, G, op, others)
        for t, v in tags.items():
            if v and t != 'stripped':
                ctx.count('body_has', t)
        ctx.count('diffbase_cfg', op.dcfg['kind'])
        ctx.count('progress_cfg', op.pcfg['kind'])
        dsc, psc, extra = op.coq()
        body = bodies.Body(raw)
        try:
            mbody = canon.cj(raw)
        except cq.Unencodable:
            skipped += 1
            continue
        data = {'operator': op.describe(), 'body': raw}

        # ---- D: DiffBaseStorage.build (every storage class, extra_fields, ignored_fields) ----
        kind, built = canon.run_res(lambda: op.ds.build(body=body, extra_fields=list(op.fields)))
        dg = op.dg([])
        try:
            exp = canon.cres(kind, canon.cj(built) if kind == 'ok' else None)
            addD('build', fw.Case(f'res_eqb jeqb (dbuild {dg} {dsc} {mbody} {extra}) {exp}', {**data, 'built': built, 'outcome': kind},
                                      diag=f'dbuild {dg} {dsc} {mbody} {extra}'))
        except cq.Unencodable:
            skipped += 1
        ctx.count('build_outcome', kind)

        # ---- D: the composition in processing.py: old, new, diff (+ the reason it leads to) ----
        kind, cc = canon.run_res(lambda: op.causes(raw))
        try:
            if kind == 'ok':
                old = cq.copt(canon.cj(cc.old)) if cc.old is not None else 'None'
                exp = f'(Ok ({old}, {canon.cj(cc.new)}, {cdiff(cc.diff)}))'
                reason = str(cc.reason.value)
                md = raw.get('metadata') if isinstance(raw.get('metadata'), dict) else {}
                if md.get('deletionTimestamp') is None and reason in ('create', 'update', 'noop'):
                    ck = {'create': 'KCreate', 'update': 'KUpdate', 'noop': 'KSame'}[reason]
                    addD('essence', fw.Case(
                        f'ck_eqb (classify_change {old} {cdiff(cc.diff)}) {ck}', {**data, 'reason': reason}))
                ctx.count('reason', reason)
            else:
                exp = canon.cres(kind)
            addD('essence', fw.Case(f'res_eqb ond_eqb (old_new_diff {dg} {dsc} {psc} {mbody} {extra}) {exp}',
                                        {**data, 'outcome': kind, 'old': cc.old if kind == 'ok' else None,
                                         'new': cc.new if kind == 'ok' else None},
                                        diag=f'old_new_diff {dg} {dsc} {psc} {mbody} {extra}'))
        except cq.Unencodable:
            skipped += 1
        if kind == 'ok':
            ctx.sample({'operator': op.describe(), 'body': raw, 'essence': cc.new}, limit=3)
            # the composition is what the property names: clear(build(...))
            k2, direct = canon.run_res(lambda: op.ps.clear(essence=op.ds.build(body=body, extra_fields=set(op.fields))))
            if k2 != 'ok' or not strict_eq(direct, cc.new):
                ctx.correspondence_break('observation point', {'detail': 'cause.new is not progress.clear(diffbase.build(body))', **data})

        # ---- own writes: D on the accumulated patch, monitor on the essence ----
        ess = cc.new if kind == 'ok' else None
        ops = gen_ops(r, G, op, raw, ess)
        patch, after = check_own_write(ctx, op, raw, ops)
        okind, _ = op.own_write(raw, ops)
        try:
            dgo = op.dg([o[1] for o in ops if o[0] in ('store', 'purge')])
            exp = canon.cres(okind, canon.cj(patch) if okind == 'ok' else None)
            addD('own', fw.Case(f'res_eqb jeqb (own_patch {dgo} {dsc} {psc} {mbody} {cops(ops)}) {exp}',
                                    {**data, 'ops': [list(o) for o in ops], 'patch': patch, 'outcome': okind},
                                    diag=f'own_patch {dgo} {dsc} {psc} {mbody} {cops(ops)}'))
            if okind == 'ok' and after is not None and i % 4 == 0:
                # the model's essence of the body after the write (ties essence o merge, the subject of the theorem)
                k1, e1 = op.essence(after)
                exp = canon.cres(k1, canon.cj(e1) if k1 == 'ok' else None)
                addD('own', fw.Case(
                    f'res_eqb jeqb (bind (own_body_after {dgo} {dsc} {psc} {mbody} {cops(ops)}) (fun b => essence {dgo} {dsc} {psc} b {extra})) {exp}',
                    {**data, 'ops': [list(o) for o in ops], 'essence_after': e1}))
        except cq.Unencodable:
            skipped += 1

        # ---- finalizers ----
        for name, before, fk, fb in check_finalizers(ctx, op, raw):
            if i % 4:
                continue
            try:
                exp = canon.cres(fk, canon.cj(fb) if fk == 'ok' else None)
                fn = 'fin_block' if name == 'block' else 'fin_allow'
                addD('fin', fw.Case(f'res_eqb jeqb ({fn} {cq.cstr(FINALIZER)} {mbody}) {exp}', {'body': raw, 'fn': name, 'after': fb},
                                        diag=f'{fn} {cq.cstr(FINALIZER)} {mbody}'))
            except cq.Unencodable:
                skipped += 1

        # ---- handlers' results (progression.deliver_results): a framework write confined to status.<handler id> ----
        if i % 2 == 0:
            outs, p0 = check_results(ctx, op, raw, r, G)
            try:
                kres, pres = outs
                couts = cq.clist(cq.cpair(cq.cstr(h), cq.copt(canon.cj(v)) if ok_ else 'None') for h, ok_, v in p0['outcomes'])
                exp = canon.cres(kres, canon.cj(pres) if kres == 'ok' else None)
                addD('results', fw.Case(f"res_eqb jeqb (deliver_results {couts} {canon.cj(p0['patch_in'])}) {exp}",
                                        {**p0, 'patch_out': pres, 'outcome': kres},
                                        diag=f"deliver_results {couts} {canon.cj(p0['patch_in'])}"))
            except cq.Unencodable:
                skipped += 1

        # ---- observation: a handler's field running through a non-mapping value (TypeError in dicts.cherrypick) ----
        for f in op.fields:
            fk = field_path_kind(raw, f)
            ctx.count('field_path', fk)
            if fk == 'through-nonmapping':
                ctx.count('observation:field-through-nonmapping', 'build raises ' + kind if kind != 'ok' else 'build ok')

        # ---- the other statements, evaluated on the implementation ----
        check_system(ctx, op, raw, r)
        check_payload(ctx, op, raw, r)
        if others:
            other = r.choice(others)
            check_other_operator(ctx, op, other, raw, gen_ops(r, G, other, raw, G.obj(1)),
                                 unmarked_legacy=tuple(tags.get('stripped', [])))
        if i % 2 == 0:
            check_cycle(ctx, op, raw, r, G)

    ctx.count('skipped', 'unencodable', skipped)
    for name, cases in D.items():
        ctx.differential(name, HEADER, cases, shard=150)
    return ctx.finish(RULE, level_note=[
        'blake2b/base64/json are oracles (digest bytes supplied to the model; JEnc builds in loads(dumps x) = x)',
        'metadata.annotations / metadata.labels are mappings or absent (Kubernetes schema); floats outside the model',
        "handlers' fields (extra_fields) do not reach into the operator's own status storage (proviso of the statement)",
        'item order inside a diff is unspecified in the code (frozenset iteration): compared as sets'])


def replay(ctx: fw.Ctx, body: dict) -> bool:
    """Re-evaluate the failing input of a replay file on the current implementation."""
    ctx.matchers = {}
    c = body.get('case') or {}
    sig = body.get('sig')
    if sig and sig.startswith(('diff-', 'reduce-', 'adjust-')) and 'a' in c:
        check_diff_pair(ctx, c['a'], c['b'], 'replay')
        if 'path' in c:
            check_reduce(ctx, c['a'], c['b'], tuple(c['path']))
    elif sig == 'own-write-visible' and 'ops' in c:
        op = operator_from(c['operator'])
        base = c.get('handled', c['body'])
        check_own_write(ctx, op, base, [tuple(o) for o in c['ops']], tag='replay')
    elif sig == 'other-operator-visible':
        check_other_operator(ctx, operator_from(c['operator']), operator_from(c['other']), c['body'], [tuple(o) for o in c['ops']], 'replay')
    elif sig in ('system-visible', 'payload-invisible', 'payload-empty-diff') and 'changed' in c:
        op = operator_from(c['operator'])
        base = c.get('handled', c['body'])
        _, e0 = op.essence(base)
        _, e1 = op.essence(c['changed'])
        return strict_eq(e0, e1) != (sig == 'system-visible')
    elif sig == 'finalizer-visible':
        check_finalizers(ctx, operator_from(c['operator']), c['body'])
    elif sig == 'self-trigger-after-store':
        op = operator_from(c['operator'])
        return str(op.causes(c['handled']).reason.value) != 'noop'
    else:
        return True
    return bool(ctx.failures)
