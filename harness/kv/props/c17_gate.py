"""C17, second half: the index-readiness gate.  The real orchestration.spawn_missing_watchers,
queueing.watcher (with its own aiotasks.Scheduler and worker_limit) and processing.process_resource_event
run on the stepped virtual-time loop; watching.infinite_watch is replaced by streams the explorer feeds,
processing.process_resource_causes by a stub that records the moment handlers/daemons/timers could start.
Label traces are replayed by the acceptor of Model/Gate.v (T); the monitors read the property directly.
"""
from __future__ import annotations

import ast
import asyncio
import functools
import inspect
import itertools
import logging
import sys
from typing import Any

from kv import coqio as cq, framework as fw, vloop

GHEADER = fw.STD_HEADER + 'From KV Require Import Model.Gate.\n'


# ----------------------------------------------------------------------------------------------
# S: the order of the gate calls in the source (structural; fails closed)
# ----------------------------------------------------------------------------------------------

def _calls_in(node: ast.AST) -> list[tuple[int, str]]:
    out = []
    for n in ast.walk(node):
        if isinstance(n, ast.Call):
            try:
                out.append((n.lineno, ast.unparse(n.func)))
            except Exception:
                pass
    return sorted(out)


def structural_check(ctx: fw.Ctx) -> None:
    from kopf._core.reactor import processing, queueing
    try:
        fn = ast.parse(inspect.getsource(queueing.watcher)).body[0]
        handlers = [h for n in ast.walk(fn) if isinstance(n, ast.Try) for h in n.handlers
                    if isinstance(h.type, ast.Name) and h.type.id == 'KeyError']
        assert len(handlers) == 1, 'KeyError handler of watcher not found'
        calls = _calls_in(handlers[0])
        names = [c for _, c in calls]
        need = ['operator_indexed.is_on', 'operator_indexed.make_toggle', 'scheduler.spawn']
        pos = [names.index(x) for x in need]
        assert pos == sorted(pos), f'order of {need} in watcher is {pos}'
        put = [ln for ln, c in calls if c.endswith('backlog.put')]
        mk = [ln for ln, c in calls if c == 'operator_indexed.make_toggle'][0]
        sp = [ln for ln, c in calls if c == 'scheduler.spawn'][0]
        assert put and mk < min(put) < sp, 'toggle creation must precede feeding and spawning the worker'
        # LISTED: the kind's toggle is dropped inside the `is Bookmark.LISTED` branch, before `continue`
        src = inspect.getsource(queueing.watcher)
        assert 'watching.Bookmark.LISTED' in src and 'drop_toggle(resource_indexed)' in src

        fn = ast.parse(inspect.getsource(processing.process_resource_event)).body[0]
        names = [c for _, c in _calls_in(fn)]
        need = ['indexing.index_resource', 'operator_indexed.drop_toggle', 'operator_indexed.wait_for', 'process_resource_causes']
        pos = [names.index(x) for x in need]
        assert pos == sorted(pos), f'order of {need} in process_resource_event is {pos}'
        ctx.count('structural', 'ok')
    except (AssertionError, ValueError, OSError, IndexError, SyntaxError) as e:
        ctx.correspondence_break('S:gate-call-order', str(e))


# ----------------------------------------------------------------------------------------------
# the driver
# ----------------------------------------------------------------------------------------------

class GateRun:
    """One scenario: kinds = [(indexed?, [uids fed before LISTED], [uids fed after])], rounds of orchestration."""

    def __init__(self, kinds: list[dict], limit: int | None, raise_spec: dict | None = None) -> None:
        self.raise_spec = dict(raise_spec or {})
        self.when_calls: dict[str, int] = {}
        self.raising: set[str] = set()
        self.raised_uids: set[str] = set()
        self.index_returned: set[str] = set()
        self.indexed_ok: set[str] = set()
        import kopf
        from kopf._cogs.aiokits import aiotoggles
        from kopf._cogs.clients import watching
        from kopf._cogs.configs import configuration
        from kopf._cogs.structs import ephemera, references
        from kopf._core.actions import lifecycles
        from kopf._core.engines import indexing
        from kopf._core.intents import registries
        from kopf._core.reactor import inventory, orchestration, processing, queueing
        self.mods = dict(watching=watching, processing=processing, queueing=queueing, indexing=indexing,
                         orchestration=orchestration)
        self.kinds = kinds
        self.limit = limit
        self.labels: list[str] = []
        self.events: list[tuple] = []           # monitor-side log: ('pass', k, uid), ('indexfn', k, uid), ...
        self.uids: list[str] = []
        self.resources = [references.Resource('kopf.dev', 'v1', f'kind{i}s', kind=f'Kind{i}', namespaced=True)
                          for i in range(len(kinds))]
        self.rnum = {r: i for i, r in enumerate(self.resources)}
        self.registry = registries.OperatorRegistry()
        for i, k in enumerate(kinds):
            if k['indexed']:
                self._index_fn(kopf, i)
        self.settings = configuration.OperatorSettings()
        self.settings.queueing.worker_limit = limit
        self.settings.queueing.idle_timeout = 2.0
        self.settings.queueing.exit_timeout = 1.0
        self.indexers = indexing.OperatorIndexers()
        self.indexers.ensure(self.registry._indexing.get_all_handlers())
        self.loop = vloop.new_loop()
        self.feeds: dict[int, asyncio.Queue] = {}
        self.consumed: dict[int, int] = {}      # kind -> number of items the watcher has finished handling
        self.toggle_label: dict[int, tuple] = {}
        self.worker_info: dict[str, tuple] = {}
        self.streams: dict[int, dict] = {}
        self.coros: list = []
        self.saved: list[tuple] = []
        self.ts = aiotoggles.ToggleSet(all)
        self.ensemble = orchestration.Ensemble(operator_indexed=self.ts, operator_paused=aiotoggles.ToggleSet(any),
                                               peering_missing=aiotoggles.Toggle())
        self.memories = inventory.ResourceMemories()
        self.real_processor = functools.partial(
            processing.process_resource_event, lifecycle=lifecycles.all_at_once, registry=self.registry,
            settings=self.settings, memories=self.memories, memobase=ephemera.Memo(), indexers=self.indexers,
            event_queue=asyncio.Queue())
        self._install()

    # ---- object numbering
    def onum(self, uid: str) -> int:
        if uid not in self.uids:
            self.uids.append(uid)
        return self.uids.index(uid)

    def _when(self, uid: str, **_: Any) -> bool:
        mode = self.raise_spec.get(uid)
        if mode is not None:
            self.when_calls[uid] = self.when_calls.get(uid, 0) + 1
            if mode == 'always' or self.when_calls[uid] == 1:
                self.events.append(('filter-raised', uid, uid not in self.indexed_ok))
                self.raised_uids.add(uid)
                raise ValueError('scripted failure of a when= callback of an index handler')
        return True

    def _index_fn(self, kopf: Any, i: int) -> None:
        @kopf.index(f'kind{i}s', id=f'idx{i}', registry=self.registry, when=self._when)
        async def fn(uid: str, **_: Any) -> Any:
            self.events.append(('indexfn', i, uid))
            return {'all': uid}

    # ---- observation points (module attributes / instance attributes; nothing in /repo changes)
    def _patch(self, obj: Any, name: str, new: Any) -> None:
        if not hasattr(obj, name):
            raise RuntimeError(f'observation point missing: {obj!r}.{name}')
        self.saved.append((obj, name, getattr(obj, name), name in getattr(obj, '__dict__', {})))
        setattr(obj, name, new)

    def _install(self) -> None:
        m = self.mods
        run = self

        async def fake_infinite_watch(*, settings: Any, resource: Any, namespace: Any, operator_paused: Any = None) -> Any:
            k = run.rnum[resource]
            q = run.feeds.setdefault(k, asyncio.Queue())
            while True:
                item = await q.get()
                yield item
                run.consumed[k] = run.consumed.get(k, 0) + 1
        self._patch(m['watching'], 'infinite_watch', fake_infinite_watch)

        async def stub_causes(**kw: Any) -> Any:
            uid = kw['body']['metadata']['uid']
            k = run.rnum[kw['resource']]
            run.labels.append(f'Pass {cq.cnat(run.onum(uid))}')
            run.events.append(('pass', k, uid))
            return [], False
        self._patch(m['processing'], 'process_resource_causes', stub_causes)

        real_index_resource = m['indexing'].index_resource

        async def index_resource(**kw: Any) -> Any:
            uid = kw['body']['metadata']['uid']
            tg, _ = run.worker_info.get(uid, (False, False))
            try:
                res = await real_index_resource(**kw)
            except Exception:
                # with a toggle: the label is emitted when the `finally` of process_resource_event drops it
                if tg:
                    run.raising.add(uid)
                else:
                    run.labels.append(f'IndexRaised {cq.cnat(run.onum(uid))}')
                raise
            run.indexed_ok.add(uid)
            run.index_returned.add(uid)
            if not tg:
                run.labels.append(f'Indexed {cq.cnat(run.onum(uid))}')
            return res
        self._patch(m['indexing'], 'index_resource', index_resource)

        real_worker = m['queueing'].worker

        def worker(**kw: Any) -> Any:
            resource, uid = kw['key']
            o = run.onum(uid)
            run.indexed_ok.discard(uid)
            tg, gt = kw.get('resource_indexed') is not None, kw.get('operator_indexed') is not None
            run.worker_info[uid] = (tg, gt)
            run.streams[run.rnum[resource]] = kw['streams']
            if tg:
                run.toggle_label[id(kw['resource_indexed'])] = ('Indexed', o, uid)
            run.labels.append(f'Spawn {cq.cnat(run.rnum[resource])} {cq.cnat(o)} {cq.cbool(tg)} {cq.cbool(gt)}')

            async def wrapped() -> None:
                run.labels.append(f'Start {cq.cnat(o)}')
                done = False
                try:
                    await real_worker(**kw)
                    done = True
                finally:
                    if done:
                        run.labels.append(f'Retire {cq.cnat(o)}')
            c = wrapped()
            run.coros.append(c)
            return c
        self._patch(m['queueing'], 'worker', worker)

        real_watcher = m['queueing'].watcher

        def watcher(**kw: Any) -> Any:
            r = run.rnum[kw['resource']]
            ix = kw.get('resource_indexed') is not None
            if ix:
                run.toggle_label[id(kw['resource_indexed'])] = ('Listed', r)
            run.labels.append(f'MakeRes {cq.cnat(r)} {cq.cbool(ix)}')
            return real_watcher(**kw)
        self._patch(m['queueing'], 'watcher', watcher)

        ts = self.ts
        real_make, real_drop, real_is_on = ts.make_toggle, ts.drop_toggle, ts.is_on

        async def make_toggle(*a: Any, **kw: Any) -> Any:
            t = await real_make(*a, **kw)
            name = kw.get('name') or ''
            if name == 'orchestration blocker':
                run.toggle_label[id(t)] = ('DropBlocker',)
                run.labels.append('MakeBlocker')
            else:
                caller = sys._getframe(1)
                if caller.f_code.co_name == 'watcher':
                    resource, uid = caller.f_locals['key']
                    run.labels.append(f'SeenMake {cq.cnat(run.rnum[resource])} {cq.cnat(run.onum(uid))}')
            run._keep = getattr(run, '_keep', []) + [t]      # ids stay unique
            return t

        async def drop_toggle(toggle: Any) -> Any:
            res = await real_drop(toggle)
            lab = run.toggle_label.get(id(toggle))
            if lab is None:
                raise RuntimeError('observation point missing: unknown toggle dropped')
            if lab[0] == 'Indexed':
                name = 'IndexRaised' if lab[2] in run.raising else 'Indexed'
                run.raising.discard(lab[2])
                run.labels.append(f'{name} {cq.cnat(lab[1])}')
            else:
                run.labels.append(' '.join([lab[0]] + [cq.cnat(x) for x in lab[1:]]))
            return res

        def is_on() -> bool:
            v = real_is_on()
            caller = sys._getframe(1)
            if caller.f_code.co_name == 'watcher':
                resource, uid = caller.f_locals['key']
                run.labels.append(f'SeenCheck {cq.cnat(run.rnum[resource])} {cq.cnat(run.onum(uid))} {cq.cbool(v)}')
            return v
        self._patch(ts, 'make_toggle', make_toggle)
        self._patch(ts, 'drop_toggle', drop_toggle)
        self._patch(ts, 'is_on', is_on)

    def uninstall(self) -> None:
        for obj, name, old, own in reversed(self.saved):
            if own or inspect.ismodule(obj):
                setattr(obj, name, old)
            else:
                delattr(obj, name)
        self.saved = []

    # ---- actions of the explorer
    def orchestrate(self, which: list[int]) -> None:
        """One round of the real spawn_missing_watchers for the kinds in `which` (plus those already running)."""
        orch = self.mods['orchestration']
        with vloop.running(self.loop):
            self.loop.spawn(orch.spawn_missing_watchers(
                processor=self.real_processor, settings=self.settings,
                indexed_resources={self.resources[i] for i, k in enumerate(self.kinds) if k['indexed']},
                watched_resources=[self.resources[i] for i in which], watched_namespaces=[None], ensemble=self.ensemble))
            self.loop.settle()

    def feed(self, k: int, item: Any, settle: bool = True) -> None:
        from kopf._cogs.clients import watching
        if item == 'LISTED':
            raw: Any = watching.Bookmark.LISTED
        else:
            etype, uid = item
            raw = {'type': etype, 'object': {'apiVersion': 'kopf.dev/v1', 'kind': f'Kind{k}',
                                             'metadata': {'namespace': 'ns', 'name': uid, 'uid': uid, 'resourceVersion': '1'},
                                             'spec': {}}}
        with vloop.running(self.loop):
            self.feeds.setdefault(k, asyncio.Queue()).put_nowait(raw)
            if settle:
                self.loop.settle()

    def idle(self, seconds: float) -> None:
        with vloop.running(self.loop):
            self.loop.run_for(seconds)

    def close(self) -> None:
        import warnings
        warnings.filterwarnings('ignore', message='coroutine .* was never awaited')
        try:
            with vloop.running(self.loop):
                for t in list(self.ensemble.watcher_tasks.values()):
                    t.cancel()
            n = len(self.labels)
            vloop.close_loop(self.loop)
            for c in self.coros:
                try:
                    c.close()          # pending coroutines of a deadlocked scheduler were never started
                except Exception:
                    pass
            del self.labels[n:]
        finally:
            self.uninstall()


def c_limit(limit: int | None) -> str:
    return 'None' if limit is None else f'(Some {cq.cnat(limit)})'


# ----------------------------------------------------------------------------------------------
# scenarios
# ----------------------------------------------------------------------------------------------

def run_scenario(ctx: fw.Ctx, sc: dict, cases: list[fw.Case]) -> None:
    """sc = {kinds: [{indexed, early: [uids], late: [uids]}], limit, order: [kind index per feeding step],
             rounds: [[kinds of round 1], [added in round 2], ...], round2_at: step index, settle: [bool per step]}"""
    kinds, limit = sc['kinds'], sc['limit']
    g = GateRun(kinds, limit, sc.get('raise'))
    try:
        scripts = {i: [(None, u) for u in k['early']] + ['LISTED'] + [('ADDED', u) for u in k['late']] for i, k in enumerate(kinds)}
        rounds = sc.get('rounds') or [list(range(len(kinds)))]
        g.orchestrate(rounds[0])
        started = set(rounds[0])
        fed_listed: set[int] = set()
        fed: list[tuple] = []
        pos = {i: 0 for i in scripts}
        first_round = set(rounds[0])
        violations: list[str] = []
        npass_seen = 0
        for step, k in enumerate(sc['order']):
            if len(rounds) > 1 and step == sc.get('round2_at', 10 ** 9):
                g.orchestrate(sorted(started | set(rounds[1])))
                started |= set(rounds[1])
            if k not in started or pos[k] >= len(scripts[k]):
                continue
            item = scripts[k][pos[k]]
            pos[k] += 1
            fed.append((k, item))
            if item == 'LISTED':
                fed_listed.add(k)
            settle = sc.get('settle', [True] * len(sc['order']))[step]
            g.feed(k, item, settle=settle)
            npass_seen = check_passes(g, kinds, first_round, npass_seen, violations)
        g.idle(0.5)
        npass_seen = check_passes(g, kinds, first_round, npass_seen, violations)
        for k, uid in sc.get('again', []):          # later events of objects already seen (after their workers idled out)
            g.idle(15)
            g.feed(k, ('MODIFIED', uid))
            fed.append((k, ('MODIFIED', uid)))
        # everything fed; let idle workers retire and see whether the gate ever opens
        all_fed = all(pos[k] >= len(scripts[k]) for k in started)
        g.idle(20)
        npass_seen = check_passes(g, kinds, first_round, npass_seen, violations)
        labels = list(g.labels)
        real_on = g.ts.is_on()
        passed = {(e[1], e[2]) for e in g.events if e[0] == 'pass'}
        fed_objs = {(k, it[1]) for k, it in fed if it != 'LISTED'}
        data = {'kinds': kinds, 'limit': limit, 'order': sc['order'], 'rounds': rounds, 'round2_at': sc.get('round2_at'),
                'settle': sc.get('settle'), 'raise': sc.get('raise'), 'again': sc.get('again'), 'labels': labels}
        # ---- T: the acceptor
        tr = cq.clist(f'({x})' for x in labels)
        cases.append(fw.Case(f'opt_eqb Nat.eqb (gaccept {c_limit(limit)} ginit {tr} 0%nat) None '
                             f'&& match gfinal {c_limit(limit)} {tr} with Some (on, _) => Bool.eqb on {cq.cbool(real_on)} | None => false end',
                             data, f'(gaccept {c_limit(limit)} ginit {tr} 0%nat, gfinal {c_limit(limit)} {tr})'))
        # ---- T2: end-of-run readings of the model (quiescent, live workers, early flags, limit_ok) vs the implementation
        rs = sorted(started)
        uid_kind = {u: i for i, k in enumerate(kinds) for u in k['early'] + k['late']}
        earlies = []
        seen_spawn: set[str] = set()
        for lab in labels:
            if lab.startswith('Spawn '):
                o = int(lab.split()[2].replace('%nat', ''))
                uid = g.uids[o]
                earlies.append((o, uid not in seen_spawn and kinds[uid_kind[uid]]['indexed'] and uid in kinds[uid_kind[uid]]['early']))
                seen_spawn.add(uid)
                ctx.count('gate_early', str(earlies[-1][1]))
        live = [len(g.streams.get(r_, {})) for r_ in rs]
        judge_open = all_fed and all(k in fed_listed for k in started)
        ctx.count('gate_judged', f'judge_open={judge_open} real_on={real_on}')
        cases.append(fw.Case(
            f'gcheck {c_limit(limit)} {tr} {cq.clist(cq.cnat(x) for x in rs)} {cq.clist(cq.cnat(x) for x in range(len(g.uids)))} '
            f'{cq.clist(cq.cnat(x) for x in live)} {cq.clist(cq.cpair(cq.cnat(o), cq.cbool(e)) for o, e in earlies)} '
            f'{cq.cbool(judge_open)} {cq.cbool(real_on)}',
            {**data, 'check': 'end-of-run', 'live': live, 'earlies': earlies, 'judge_open': judge_open, 'real_on': real_on},
            f'(gearly {c_limit(limit)} ginit {tr}, match grun {c_limit(limit)} ginit {tr} with Some s => '
            f'(quiescentb s {cq.clist(cq.cnat(x) for x in range(len(g.uids)))}, map (nseen s) {cq.clist(cq.cnat(x) for x in rs)}, '
            f'limit_okb {c_limit(limit)} s {cq.clist(cq.cnat(x) for x in rs)}) | None => (false, nil, false) end)'))
        ctx.cov['traces_validated_against_impl'] += 1
        ctx.count('gate_labels', 'total', len(labels))
        for lab in labels:
            ctx.count('gate_label_kind', lab.split()[0])
        # ---- monitors
        mon = {k: v for k, v in data.items() if k != 'labels'}
        for v in violations:
            ctx.fail('handlers could start before every indexed kind was listed and indexed once', mon, observed=v, sig='gate-early-pass')
        n_early = {i: len([1 for lab in labels if lab.startswith(f'Spawn {cq.cnat(i)} ') and lab.split()[3] == 'true'])
                   for i in range(len(kinds))}     # objects of the kind that were first seen before readiness (toggle made)
        # objects whose every index_resource call raised legitimately never reach process_resource_causes
        must_pass = {(k, u) for k, u in fed_objs if u in g.index_returned or u not in g.raised_uids}
        if all_fed and all(k in fed_listed for k in started) and must_pass - passed:
            ctx.fail('the readiness gate never opens: objects were indexed but no handler-side processing ever starts',
                     {**mon, 'n_first_seen': {str(i): n for i, n in n_early.items()},
                      'filter_raised_in_initial_indexing': sorted({u for e, u, first in g.events if e == 'filter-raised' and first})},
                     observed={'never_passed': sorted(map(list, must_pass - passed)), 'toggles_left': len(g.ts)}, sig='gate-never-opens')
            ctx.count('gate_outcome', 'never-opens')
        elif all_fed:
            ctx.count('gate_outcome', 'opens')
        if len(started) >= 2 and any(kinds[i]['early'] for i in started):
            ctx.nontriv(['gate', mon])
            ctx.sample({'gate': {'kinds': kinds, 'limit': limit, 'order': sc['order'], 'n_labels': len(labels)}}, limit=5)
    finally:
        g.close()


def check_passes(g: GateRun, kinds: list[dict], first_round: set[int], seen: int, violations: list[str]) -> int:
    """The property, read directly: when the stub for process_resource_causes is reached for any object, every indexed
    kind of the start-up round has had its LISTED handled by its watcher, and every object of such a kind fed before
    LISTED has been through its index function."""
    passes = [e for e in g.events if e[0] == 'pass']
    if len(passes) > seen:
        indexed_uids = {e[2] for e in g.events if e[0] == 'indexfn'}
        for i in first_round:
            if not kinds[i]['indexed']:
                continue
            n_before_listed = len(kinds[i]['early']) + 1
            if g.consumed.get(i, 0) < n_before_listed:
                violations.append(f'pass of {passes[seen][1:]} while kind {i} was not listed yet')
                break
            missing = [u for u in kinds[i]['early'] if u not in indexed_uids and u not in g.raised_uids]   # indexed, or its indexing raised
            if missing:
                violations.append(f'pass of {passes[seen][1:]} while {missing} of kind {i} were not indexed yet')
                break
    return len(passes)


def match_f11(f: dict) -> bool:
    """F11: worker_limit is smaller than the number of objects of ONE indexed kind first seen before readiness."""
    if f.get('sig') != 'gate-never-opens':
        return False
    c = f['case']
    limit = c.get('limit')
    if limit is None:
        return False
    return any(k['indexed'] and c['n_first_seen'].get(str(i), 0) > limit for i, k in enumerate(c['kinds']))


def interleavings(counts: list[int]) -> Any:
    """All orders in which kind i is fed counts[i] times."""
    total = sum(counts)

    def rec(rem: tuple[int, ...], acc: list[int]) -> Any:
        if len(acc) == total:
            yield list(acc)
            return
        for i, c in enumerate(rem):
            if c:
                acc.append(i)
                yield from rec(rem[:i] + (c - 1,) + rem[i + 1:], acc)
                acc.pop()
    yield from rec(tuple(counts), [])


def mk_kinds(spec: list[tuple[bool, int, int]]) -> list[dict]:
    return [{'indexed': ix, 'early': [f'k{i}e{j}' for j in range(ne)], 'late': [f'k{i}l{j}' for j in range(nl)]}
            for i, (ix, ne, nl) in enumerate(spec)]


CORPUS = [
    # F11 witnesses: worker_limit below the number of pre-existing objects of an indexed kind
    {'kinds': mk_kinds([(True, 3, 0)]), 'limit': 2, 'order': [0, 0, 0, 0]},
    {'kinds': mk_kinds([(True, 2, 0), (True, 1, 0)]), 'limit': 1, 'order': [0, 1, 0, 1, 0]},
    # the same with enough slots, and without a limit: must open
    {'kinds': mk_kinds([(True, 3, 0)]), 'limit': 3, 'order': [0, 0, 0, 0]},
    {'kinds': mk_kinds([(True, 3, 1)]), 'limit': None, 'order': [0, 0, 0, 0, 0]},
    # a non-indexed kind next to an indexed one; a second orchestration round while the first is still listing
    {'kinds': mk_kinds([(True, 2, 1), (False, 2, 1)]), 'limit': None, 'order': [1, 1, 0, 1, 0, 0, 1, 0]},
    {'kinds': mk_kinds([(True, 1, 1), (True, 1, 1)]), 'limit': None, 'order': [0, 0, 1, 0, 1, 1], 'rounds': [[0], [1]], 'round2_at': 2},
    {'kinds': mk_kinds([(True, 1, 2), (True, 1, 0)]), 'limit': None, 'order': [0, 0, 0, 1, 0, 1], 'rounds': [[0], [1]], 'round2_at': 3},
    # F1702 (fixed by c050920) regression cases: the when= callback of the index handler raises for one of two pre-existing
    # objects — always, or only on its first call; the gate must open for the other object (and for the later event)
    {'kinds': mk_kinds([(True, 2, 0)]), 'limit': None, 'order': [0, 0, 0], 'raise': {'k0e1': 'always'}},
    {'kinds': mk_kinds([(True, 2, 0)]), 'limit': None, 'order': [0, 0, 0], 'raise': {'k0e1': 'first'}, 'again': [(0, 'k0e1')]},
]


def _guard(ctx: fw.Ctx, fn: Any, *args: Any) -> None:
    import traceback
    try:
        fn(*args)
    except Exception:
        ctx.count('harness_errors', 'gate-scenario')
        if not getattr(ctx, '_c17_gate_err', False):
            ctx._c17_gate_err = True          # type: ignore[attr-defined]
            ctx.correspondence_break('harness:gate-scenario', {'error': traceback.format_exc()[-2500:]})


def run_gate(ctx: fw.Ctx) -> None:
    logging.disable(logging.CRITICAL)
    structural_check(ctx)
    r = ctx.rng
    cases: list[fw.Case] = []
    n = 0
    for sc in CORPUS:
        _guard(ctx, run_scenario, ctx, sc, cases)
        n += 1
    ctx.count('gate_scenarios', 'corpus', n)
    # bounded-exhaustive: every interleaving of the initial listings of two kinds with <= 2 pre-existing objects each
    n = 0
    for ix0, ix1 in ((True, True), (True, False)):
        for n0 in range(0, 3):
            for n1 in range(0, 3):
                if not ctx.thorough and (n0, n1) in ((2, 2),) and not ix1:
                    continue
                kinds = mk_kinds([(ix0, n0, 1), (ix1, n1, 0)])
                for order in interleavings([n0 + 2, n1 + 1]):
                    for limit in ((None, 2) if not ctx.thorough else (None, 1, 2, 3)):
                        if limit is not None and limit < max(n0 if ix0 else 0, n1 if ix1 else 0):
                            continue            # F11 region: covered by the corpus and the random part
                        _guard(ctx, run_scenario, ctx, {'kinds': kinds, 'limit': limit, 'order': order}, cases)
                        n += 1
    ctx.count('gate_scenarios', 'exhaustive-2-kinds', n)
    # random: three kinds, partial settling (several items arrive before the loop runs), limits, second rounds
    for _ in range(ctx.scale(150, 2000)):
        nk = r.choice([2, 3, 3])
        spec = [(r.random() < 0.75, r.choice([0, 1, 2, 3]), r.choice([0, 1, 2])) for _ in range(nk)]
        kinds = mk_kinds(spec)
        order = [i for i, (ix, ne, nl) in enumerate(spec) for _ in range(ne + 1 + nl)]
        r.shuffle(order)
        sc: dict = {'kinds': kinds, 'limit': r.choice([None, None, 1, 2, 3, 4]), 'order': order,
                    'settle': [r.random() < 0.6 for _ in order]}
        if nk == 3 and r.random() < 0.3:
            sc['rounds'] = [[0, 1], [2]]
            sc['round2_at'] = r.randrange(len(order))
        _guard(ctx, run_scenario, ctx, sc, cases)
    ctx.count('gate_scenarios', 'random', ctx.scale(150, 2000))
    ctx.differential('gate_trace', GHEADER, cases, shard=60)
