"""C07 — change handlers never run on a view older than the operator's own last write (DESIGN.md §8 C07).

Layers:
  proofs    Props/C07.v (barrier for every sequence of processed events; gate facts; worker-side facts)
  D-tie     the gate of the REAL processing.process_resource_causes, driven with stubs for everything
            around it, exhaustively over (cause, GONE, finalizer situation, consistency_time vs now,
            carried patch, low-level additions, pressure timing) against Model/Consistency.v:gate_case
  T-tie     the REAL queueing.worker (driven like in C01 by kv.queue_drv, with rv-carrying events and a
            processor returning patched versions): every consistency_time it passes to the processor and
            every wait_for timeout must be what Model/Consistency.v:obs_ok computes
  monitors  (i) worker level: while an own patch is outstanding and younger than the timeout, the worker
            must announce a barrier (consistency_time >= patch time + timeout) to the processor;
            (ii) closed loop: real kopf.operator() against the in-process fake API with a lagging watch
            stream: view rv of every change-handler call vs. the PATCH responses of the same operator;
            raw-event handlers must be called at the delivery instant of every event.
"""
from __future__ import annotations

import asyncio
import collections
import concurrent.futures
import hashlib
import itertools
import random
import types
from typing import Any

from kv import awaits, coqio as cq, framework as fw, queue_drv as qd, vloop

RULE = ('gate: exhaustive product (no sampling) of cause in {none, not prematched, present} x GONE x must_block x blocked x '
        'deletion ongoing x consistency_time in {None, 0, now-3/8, now, now+24/8} x carried patch x low-level additions x '
        'pressure in {never, already set, set before the deadline, set after it}; worker: explorer scenarios with echo '
        'delays below/at/above the timeout and 0-3 foreign events in between + random ones; closed loop: watch lag x '
        'foreign edits x API latency; non-trivial iff >= 1 PATCH by the worker (a returned version) and >= 1 event '
        'dequeued before its echo')

HEADER = ('From Coq Require Import List ZArith String Bool.\nFrom KV Require Import Base.Harness Model.Consistency.\n'
          'Import ListNotations.\nOpen Scope Z_scope.\n')

T8 = 24          # consistency timeout in eighths (3.0 s)
IDLE8 = 40       # idle timeout in eighths (5.0 s)


def e8(t: float) -> int:
    x = t * 8
    if abs(x - round(x)) > 1e-9:
        raise cq.Unencodable(f'time {t} is not a multiple of 1/8')
    return int(round(x))


def copt_z(x: int | None) -> str:
    return 'None' if x is None else f'(Some {cq.cZ(x)})'


def copt_s(x: str | None) -> str:
    return 'None' if x is None else f'(Some {cq.cstr(x)})'


# ----------------------------------------------------------------------------------------------
# D-tie: the gate of the real process_resource_causes
# ----------------------------------------------------------------------------------------------
NOW8 = 80


def gate_cases() -> list[dict]:
    out = []
    for cause, gone, must, blocked, ongoing, ct, pie, low, press in itertools.product(
            ('none', 'nomatch', 'present'), (False, True), (False, True), (False, True), (False, True),
            (None, 0, NOW8 - 3, NOW8, NOW8 + 24), (True, False), (False, True),
            (None, NOW8 - 8, NOW8 + 12, NOW8 + 40)):
        if cause != 'present' and gone:
            continue
        for sp in (None, [4], [16, 200]):      # re-check delays of daemons/timers being stopped (eighths); None: nothing to spawn/stop
            if sp is not None and (cause != 'present' or must or low):
                continue                        # keep the product small: the delays matter where the gate can wait
            out.append(dict(cause=cause, gone=gone, must=must, blocked=blocked, ongoing=ongoing, ct=ct, pie=pie, low=low, press=press, sp=sp))
    return out


def run_gate_case(c: dict) -> dict:
    """Run the real process_resource_causes on one configuration; returns what was observed."""
    from kopf._cogs.aiokits import aiotime
    from kopf._cogs.configs import configuration
    from kopf._cogs.structs import bodies, patches
    from kopf._core.intents import causes
    from kopf._core.reactor import processing

    for name in ('_detect_causes', '_Causes', 'process_watching_cause', 'process_changing_cause', 'process_spawning_cause',
                 'process_resource_causes', 'aiotime'):
        if not hasattr(processing, name):
            raise qd.ObservationMissing(f'processing.{name}')
    settings = configuration.OperatorSettings()
    finalizer = settings.persistence.finalizer
    md: dict[str, Any] = {'name': 'x', 'namespace': 'ns', 'uid': 'u0', 'resourceVersion': '5'}
    if c['blocked']:
        md['finalizers'] = [finalizer]
    if c['ongoing']:
        md['deletionTimestamp'] = '2030-01-01T00:00:00Z'
    raw_body = {'apiVersion': 'kv.test/v1', 'kind': 'Thing', 'metadata': md, 'spec': {}}
    body = bodies.Body(raw_body)
    patch = patches.Patch({} if c['pie'] else {'status': {'carried': 1}})
    obs: dict[str, Any] = {'low_at': None, 'changing_at': None, 'slept': False, 'sleep_args': None}
    loop = vloop.new_loop(start=NOW8 / 8)
    reason = causes.Reason.GONE if c['gone'] else causes.Reason.UPDATE
    changing = types.SimpleNamespace(reason=reason, patch=patch, body=body) if c['cause'] != 'none' else None
    watching = types.SimpleNamespace(patch=patch, body=body)

    spawning = types.SimpleNamespace(patch=patch, body=body) if c.get('sp') is not None else None

    def detect(**kw: Any) -> Any:
        return processing._Causes(watching, spawning, changing)

    async def spawning_stub(**kw: Any) -> list:
        obs['spawn_at'] = loop.time()
        return [d / 8 for d in c['sp']]

    async def watching_stub(**kw: Any) -> None:
        obs['low_at'] = loop.time()
        if c['low']:
            patch.setdefault('status', {})['by_event_handler'] = 1

    async def changing_stub(**kw: Any) -> list:
        obs['changing_at'] = loop.time()
        return []

    real_sleep = aiotime.sleep

    async def sleep_spy(delays: Any, wakeup: Any = None) -> Any:
        obs['slept'] = True
        obs['sleep_args'] = (delays, wakeup is pressure)
        return await real_sleep(delays, wakeup=wakeup)

    registry = types.SimpleNamespace(
        _changing=types.SimpleNamespace(prematch=lambda cause: c['cause'] == 'present',
                                        requires_finalizer=lambda cause: c['must']),
        _spawning=types.SimpleNamespace(requires_finalizer=lambda **kw: False))
    logger = types.SimpleNamespace(debug=lambda *a, **k: None, info=lambda *a, **k: None, warning=lambda *a, **k: None)
    memory = types.SimpleNamespace(daemons_memory=types.SimpleNamespace(forever_stopped=set()))
    saved = [(processing, '_detect_causes', processing._detect_causes),
             (processing, 'process_watching_cause', processing.process_watching_cause),
             (processing, 'process_changing_cause', processing.process_changing_cause),
             (processing, 'process_spawning_cause', processing.process_spawning_cause),
             (aiotime, 'sleep', aiotime.sleep)]
    processing.process_spawning_cause = spawning_stub
    processing._detect_causes = detect
    processing.process_watching_cause = watching_stub
    processing.process_changing_cause = changing_stub
    aiotime.sleep = sleep_spy
    try:
        with vloop.running(loop):
            pressure = asyncio.Event()
            if c['press'] is not None:
                if c['press'] <= NOW8:
                    pressure.set()
                else:
                    loop.call_at(c['press'] / 8, pressure.set)
            ctime = None if c['ct'] is None else c['ct'] / 8
            done_at: list[float] = []
            task = loop.spawn(processing.process_resource_causes(
                lifecycle=None, indexers=types.SimpleNamespace(indices=None), registry=registry, settings=settings,
                resource=None, raw_event={'type': 'MODIFIED', 'object': raw_body}, body=body, patch=patch, memory=memory,
                local_logger=logger, event_logger=logger, stream_pressure=pressure, operator_paused=None,
                consistency_time=ctime))
            task.add_done_callback(lambda t: done_at.append(loop.time()))
            loop.run_until(task.done, NOW8 / 8 + 100)
            if not task.done():
                obs['error'] = 'did not finish'
            elif task.exception() is not None:
                obs['error'] = repr(task.exception())
            else:
                delays, matched = task.result()
                obs.update(until=done_at[0], matched=bool(matched), delays=list(delays), nfns=len(patch.fns))
    finally:
        for o, n, v in saved:
            setattr(o, n, v)
        vloop.close_loop(loop)
    return obs


def gate_term(c: dict, obs: dict) -> tuple[str, str]:
    has_cause = c['cause'] == 'present'
    must_eff = has_cause and c['must']
    args = (f"{cq.cbool(has_cause)} {cq.cbool(c['gone'])} {cq.cbool(must_eff)} {cq.cbool(c['blocked'])} {cq.cbool(c['ongoing'])} "
            f"{copt_z(c['ct'])} {cq.cbool(c['pie'])} {cq.cbool(c['low'])} {cq.cZ(NOW8)} {copt_z(c['press'])}")
    exp = (f"({cq.cbool(obs['slept'])}, {cq.cZ(e8(obs['until']))}, {cq.cbool(obs['changing_at'] is not None)}, "
           f"{cq.cbool(obs['matched'])}, {cq.cnat(obs['nfns'])})")
    low = f"Z.eqb (gate_case_low {cq.cZ(NOW8)} {copt_z(c['ct'])} {copt_z(c['press'])}) {cq.cZ(e8(obs['low_at']))}"
    sp = cq.clist(cq.cZ(d) for d in (c.get('sp') or []))
    return (f'gate_obs_eqb (gate_case_sp {sp} {args}) {exp} && {low}',
            f'(gate_case_sp {sp} {args}, gate_case_low {cq.cZ(NOW8)} {copt_z(c["ct"])} {copt_z(c["press"])})')


def gate_monitor(c: dict, obs: dict, fail: Any) -> None:
    """The property on one gate run: handlers must not run while the barrier is up; the low-level part is not delayed."""
    if obs.get('low_at') is not None and abs(obs['low_at'] - NOW8 / 8) > 1e-9:
        fail('raw-event handlers were delayed', 'low-level-delayed', observed=obs['low_at'], expected=NOW8 / 8)
    ran = obs.get('changing_at')
    if ran is not None and not c['gone'] and c['ct'] not in (None,):
        # consistency_time = patch time + timeout; handlers may run only at/after it
        if ran * 8 < c['ct'] - 1e-9:
            fail('change handlers ran before the consistency deadline while the patched version had not arrived',
                 'stale-view', observed={'ran_at': ran, 'deadline': c['ct'] / 8})
    if ran is not None and not c['pie'] and not c['gone']:
        fail('change handlers ran although a patch carried over from the previous cycle was pending', 'ran-with-pending-patch',
             observed={'ran_at': ran})


# ----------------------------------------------------------------------------------------------
# D-tie: application.apply() — which resourceVersion is reported as the operator's last write
# ----------------------------------------------------------------------------------------------
def apply_cases() -> list[dict]:
    out = []
    for patch, delays, press, r1, r2 in itertools.product(
            ('empty', 'content', 'fns'), (None, [0], [-8], [4], [16, 4], [16], [4808]),
            ('never', 'already', 'during'), (True, False), (True, False)):
        out.append(dict(patch=patch, delays=delays, press=press, r1=r1, r2=r2))
    return out


def run_apply_case(c: dict) -> dict:
    from kopf._cogs.aiokits import aiotime
    from kopf._cogs.clients import patching
    from kopf._cogs.configs import configuration
    from kopf._cogs.structs import bodies, patches
    from kopf._core.actions import application
    for name in ('apply', 'patch_and_check', 'patching', 'aiotime'):
        if not hasattr(application, name):
            raise qd.ObservationMissing(f'application.{name}')
    settings = configuration.OperatorSettings()
    raw_body = {'apiVersion': 'kv.test/v1', 'kind': 'Thing', 'metadata': {'name': 'x', 'namespace': 'ns', 'uid': 'u0', 'resourceVersion': '5'}}
    body = bodies.Body(raw_body)
    patch = patches.Patch({'status': {'x': 1}} if c['patch'] == 'content' else {},
                          fns=[lambda b: None] if c['patch'] == 'fns' else [])
    obs: dict[str, Any] = {'requests': [], 'sleep': None}
    loop = vloop.new_loop(start=NOW8 / 8)
    responses = ['31' if c['r1'] else None, '32' if c['r2'] else None]
    if c['patch'] == 'empty':
        responses = responses[1:]

    async def fake_patch_obj(**kw: Any) -> Any:
        n = len(obs['requests'])
        obs['requests'].append({'t': loop.time(), 'touch': 'touch-dummy' in repr(dict(kw['patch']))})
        r = responses[n] if n < len(responses) else '39'
        return ({'metadata': {'resourceVersion': r}} if r is not None else None), None

    real_sleep = aiotime.sleep

    async def sleep_spy(delays: Any, wakeup: Any = None) -> Any:
        obs['sleep'] = delays
        return await real_sleep(delays, wakeup=wakeup)

    saved = [(patching, 'patch_obj', patching.patch_obj), (aiotime, 'sleep', aiotime.sleep)]
    patching.patch_obj = fake_patch_obj
    aiotime.sleep = sleep_spy
    logger = types.SimpleNamespace(debug=lambda *a, **k: None, info=lambda *a, **k: None, warning=lambda *a, **k: None)
    try:
        with vloop.running(loop):
            pressure = asyncio.Event()
            if c['press'] == 'already':
                pressure.set()
            elif c['press'] == 'during':
                loop.call_at((NOW8 + 2) / 8, pressure.set)
            task = loop.spawn(application.apply(
                settings=settings, resource=None, body=body, patch=patch,
                delays=[] if c['delays'] is None else [d / 8 for d in c['delays']], logger=logger, stream_pressure=pressure))
            loop.run_until(task.done, NOW8 / 8 + 2000)
            if not task.done():
                obs['error'] = 'did not finish'
            elif task.exception() is not None:
                obs['error'] = repr(task.exception())
            else:
                applied, rv, _remaining = task.result()
                obs.update(applied=bool(applied), rv=rv)
    finally:
        for o, n, v in saved:
            setattr(o, n, v)
        vloop.close_loop(loop)
    return obs


def apply_term(c: dict, obs: dict) -> tuple[str, str]:
    delay = None if c['delays'] is None else min(c['delays'])
    # interrupted iff the sleep is entered and the pressure is (or gets) set before it ends — from the set-up, not observed
    interrupted = c['press'] == 'already' or (c['press'] == 'during')
    r1 = '31' if c['r1'] else None
    r2 = '32' if c['r2'] else None
    a = f"(mkA {cq.cbool(c['patch'] != 'empty')} {copt_z(delay)} {cq.cbool(interrupted)} {copt_s(r1)} {copt_s(r2)})"
    slept = None if obs['sleep'] is None else e8(obs['sleep'])
    exp = f"({copt_s(obs['rv'])}, {cq.cnat(len(obs['requests']))}, {cq.cbool(obs['applied'])}, {copt_z(slept)})"
    return f'apply_obs_eqb (apply_case {a}) {exp}', f'apply_case {a}'


def apply_monitor(c: dict, obs: dict, fail: Any) -> None:
    """Whatever was sent last is what the worker must be told to wait for."""
    sent = obs['requests']
    responses = (['31' if c['r1'] else None] if c['patch'] != 'empty' else []) + ['32' if c['r2'] else None]
    if sent:
        want = responses[len(sent) - 1]
        if obs['rv'] != want:
            fail("apply() sent a PATCH but does not report the resourceVersion of its last response: the worker cannot "
                 "wait for the operator's own last write", 'last-write-not-reported',
                 observed={'requests': len(sent), 'last_is_touch': sent[-1]['touch'], 'reported': obs['rv']}, expected=want)
    elif obs['rv'] is not None:
        fail('apply() reports a resourceVersion although nothing was sent', 'phantom-write', observed=obs['rv'])


# ----------------------------------------------------------------------------------------------
# T-tie + worker-level monitor: the real worker under the C01 driver
# ----------------------------------------------------------------------------------------------
def worker_scenarios(r: random.Random, nrandom: int) -> list[tuple[dict, list[tuple], str]]:
    """(config, actions, family).  Action ('P', u) = finish with a fresh patched version; ('E', u) = deliver the echo of
    the oldest un-echoed patch of u; ('F', u) = a foreign event.  Resolved into driver actions by `resolve`."""
    out: list[tuple[dict, list[tuple], str]] = []
    cfg = qd.Config(limit=None, indexed=False, nuids=2, idle=5.0, exit_timeout=2.0, ctimeout=3.0).as_dict()
    delays = [0, 12, 23, 24, 25, 72, None]        # eighths: 0, T/2, T-1/8, T, T+1/8, 3T, never
    for d in delays:
        for nf in range(4):
            for finish_foreign in (True, False):
                acts: list[tuple] = [('F', 0), ('S',), ('P', 0), ('S',)]
                # foreign events spread before the echo
                total = d if d is not None else 80
                for i in range(nf):
                    step = max(0, total // (nf + 1))
                    acts += [('W', step), ('S',), ('F', 0), ('S',)]
                    if finish_foreign:
                        acts += [('D', 0), ('S',)]
                if d is not None:
                    acts += [('W', max(0, total - (total // (nf + 1)) * nf)), ('S',), ('E', 0), ('S',)]
                acts += [('D', 0), ('S',), ('D', 0), ('S',), ('D', 0), ('S',), ('D', 0), ('S',)]
                out.append((cfg, acts, 'echo-product'))
    # idle_timeout below / equal / above the consistency timeout: nothing arrives for idle_timeout after the patch, then a
    # stale foreign event arrives before the echo (delayed longer than idle_timeout, shorter than the consistency timeout)
    for idle in (1.0, 2.0, 3.0, 5.0):
        for ct in (3.0, 6.0):
            for quiet8 in sorted({int(idle * 8) + 1, int(idle * 8) + 4, int(ct * 8) - 1}):
                if quiet8 <= 0:
                    continue
                c = qd.Config(limit=None, indexed=False, nuids=2, idle=idle, exit_timeout=2.0, ctimeout=ct).as_dict()
                acts = [('F', 0), ('S',), ('P', 0), ('S',), ('W', quiet8), ('S',), ('F', 0), ('S',), ('D', 0), ('S',),
                        ('W', 4), ('S',), ('E', 0), ('S',), ('D', 0), ('S',)]
                out.append((c, acts, 'idle-vs-consistency'))
    # timeout 0 disables the barrier
    cfg0 = qd.Config(limit=None, indexed=False, nuids=2, idle=5.0, exit_timeout=2.0, ctimeout=0.0).as_dict()
    out.append((cfg0, [('F', 0), ('S',), ('P', 0), ('S',), ('F', 0), ('S',), ('D', 0), ('S',)], 'disabled'))
    for _ in range(nrandom):
        n = r.randrange(6, 22)
        acts = []
        for _ in range(n):
            x = r.random()
            u = r.randrange(2)
            if x < 0.22:
                acts.append(('F', u))
            elif x < 0.40:
                acts.append(('P', u))
            elif x < 0.52:
                acts.append(('D', u))
            elif x < 0.66:
                acts.append(('E', u))
            elif x < 0.80:
                acts.append(('W', r.choice([1, 4, 8, 12, 23, 24, 25, 39, 40, 41])))
            elif x < 0.86:
                acts.append(('A',))
            elif x < 0.90:
                acts.append(('s',))
            else:
                acts.append(('S',))
            if r.random() < 0.6:
                acts.append(('S',))
        acts.append(('S',))
        c = qd.Config(limit=r.choice([None, None, 1]), indexed=False, nuids=2, idle=r.choice([5.0, 5.0, 1.0, 2.0]), exit_timeout=2.0,
                      ctimeout=r.choice([3.0, 3.0, 3.0, 1.0, 6.0])).as_dict()
        out.append((c, acts, 'random'))
    return out


def pass_time(drv: qd.Driver, eighths: int) -> None:
    """Time passes; the timers on the way fire at their own time (no jump over them)."""
    target = drv.loop.time() + eighths / 8
    drv.settle()
    while True:
        t = drv.loop.next_timer()
        if t is None or t > target:
            break
        drv.loop.advance_to(t)
        drv.settle()
    drv.loop.advance_to(target)


def run_worker_case(cfgd: dict, actions: list[tuple], walk: bool = False) -> dict:
    cfg = qd.Config.from_dict(cfgd)
    res: dict[str, Any] = {'cfg': cfgd, 'actions': [list(a) for a in actions], 'fails': [], 'breaks': [], 'terms': []}
    drv = qd.Driver(cfg)
    unechoed: dict[int, list[str]] = collections.defaultdict(list)
    nontriv = False
    try:
        with vloop.running(drv.loop):
            drv.start()
            for a in actions:
                k = a[0]
                if k == 'P':
                    drv.rv_counter += 1
                    rvp = str(drv.rv_counter)
                    if drv.act(('D', a[1], rvp)):
                        unechoed[a[1]].append(rvp)
                elif k == 'E':
                    if unechoed[a[1]]:
                        drv.act(('F', a[1], 0, unechoed[a[1]].pop(0)))
                elif k == 'W' and walk:
                    pass_time(drv, a[1])
                else:
                    drv.act(tuple(a))
            drv.finish_all()
    except qd.ObservationMissing as e:
        res['breaks'].append(f'observation point missing: {e}')
        drv.stop()
        return res
    except Exception as e:
        res['breaks'].append(f'scenario aborted: {type(e).__name__}: {e}')
        drv.stop()
        return res
    drv.stop()
    res['breaks'] += drv.breaks
    T = cfg.ctimeout
    for u, obs in sorted(drv.cons_obs.items()):
        # ---- the harness's own reading of the property at worker level
        outstanding: tuple[str, float] | None = None
        seen_before_echo = False
        for o in obs:
            if o[0] == 'get':
                _, rv, now, ct = o
                if outstanding is not None and rv == outstanding[0]:
                    outstanding = None
                if outstanding is not None:
                    seen_before_echo = True
                    if now < outstanding[1] + T - 1e-9 and (ct is None or ct < outstanding[1] + T - 1e-9):
                        res['fails'].append({'what': 'an event was handed to the processor without the consistency barrier although the '
                                                     "worker's own patch is outstanding and younger than the timeout",
                                             'sig': 'barrier-lifted-early',
                                             'observed': {'uid': u, 'event_rv': rv, 'now': now, 'consistency_time': ct},
                                             'expected': {'patched_rv': outstanding[0], 'deadline': outstanding[1] + T}})
            elif o[0] == 'end':
                _, now, newer = o
                if newer is not None and T:
                    outstanding = (newer, now)
        if seen_before_echo:
            nontriv = True
        # ---- the Coq side
        try:
            items = []
            for o in obs:
                if o[0] == 'start':
                    items.append('OStart')
                elif o[0] == 'wait':
                    items.append(f'(OWait {cq.cZ(e8(o[1]))} {cq.cZ(e8(o[2]))})')
                elif o[0] == 'get':
                    items.append(f'(OGet {copt_s(o[1])} {cq.cZ(e8(o[2]))} {copt_z(None if o[3] is None else e8(o[3]))})')
                elif o[0] == 'end':
                    items.append(f'(OEnd {cq.cZ(e8(o[1]))} {copt_s(o[2])})')
            lst = cq.clist(items)
            res['terms'].append((f'obs_ok {cq.cZ(e8(T))} {cq.cZ(e8(cfg.idle))} w0 {lst}',
                                 f'obs_bad {cq.cZ(e8(T))} {cq.cZ(e8(cfg.idle))} w0 {lst} 0%nat', u))
        except cq.Unencodable as e:
            res['breaks'].append(f'unencodable observation: {e}')
    res['nontriv'] = nontriv
    kinds = collections.Counter(o[0] for obs in drv.cons_obs.values() for o in obs)
    res['kinds'] = dict(kinds)
    res['barrier_up'] = sum(1 for obs in drv.cons_obs.values() for o in obs if o[0] == 'get' and o[3] is not None)
    res['barrier_down'] = sum(1 for obs in drv.cons_obs.values() for o in obs if o[0] == 'get' and o[3] is None)
    return res


# ----------------------------------------------------------------------------------------------
# cycle tie: the REAL worker + the REAL gate + the REAL stream_pressure, composed
# ----------------------------------------------------------------------------------------------
class CycleDriver(qd.Driver):
    """The processor given to the real watcher/worker runs the real process_resource_causes (stubs for what
    surrounds the gate, as in the D-tie), then a scripted handler outcome: whether a PATCH happens (a fresh
    resourceVersion is returned to the worker) and how long the cycle takes."""

    def __init__(self, cfg: qd.Config, script: list[tuple]) -> None:
        super().__init__(cfg)
        self.script = [tuple(x[:3]) for x in script]   # per processor call: (carried_patch, handler_patches, duration_eighths)
        self.cycle_extra = [tuple(x[3:5]) if len(x) >= 5 else (None, 0) for x in script]   # (handler delay, PATCH latency) in eighths
        self.cycle_sp = [x[5] if len(x) >= 6 else None for x in script]   # re-check delay of a daemon/timer being stopped (eighths) or None
        self.writes: dict[int, list[tuple]] = collections.defaultdict(list)     # per uid: (version, response time, is_touch)
        self.last_write_by_uid: dict[int, tuple[str, float]] = {}
        self.runs_vs_writes: dict[int, list[tuple]] = collections.defaultdict(list)
        self.misreports: list[dict] = []
        self.latency8 = 0
        self.cur_uid = 0
        self.ncall = 0
        self.steps_by_uid: dict[int, list[dict]] = collections.defaultdict(list)
        self.runs_by_uid: dict[int, list[tuple]] = collections.defaultdict(list)
        self.last_by_uid: dict[int, tuple[str, float] | None] = {}
        self.arrive_times: dict[int, list[float]] = collections.defaultdict(list)
        self.ctx_by_uid: dict[int, dict] = {}

    def on_put(self, lq: Any, item: Any) -> None:
        super().on_put(lq, item)
        if lq.role == 'backlog' and not isinstance(item, self.q.EOS):
            self.arrive_times[self.ident(item)[0]].append(self.loop.time())

    def install(self) -> None:
        super().install()
        from kopf._cogs.structs import bodies, patches
        from kopf._core.intents import causes
        from kopf._core.reactor import processing
        drv = self
        for name in ('_detect_causes', '_Causes', 'process_watching_cause', 'process_changing_cause', 'process_resource_causes'):
            if not hasattr(processing, name):
                raise qd.ObservationMissing(f'processing.{name}')
        self.processing, self.bodies, self.patches, self.causes = processing, bodies, patches, causes

        def uid_of(body: Any) -> int:
            return int(body['metadata']['uid'][1:])

        def detect(**kw: Any) -> Any:
            c = drv.ctx_by_uid[uid_of(kw['body'])]
            return processing._Causes(None, c['spawning'], c['cause'])

        async def spawning_stub(**kw: Any) -> list:
            c = drv.ctx_by_uid[uid_of(kw['cause'].body)]
            return [c['sp8'] / 8]

        async def changing_stub(**kw: Any) -> list:
            c = drv.ctx_by_uid[uid_of(kw['cause'].body)]
            c['ran_at'] = drv.loop.time()
            return []

        self._patch(processing, '_detect_causes', detect)
        self._patch(processing, 'process_changing_cause', changing_stub)
        if not hasattr(processing, 'process_spawning_cause'):
            raise qd.ObservationMissing('processing.process_spawning_cause')
        self._patch(processing, 'process_spawning_cause', spawning_stub)
        from kopf._cogs.clients import patching
        from kopf._core.actions import application
        for name in ('apply', 'patch_and_check', 'patching'):
            if not hasattr(application, name):
                raise qd.ObservationMissing(f'application.{name}')
        self.application = application

        async def fake_patch_obj(**kw: Any) -> Any:
            # the request is in flight for `latency`; the server applies it at the end (a foreign edit made meanwhile
            # gets a LOWER version); the resulting event is queued for in-order delivery like every server-side edit
            u = int(str(kw['name'])[1:])
            if drv.latency8:
                await asyncio.sleep(drv.latency8 / 8)
            drv.rv_counter += 1
            rvp = str(drv.rv_counter)
            drv.unechoed[u].append(rvp)
            drv.writes[u].append((rvp, drv.loop.time(), 'touch-dummy' in repr(dict(kw['patch']))))
            return {'metadata': {'resourceVersion': rvp}}, None

        self._patch(patching, 'patch_obj', fake_patch_obj)

    async def processor(self, *, raw_event: Any, stream_pressure: Any = None, resource_indexed: Any = None,
                        operator_indexed: Any = None, consistency_time: Any = None) -> Any:
        u, e = self.ident(raw_event)
        self.pending_get = None
        carried, handler_patches, dur8 = self.script[self.ncall % len(self.script)] if self.script else (False, False, 0)
        self.ncall += 1
        begin = self.loop.time()
        rv = self.ev_rv.get(e)
        body = self.bodies.Body(raw_event['object'])
        patch = self.patches.Patch({'status': {'carried': 1}} if carried else {})
        cause = types.SimpleNamespace(reason=self.causes.Reason.UPDATE, patch=patch, body=body)
        sp8 = self.cycle_sp[(self.ncall - 1) % len(self.cycle_sp)] if self.cycle_sp else None
        ctx = {'cause': cause, 'ran_at': None, 'sp8': sp8,
               'spawning': types.SimpleNamespace(patch=patch, body=body) if sp8 is not None else None}
        self.ctx_by_uid[u] = ctx
        pressure_at_entry = bool(stream_pressure.is_set())
        registry = types.SimpleNamespace(
            _changing=types.SimpleNamespace(prematch=lambda cause: True, requires_finalizer=lambda cause: False),
            _spawning=types.SimpleNamespace(requires_finalizer=lambda **kw: False))
        logger = types.SimpleNamespace(debug=lambda *a, **k: None, info=lambda *a, **k: None, warning=lambda *a, **k: None)
        memory = types.SimpleNamespace(daemons_memory=types.SimpleNamespace(forever_stopped=set()))
        ret_delays, _matched = await self.processing.process_resource_causes(
            lifecycle=None, indexers=types.SimpleNamespace(indices=None), registry=registry, settings=self.settings,
            resource=None, raw_event=raw_event, body=body, patch=patch, memory=memory, local_logger=logger,
            event_logger=logger, stream_pressure=stream_pressure, operator_paused=None, consistency_time=consistency_time)
        gate_left = self.loop.time()
        ran = ctx['ran_at'] is not None
        if dur8:
            await asyncio.sleep(dur8 / 8)
        # the effects of the cycle go through the REAL application.apply() -> patch_and_check() -> (fake) patch_obj():
        # a handler that "patches" adds content; a handler that is "delayed" (TemporaryError / backoff) gives a delay
        if ran and handler_patches:
            patch.setdefault('status', {})['handled'] = self.ncall
        delay8, lat8 = self.cycle_extra[(self.ncall - 1) % len(self.cycle_extra)] if self.cycle_extra else (None, 0)
        self.latency8 = lat8
        self.cur_uid = u
        nreq0 = len(self.writes[u])
        applied, reported, _ = await self.application.apply(
            settings=self.settings, resource=self.resource, body=body, patch=patch,
            delays=list(ret_delays) + ([delay8 / 8] if (ran and delay8 is not None) else []), logger=logger,
            stream_pressure=stream_pressure)
        sent = self.writes[u][nreq0:]
        patched = sent[-1][0] if sent else None          # the harness's truth: the last write observed at the fake API
        if reported != patched:
            self.misreports.append({'uid': u, 'reported': reported, 'last_write': patched, 'touch': sent[-1][2] if sent else None})
        end = self.loop.time()
        if pressure_at_entry:
            press = begin
        else:
            # arrivals of this object recorded after the entry (the watcher sets the pressure on each of them)
            later = self.arrive_times[u][self._entry_counts[u]:]
            press = later[0] if later and later[0] <= end else None
        self.steps_by_uid[u].append({'sp8': sp8, 'rv': rv, 'begin': begin, 'pie': not carried, 'press': press, 'patched': patched,
                                     'end': end, 'ct': consistency_time, 'gate_left': gate_left})
        if ran:
            self.runs_by_uid[u].append((ctx['ran_at'], rv, self.last_by_uid.get(u)))
            self.runs_vs_writes[u].append((ctx['ran_at'], rv, self.last_write_by_uid.get(u)))
        if patched is not None and self.settings.persistence.consistency_timeout:
            self.last_by_uid[u] = (patched, end)
        if sent:
            self.last_write_by_uid[u] = (sent[-1][0], sent[-1][1])     # (version, time of the response), touch included
        call = {'u': u, 'e': e, 'outcome': 'ok'}
        self.calls.append(call)
        return reported        # what the REAL apply() reports goes to the REAL worker

    _entry_counts: dict[int, int] = {}


def cycle_scenarios(r: random.Random, nrandom: int) -> list[tuple[dict, list[tuple], list[tuple]]]:
    """Actions: ('M', u) a foreign edit on the server (gets the next resourceVersion, queued for delivery);
    ('N', u) the watch stream delivers the next queued event of u — own patches are queued when the processor
    returns them, so delivery is always in version order, with arbitrary lag; ('W', eighths) time passes
    (timers fire on the way); 's'/'A'/'S' as in the driver."""
    out = []
    cfg = qd.Config(limit=None, indexed=False, nuids=2, idle=5.0, exit_timeout=2.0, ctimeout=3.0).as_dict()
    for d in (0, 12, 23, 25, 72, None):           # echo delay in eighths: 0, T/2, T-1/8, T+1/8, 3T, never
        for nf in range(4):                       # foreign events delivered between the patch and its echo
            acts: list[tuple] = [('M', 0)] * (1 + nf) + [('N', 0), ('S',)]
            total = d if d is not None else 80
            for i in range(nf):
                acts += [('W', max(1, total // (nf + 1))), ('S',), ('N', 0), ('S',)]
            if d is not None:
                acts += [('W', max(1, total - (total // (nf + 1)) * nf)), ('S',), ('N', 0), ('S',)]
            acts += [('W', 100), ('S',), ('M', 0), ('N', 0), ('S',), ('N', 0), ('S',)]
            for script in ([(False, True, 0)], [(False, True, 0), (False, False, 0)], [(False, True, 4), (True, False, 0), (False, False, 0)],
                           # a daemon/timer of the object is being stopped: re-check delays shorter than the remaining wait
                           [(False, True, 0, None, 0, None), (False, False, 0, None, 0, 4)],
                           [(False, True, 0, None, 0, 2), (False, False, 0, None, 0, 6), (False, False, 0, None, 0, 200)]):
                out.append((cfg, acts, script))
    # idle_timeout vs consistency timeout: a foreign edit made BEFORE the patch is delivered after idle_timeout of silence,
    # before the echo
    for idle in (1.0, 3.0, 5.0):
        for quiet8 in (int(idle * 8) + 1, int(idle * 8) + 6, 23):
            ci = qd.Config(limit=None, indexed=False, nuids=2, idle=idle, exit_timeout=2.0, ctimeout=3.0).as_dict()
            acts = [('M', 0), ('M', 0), ('N', 0), ('S',), ('W', quiet8), ('S',), ('N', 0), ('S',), ('W', 4), ('S',), ('N', 0), ('S',),
                    ('W', 60), ('S',)]
            out.append((ci, acts, [(False, True, 0, None, 0), (False, False, 0, None, 0)]))
    # the touch-dummy cycle: a delayed handler whose delay is slept in full, PATCH latency, a foreign edit applied and
    # delivered while the touch request is in flight, the echo of the touch delivered late (or never)
    for delay8 in (4, 8):
        for lat8 in (2, 8):
            for echo8 in (4, 23, 25, None):
                for nforeign in (1, 2):
                    acts = [('M', 0), ('N', 0), ('S',), ('W', delay8 + lat8 // 2), ('S',)]
                    acts += [('M', 0), ('N', 0), ('S',)] * nforeign
                    acts += [('W', lat8), ('S',)]
                    if echo8 is not None:
                        acts += [('W', echo8), ('S',), ('N', 0), ('S',)]
                    acts += [('W', 60), ('S',), ('N', 0), ('S',), ('N', 0), ('S',)]
                    # cycle 1: handler runs, no content, delayed -> full sleep -> touch; later cycles: plain
                    out.append((cfg, acts, [(False, False, 0, delay8, lat8), (False, False, 0, None, 0)]))
                    out.append((cfg, acts, [(False, True, 0, delay8, lat8), (False, False, 0, None, lat8)]))
    for _ in range(nrandom):
        n = r.randrange(5, 18)
        acts = []
        for _ in range(n):
            x = r.random()
            u = 0 if r.random() < 0.8 else 1
            if x < 0.25:
                acts.append(('M', u))
            elif x < 0.60:
                acts.append(('N', u))
            elif x < 0.85:
                acts.append(('W', r.choice([1, 3, 5, 9, 11, 13, 23, 25, 41, 47])))
            elif x < 0.90:
                acts.append(('s',))
            else:
                acts.append(('A',))
            if r.random() < 0.8:
                acts.append(('S',))
        acts.append(('S',))
        script = [(r.random() < 0.15, r.random() < 0.6, r.choice([0, 0, 1, 3, 7]),
                   r.choice([None, None, 0, 3, 5, 9]), r.choice([0, 0, 1, 3]), r.choice([None, None, None, 2, 5, 40]))
                  for _ in range(r.randrange(1, 6))]
        c = qd.Config(limit=None, indexed=False, nuids=2, idle=r.choice([5.0, 5.0, 1.0, 2.0]), exit_timeout=2.0,
                      ctimeout=r.choice([3.0, 3.0, 1.0, 0.0])).as_dict()
        out.append((c, acts, script))
    return out


def run_cycle_case(cfgd: dict, actions: list[tuple], script: list[tuple]) -> dict:
    cfg = qd.Config.from_dict(cfgd)
    res: dict[str, Any] = {'cfg': cfgd, 'actions': [list(a) for a in actions], 'script': [list(x) for x in script],
                           'fails': [], 'breaks': [], 'terms': [], 'nontriv': False, 'stats': collections.Counter()}
    drv = CycleDriver(cfg, script)
    drv._entry_counts = collections.defaultdict(int)
    orig_processor = drv.processor

    async def processor(**kw: Any) -> Any:
        u = drv.ident(kw['raw_event'])[0]
        drv._entry_counts[u] = len(drv.arrive_times[u])     # arrivals recorded so far (incl. the one being processed)
        return await orig_processor(**kw)
    drv.processor = processor  # type: ignore[method-assign]
    try:
        with vloop.running(drv.loop):
            drv.start()
            for a in actions:
                if a[0] == 'M':       # server-side edit: next version, queued for in-order delivery
                    drv.rv_counter += 1
                    drv.unechoed[a[1]].append(str(drv.rv_counter))
                elif a[0] == 'N':
                    drv.act(('E', a[1]))
                elif a[0] == 'W':     # time passes; timers on the way fire at their own time
                    target = drv.loop.time() + a[1] / 8
                    drv.settle()
                    while True:
                        t = drv.loop.next_timer()
                        if t is None or t > target:
                            break
                        drv.loop.advance_to(t)
                        drv.settle()
                    drv.loop.advance_to(target)
                else:
                    drv.act(tuple(a))
            drv.settle()
            # let outstanding waits finish
            for _ in range(200):
                t = drv.loop.next_timer()
                if t is None or t > drv.loop.time() + 60:
                    break
                drv.loop.advance_to(t)
                drv.settle()
    except qd.ObservationMissing as e:
        res['breaks'].append(f'observation point missing: {e}')
    except Exception as e:
        res['breaks'].append(f'scenario aborted: {type(e).__name__}: {e}')
    finally:
        drv.stop()
    T = cfg.ctimeout
    for u, steps in sorted(drv.steps_by_uid.items()):
        runs = drv.runs_by_uid.get(u, [])
        # ---- the property, read directly: view at least as new as the last own patch, or the timeout elapsed
        for t, view, last in runs:
            if last is not None:
                res['nontriv'] = True
        for t, view, lastw in drv.runs_vs_writes.get(u, []):
            if lastw is not None and view is not None and T and int(view) < int(lastw[0]) and t < lastw[1] + T - 1e-9:
                res['fails'].append({'what': "change handlers ran on a view older than the operator's last write observed at the API "
                                             '(touch-dummy patches included) before its echo and before the consistency timeout',
                                     'sig': 'stale-view',
                                     'observed': {'uid': u, 'ran_at': t, 'view_rv': view},
                                     'expected': {'last_write_rv': lastw[0], 'written_at': lastw[1], 'timeout': T}})
        # ---- the model
        vs = [int(s['rv']) for s in steps if s['rv'] is not None]
        res['stats']['delivered in version order' if vs == sorted(vs) else 'DELIVERED OUT OF ORDER'] += 1
        boundary = any(s['press'] is not None and s['ct'] is not None and abs(s['press'] - s['ct']) < 1e-9 for s in steps)
        res['stats']['steps'] += len(steps)
        res['stats']['handler runs'] += len(runs)
        res['stats']['steps with barrier'] += sum(1 for s in steps if s['ct'] is not None)
        res['stats']['waits ended by pressure'] += sum(1 for s in steps if s['press'] is not None and s['ct'] is not None and s['gate_left'] < s['ct'] - 1e-9)
        res['stats']['carried patch'] += sum(1 for s in steps if not s['pie'])
        res['stats']['steps with a daemon/timer re-check delay pending'] += sum(1 for s in steps if s.get('sp8') is not None)
        res['stats']['... while the barrier is up'] += sum(1 for s in steps if s.get('sp8') is not None and s['ct'] is not None)
        res['stats']['PATCH requests via the real apply()'] += len(drv.writes.get(u, []))
        res['stats']['touch-dummy patches'] += sum(1 for w_ in drv.writes.get(u, []) if w_[2])
        if boundary:
            res['stats']['skipped: event exactly at the deadline'] += 1
            continue
        try:
            ps = cq.clist(f"(mkP {copt_s(s['rv'])} {cq.cZ(e8(s['begin']))} true false {cq.cbool(s['pie'])} {cq.cbool(s['pie'])} "
                          f"{copt_z(None if s['press'] is None else e8(s['press']))} {copt_s(s['patched'])} {cq.cZ(e8(s['end']))})" for s in steps)
            ob = cq.clist(f"({cq.cZ(e8(t))}, {copt_s(v)}, {'None' if l is None else '(Some (' + cq.cstr(l[0]) + ', ' + cq.cZ(e8(l[1])) + '))'})"
                          for t, v, l in runs)
            res['terms'].append((f'cycle_ok {cq.cZ(e8(T))} {ps} {ob}', f'exec_views {cq.cZ(e8(T))} w0 None {ps}', u))
        except cq.Unencodable as e:
            res['breaks'].append(f'unencodable observation: {e}')
    res['breaks'] += [b for b in drv.breaks if 'processor entered' not in b and 'two backlog gets' not in b]
    for m in drv.misreports[:3]:
        res['breaks'].append(f"apply() reported {m['reported']!r} to the worker, the last write at the API was {m['last_write']!r} (touch={m['touch']})")
    res['stats'] = dict(res['stats'])
    return res


# ----------------------------------------------------------------------------------------------
# closed loop: real operator, lagging watch stream
# ----------------------------------------------------------------------------------------------
CHANGE_KINDS = ('create', 'update', 'delete', 'resume', 'field')


def loop_scenarios(r: random.Random, nrandom: int) -> list[dict]:
    out = []
    for lag in (0.0, 1.5, 2.875, 3.0, 3.125, 9.0):
        for foreign in ([], [0.25], [0.5, 1.0], [0.125, 1.5, 2.5]):
            for latency in (0.0, 0.125, 1.0):
                out.append({'lag': lag, 'own_only': False, 'foreign': foreign, 'latency': latency, 'status_patch': False,
                            'index': latency == 0.0})
    for foreign in ([], [0.5], [0.5, 2.0, 3.5]):
        out.append({'lag': 1000.0, 'own_only': True, 'foreign': foreign, 'latency': 0.0, 'status_patch': False})   # the echo never arrives
    # idle_timeout below / equal / above the consistency timeout (3 s): the watch lags by 2 s, a foreign edit made before the
    # operator's patch is delivered after more than idle_timeout of silence and before the echo
    for idle in (1.0, 3.0, 5.0):
        for off in (1.25, 1.5, 1.875):
            out.append({'lag': 2.0, 'own_only': False, 'foreign': [off], 'latency': 0.0, 'status_patch': False, 'idle': idle})
    # a delayed (retried) change handler: the delay is slept in full, the touch-dummy patch is sent with API latency,
    # a foreign edit is applied and delivered while that request is in flight, the echo of the touch lags
    for delay in (0.5, 1.0):
        for latency in (0.25, 1.0):
            for lag in (0.125, 0.25):
                out.append({'lag': lag, 'own_only': True, 'foreign': [], 'latency': latency, 'status_patch': False,
                            'touch': {'delay': delay}})
    for _ in range(nrandom):
        out.append({'lag': r.choice([0.0, 0.5, 1.5, 2.875, 3.0, 3.125, 4.0, 9.0]), 'own_only': r.random() < 0.15,
                    'foreign': sorted(r.choice([0.125, 0.25, 0.5, 1.0, 1.5, 2.5, 3.5, 5.0]) for _ in range(r.randrange(0, 4))),
                    'latency': r.choice([0.0, 0.0, 0.125, 1.0]), 'status_patch': r.random() < 0.6, 'index': r.random() < 0.5})
    return out


def run_loop_case(sc: dict) -> dict:
    from kv import fakeapi, sim
    res: dict[str, Any] = {'case': sc, 'fails': [], 'breaks': [], 'nontriv': False}
    T = 3.0

    def configure(s: Any) -> None:
        s.persistence.consistency_timeout = T
        if sc.get('idle'):
            s.queueing.idle_timeout = sc['idle']

    w = sim.World(latency=sc['latency'])
    try:
        lag = sc['lag']
        w.api.echo_delay = (lambda ev: lag if str(ev['actor']).startswith('op:') else 0.0) if sc['own_only'] else (lambda ev: lag)
        up = {'kind': 'update', 'id': 'up'}
        if sc['status_patch']:
            up['patch'] = {'status': {'seen': {'by': 'up'}}}
        handlers = [{'kind': 'create', 'id': 'cr'}, up, {'kind': 'event', 'id': 'ev'}]
        if sc.get('touch'):
            handlers[0] = {'kind': 'create', 'id': 'cr', 'script': [f"temp:{sc['touch']['delay']}", 'ok']}
            done = {'n': 0}

            def on_request(rq: Any) -> None:
                if rq.method == 'PATCH' and str(rq.actor).startswith('op:') and 'touch-dummy' in repr(rq.payload) and \
                        'None' not in repr(rq.payload.get('metadata', {}).get('annotations', {}).get('kopf.zalando.org/touch-dummy', 'x')) and done['n'] < 2:
                    done['n'] += 1
                    w.loop.call_later(sc['latency'] / 2, lambda: w.api.merge_edit(fakeapi.KOPFEXAMPLE, 'ns', 'x', {'spec': {'foreign': done['n']}}))
            w.api.on_request = on_request
        if sc.get('index'):
            handlers.append({'kind': 'index', 'id': 'ix'})
        inc = w.operator('a', handlers, configure=configure).start()
        w.run_for(1.0)
        w.api.create(fakeapi.KOPFEXAMPLE, 'ns', 'x', {'spec': {'n': 0}})
        t0 = w.now
        n = 0
        for off in sc['foreign']:
            w.run_until(lambda: False, max(0.0, t0 + off - w.now))
            n += 1
            w.api.merge_edit(fakeapi.KOPFEXAMPLE, 'ns', 'x', {'spec': {'n': n}})
        w.run_for(40.0)
        # ---- monitor (a): the barrier
        patches_by_uid: dict[str, list[Any]] = collections.defaultdict(list)
        for rq in w.api.requests:
            if rq.method == 'PATCH' and str(rq.actor).startswith('op:') and rq.status == 200 and rq.result_rv and rq.uid:
                patches_by_uid[rq.uid].append(rq)
        delivered = [(t['t'], t['rv']) for t in w.api.tracelog if t['what'] == 'deliver']
        for c in w.calls:
            if c['kind'] in CHANGE_KINDS and c['rv'] is not None:
                prior = [rq for rq in patches_by_uid.get(c['uid'], []) if rq.order < c['order']]
                if not prior:
                    continue
                last = max(prior, key=lambda rq: rq.order)
                if int(c['rv']) < int(last.result_rv) and c['t'] < last.t + T - 1e-9:
                    res['fails'].append({'what': "a change handler ran on a view older than the operator's own last patch before the "
                                                 'patched version came back and before the consistency timeout elapsed',
                                         'sig': 'stale-view',
                                         'observed': {'handler': c['handler'], 'view_rv': c['rv'], 't': c['t']},
                                         'expected': {'patched_rv': last.result_rv, 'patched_at': last.t, 'timeout': T}})
                if any(rq.order < c['order'] for rq in prior) and any(
                        td <= c['t'] and int(rv) < int(last.result_rv) and td >= last.t for td, rv in delivered):
                    res['nontriv'] = True
        # ---- monitor (b): raw-event handlers are called at the delivery instant (API latency of the previous cycle allowed)
        ev_calls = {(c['rv']): c['t'] for c in w.calls if c['handler'] == 'ev'}
        slack = 3 * sc['latency'] + 1e-9
        for td, rv in delivered:
            tc = ev_calls.get(str(rv))
            if tc is None:
                if td < w.now - 10:
                    res['fails'].append({'what': 'a delivered event never reached the raw-event handler', 'sig': 'raw-missing',
                                         'observed': {'rv': rv, 'delivered_at': td}, 'expected': None})
            elif tc - td > slack:
                res['fails'].append({'what': 'a raw-event handler was delayed (by the consistency barrier)', 'sig': 'raw-delayed',
                                     'observed': {'rv': rv, 'delivered_at': td, 'called_at': tc}, 'expected': {'slack': slack}})
        if sc.get('index'):
            ix_calls: dict[str, float] = {}
            for c in w.calls:
                if c['handler'] == 'ix' and c['rv'] is not None:
                    ix_calls.setdefault(str(c['rv']), c['t'])
            for td, rv in delivered:
                tc = ix_calls.get(str(rv))
                if tc is not None and tc - td > slack:
                    res['fails'].append({'what': 'an index handler was delayed (by the consistency barrier)', 'sig': 'index-delayed',
                                         'observed': {'rv': rv, 'delivered_at': td, 'called_at': tc}, 'expected': {'slack': slack}})
            res['index_calls'] = len(ix_calls)
        res['touches'] = sum(1 for rqs in patches_by_uid.values() for rq in rqs
                             if isinstance((rq.payload or {}).get('metadata', {}).get('annotations', {}).get('kopf.zalando.org/touch-dummy'), str))
        res['calls'] = len(w.calls)
        res['patches'] = sum(len(v) for v in patches_by_uid.values())
        res['change_calls'] = sum(1 for c in w.calls if c['kind'] in CHANGE_KINDS)
    except Exception as e:
        res['breaks'].append(f'closed-loop scenario aborted: {type(e).__name__}: {e}')
    finally:
        try:
            w.close()
        except Exception:
            pass
    return res


def _work(job: tuple) -> list[Any]:
    kind, items = job
    if kind == 'gate':
        out = []
        for c in items:
            try:
                out.append((c, run_gate_case(c)))
            except qd.ObservationMissing as e:
                out.append((c, {'error': f'observation point missing: {e}'}))
            except Exception as e:
                out.append((c, {'error': f'{type(e).__name__}: {e}'}))
        return out
    if kind == 'apply':
        out = []
        for c in items:
            try:
                out.append((c, run_apply_case(c)))
            except qd.ObservationMissing as e:
                out.append((c, {'error': f'observation point missing: {e}'}))
            except Exception as e:
                out.append((c, {'error': f'{type(e).__name__}: {e}'}))
        return out
    if kind == 'worker':
        return [dict(run_worker_case(cfgd, acts, walk=(fam == 'idle-vs-consistency')), family2=fam) for cfgd, acts, fam in items]
    if kind == 'loop':
        return [run_loop_case(sc) for sc in items]
    if kind == 'cycle':
        return [run_cycle_case(cfgd, acts, script) for cfgd, acts, script in items]
    raise ValueError(kind)


def chunks(xs: list, n: int) -> list[list]:
    return [xs[i:i + n] for i in range(0, len(xs), n)]


def run(ctx: fw.Ctx) -> int:
    ctx.matchers = {}
    ctx.proofs(gen=awaits.generate)
    ok, logtxt = fw.build_models(['Model/Consistency.v'])
    if not ok:
        ctx.correspondence_break('model build', logtxt[-1500:])
    r = ctx.rng
    gcases = gate_cases()
    wcases = worker_scenarios(r, ctx.scale(500, 30000))
    lcases = loop_scenarios(r, ctx.scale(60, 1500))
    ccases = cycle_scenarios(r, ctx.scale(400, 20000))
    acases = apply_cases()
    jobs = [('apply', ch) for ch in chunks(acases, 130)] + [('gate', ch) for ch in chunks(gcases, 200)] + [('worker', ch) for ch in chunks(wcases, 100)] + \
           [('loop', ch) for ch in chunks(lcases, 10)] + [('cycle', ch) for ch in chunks(ccases, 100)]
    results: list[tuple[str, Any]] = []
    with concurrent.futures.ProcessPoolExecutor(max_workers=fw.JOBS) as ex:
        for job, out in zip(jobs, ex.map(_work, jobs)):
            results += [(job[0], x) for x in out]

    D: list[fw.Case] = []
    Tcases: dict[str, fw.Case] = {}
    Ccases: dict[str, fw.Case] = {}
    nbreak: dict[str, int] = {}
    A: list[fw.Case] = []
    for kind, x in results:
        if kind == 'apply':
            c, obs = x
            if 'error' in obs:
                ctx.correspondence_break('D:apply driver', {'case': c, 'detail': obs['error']})
                continue
            data = {'family': 'apply', 'case': c}

            def afail(what: str, sig: str, observed: Any = None, expected: Any = None, data: dict = data) -> None:
                ctx.fail(what, data, observed, expected, sig=sig)
            apply_monitor(c, obs, afail)
            term, diag = apply_term(c, obs)
            A.append(fw.Case(term, {**data, 'observed': {'rv': obs['rv'], 'requests': obs['requests'], 'applied': obs['applied'], 'sleep': obs['sleep']}}, diag=diag))
            ctx.count('apply', f"requests sent: {len(obs['requests'])}")
            ctx.count('apply', 'touch sent' if any(q['touch'] for q in obs['requests']) else 'no touch')
            ctx.count('apply', 'slept' if obs['sleep'] is not None else 'no sleep')
            if len(obs['requests']) >= 1:
                ctx.nontriv(['apply', c])
            continue
        if kind == 'cycle':
            data = {'family': 'cycle', 'cfg': x['cfg'], 'actions': x['actions'], 'script': x['script']}
            for b in x['breaks']:
                nbreak['cycle'] = nbreak.get('cycle', 0) + 1
                if nbreak['cycle'] <= 3:
                    ctx.correspondence_break('T:cycle driver', {'case': data, 'detail': b})
            for f in x['fails']:
                ctx.fail(f['what'], data, f['observed'], f['expected'], sig=f['sig'])
            for term, diag, u in x['terms']:
                key = hashlib.sha1(term.encode()).hexdigest()
                if key not in Ccases:
                    Ccases[key] = fw.Case(term, {**data, 'uid': u}, diag=diag)
            for k, n in x['stats'].items():
                ctx.count('cycle', k, n)
            if x['nontriv']:
                ctx.nontriv(['cycle', x['actions'], x['script'], x['cfg']['ctimeout']])
            continue
        if kind == 'gate':
            c, obs = x
            if 'error' in obs:
                ctx.correspondence_break('D:gate driver', {'case': c, 'detail': obs['error']})
                continue
            data = {'family': 'gate', 'case': c}

            def gfail(what: str, sig: str, observed: Any = None, expected: Any = None, data: dict = data) -> None:
                ctx.fail(what, data, observed, expected, sig=sig)
            gate_monitor(c, obs, gfail)
            term, diag = gate_term(c, obs)
            D.append(fw.Case(term, {**data, 'observed': {k: v for k, v in obs.items() if k != 'sleep_args'}}, diag=diag))
            ctx.count('gate', 'handlers ran' if obs['changing_at'] is not None else 'handlers skipped')
            ctx.count('gate', 'slept' if obs['slept'] else 'no sleep')
            ctx.count('gate_spawning_delays', 'none' if c.get('sp') is None else 'shorter than the wait' if min(c['sp']) < 24 else 'longer')
            if obs['slept']:
                ctx.count('gate_sleep', 'woken by pressure' if obs['until'] * 8 < (c['ct'] or 0) - 1e-9 and obs['until'] * 8 > NOW8 - 1e-9 and obs['changing_at'] is None
                          else 'timed out / not needed')
            if c['cause'] == 'present' and c['ct'] not in (None, 0):
                ctx.nontriv(['gate', c])
        elif kind == 'worker':
            data = {'family': 'worker', 'cfg': x['cfg'], 'actions': x['actions'], 'walk': x.get('family2') == 'idle-vs-consistency'}
            ctx.count('worker_families', str(x.get('family2')))
            ctx.count('idle_vs_consistency', 'idle<consistency' if x['cfg']['idle'] < x['cfg']['ctimeout'] else
                      'idle=consistency' if x['cfg']['idle'] == x['cfg']['ctimeout'] else 'idle>consistency')
            for b in x['breaks']:
                nbreak['worker'] = nbreak.get('worker', 0) + 1
                if nbreak['worker'] <= 3:
                    ctx.correspondence_break('T:worker driver', {'case': data, 'detail': b})
            for f in x['fails']:
                ctx.fail(f['what'], data, f['observed'], f['expected'], sig=f['sig'])
            for term, diag, u in x['terms']:
                key = hashlib.sha1(term.encode()).hexdigest()
                if key not in Tcases:
                    Tcases[key] = fw.Case(term, {**data, 'uid': u}, diag=diag)
            for k, n in x.get('kinds', {}).items():
                ctx.count('worker_observations', k, n)
            ctx.count('worker_barrier', 'consistency_time passed', x.get('barrier_up', 0))
            ctx.count('worker_barrier', 'None passed', x.get('barrier_down', 0))
            if x.get('nontriv'):
                ctx.nontriv(['worker', x['actions'], x['cfg']['ctimeout'], x['cfg']['limit']])
                ctx.sample({'family': 'worker', 'ctimeout': x['cfg']['ctimeout'], 'actions': ' '.join(''.join(map(str, a)) for a in x['actions'])})
        else:
            data = {'family': 'closed-loop', 'scenario': x['case']}
            for b in x['breaks']:
                ctx.correspondence_break('closed-loop driver', {'case': data, 'detail': b})
            for f in x['fails']:
                ctx.fail(f['what'], data, f['observed'], f['expected'], sig=f['sig'])
            ctx.count('closed_loop', 'runs')
            ctx.count('closed_loop', 'touch-dummy PATCHes', x.get('touches', 0))
            ctx.count('closed_loop', 'PATCHes by the operator', x.get('patches', 0))
            ctx.count('closed_loop', 'change-handler calls', x.get('change_calls', 0))
            ctx.count('closed_loop', 'index-handler calls checked', x.get('index_calls', 0))
            if x.get('nontriv'):
                ctx.nontriv(['loop', x['case']])
                ctx.sample({'family': 'closed-loop', **x['case']})
    ctx.cov['exhaustive'] = {'gate': len(gcases)}
    ctx.cov['traces_validated_against_impl'] = len(Tcases)
    ctx.cov['exhaustive']['apply'] = len(acases)
    ctx.differential('D_apply', HEADER, A, shard=300)
    ctx.differential('D_gate', HEADER, D, shard=300)
    ctx.differential('T_worker', HEADER, list(Tcases.values()), shard=150)
    ctx.differential('T_cycle', HEADER, list(Ccases.values()), shard=150)
    return ctx.finish(RULE, level_note=[
        'the gate is tied at function level: everything around it in process_resource_causes (_detect_causes, '
        'process_watching_cause, process_changing_cause, registry) is stubbed by the harness; aiotime.sleep is the real one',
        'closed-loop monitor uses harness/kv/sim.py + fakeapi.py (fidelity of the fake API server to Kubernetes is assumed)',
        'scope: patches issued by daemons/timers/handlers\' own API calls are not tracked by the worker; consistency_timeout=0 disables the barrier'])


def replay(ctx: fw.Ctx, body: dict) -> bool:
    case = body.get('case') or {}
    fam = case.get('family')
    fails: list[dict] = []
    if fam == 'apply':
        obs = run_apply_case(case['case'])
        apply_monitor(case['case'], obs, lambda what, sig, observed=None, expected=None: fails.append({'what': what, 'sig': sig, 'observed': observed}))
    elif fam == 'gate':
        obs = run_gate_case(case['case'])
        gate_monitor(case['case'], obs, lambda what, sig, observed=None, expected=None: fails.append({'what': what, 'sig': sig, 'observed': observed}))
    elif fam == 'worker':
        fails = run_worker_case(case['cfg'], [tuple(a) for a in case['actions']], walk=bool(case.get('walk')))['fails']
    elif fam == 'closed-loop':
        fails = run_loop_case(case['scenario'])['fails']
    elif fam == 'cycle':
        fails = run_cycle_case(case['cfg'], [tuple(a) for a in case['actions']], [tuple(x) for x in case['script']])['fails']
    for f in fails:
        print(f"  {f['sig']}: {f['what']}: observed={f.get('observed')}")
    return bool(fails)
