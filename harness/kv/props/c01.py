"""C01 — per-object event processing is serial, ordered and lossless (DESIGN.md §8 C01).

Layers: proofs (Props/C01.v; S-tie = await skeletons regenerated from the source and proved equal
to the literals the model assumes), T-tie (label traces + state snapshots of the REAL watcher /
worker / Scheduler replayed by the Gallina acceptor Model/Queue.v:accepts_with), monitors (the
property text evaluated on the processor calls and on the implementation's own state).
"""
from __future__ import annotations

import collections
import concurrent.futures
import hashlib
import itertools
import json
import random
from typing import Any, Iterable

from kv import awaits, coqio as cq, framework as fw, queue_drv as qd

RULE = ('cases = (worker_limit in {None,1,2}, index toggles on/off, consistency_timeout 0 or >0, explorer action sequence over <=3 objects (with or without metadata.uid): feed (typed: ADDED/MODIFIED/DELETED/None) / '
        'finish / finish returning a patched resourceVersion / echo of a patch / fail / advance-to-timer / advance-and-feed races / single steps / cancel); exhaustive over the macro '
        'alphabet to a depth + random deeper ones; non-trivial iff (>= 2 objects or an idle Timeout observed) and >= 1 '
        'event processed; distinct by the label trace of the implementation')

HEADER = ('From Coq Require Import List Arith Bool.\nFrom KV Require Import Base.Harness Model.Queue.\n'
          'Import ListNotations.\n')

# ----------------------------------------------------------------------------------------------
# macro actions (each ends quiescent) used by the exhaustive enumeration and the corpus
# ----------------------------------------------------------------------------------------------
def expand(m: str) -> list[tuple]:
    k, u = m[0], (int(m[1:]) if len(m) > 1 else None)
    if k == 'F':
        return [('F', u), ('S',)]
    if k == 'D':
        return [('D', u), ('S',)]
    if k == 'T':
        return [('A',), ('S',)]
    if k == 'R':   # the event arrives at the very instant the timer fires; the watcher runs first
        return [('A',), ('F', u), ('S',)]
    if k == 'Q':   # ... the timeout handler runs first, then the watcher's put, then the worker
        return [('A',), ('F', u, 1), ('S',)]
    if k == 'P':   # ... the timeout is fully handled by the worker before the watcher's put
        return [('A',), ('s',), ('F', u), ('S',)]
    if k == 'C':
        return [('C',), ('S',)]
    if k == 'X':
        return [('X', u), ('S',)]
    if k == 'B':
        return [('B',), ('S',)]
    if k == 'K':   # a DELETED event of object u arrives
        return [('G', u, 'DELETED'), ('S',)]
    if k == 'N':   # an ADDED event of object u arrives (e.g. re-created under the same key)
        return [('G', u, 'ADDED'), ('S',)]
    if k == 'V':   # the processor returns a patched resourceVersion (the worker starts expecting its echo)
        return [('V', u), ('S',)]
    if k == 'E':   # the echo of the oldest outstanding patch arrives
        return [('E', u), ('S',)]
    raise ValueError(m)


def expand_all(ms: Iterable[str]) -> list[tuple]:
    return [a for m in ms for a in expand(m)]


CORPUS = [
    # (limit, indexed, macros)   hand-seeded dangerous schedules
    (None, False, ['F0', 'D0', 'R0', 'D0']),
    (None, False, ['F0', 'D0', 'Q0', 'D0']),
    (None, False, ['F0', 'D0', 'P0', 'D0']),
    (1, False, ['F0', 'F1', 'D0', 'R0', 'D0', 'T', 'D1']),
    (1, False, ['F0', 'F1', 'D0', 'Q1', 'T', 'D1']),
    (1, True, ['F0', 'F1', 'F0', 'D0', 'D0', 'T', 'D1', 'C']),
    (2, False, ['F0', 'F1', 'F0', 'F1', 'D0', 'D1', 'C', 'D0', 'D1']),
    (None, True, ['F0', 'F0', 'C', 'D0', 'D0']),
    (None, False, ['F0', 'C', 'T', 'T']),            # depletion timeout with a call in flight
    (None, False, ['F0', 'F0', 'X0', 'F0', 'T']),    # processor failure
    (1, False, ['B', 'F0', 'B', 'D0', 'T', 'R1', 'D1']),
    # the processor returns patched versions (consistency_timeout 3 s): events queued behind an outstanding patch
    (None, False, ['F0', 'F0', 'F0', 'V0', 'D0', 'D0'], 3.0),
    (None, False, ['F0', 'F0', 'F0', 'F0', 'V0', 'V0', 'E0', 'D0', 'E0', 'D0', 'D0'], 3.0),
    (1, False, ['F0', 'F1', 'F0', 'F0', 'V0', 'D0', 'D0', 'T', 'V1', 'E1', 'D1'], 3.0),
    (None, True, ['F0', 'V0', 'F0', 'F0', 'E0', 'D0', 'D0', 'D0', 'T', 'T'], 3.0),
    # event types: a DELETED event is being processed (slowly) while the next event of the same key arrives
    (None, False, ['N0', 'D0', 'K0', 'F0', 'D0', 'D0']),
    (1, False, ['N0', 'D0', 'K0', 'N0', 'F1', 'D0', 'D0', 'T', 'D1'], 0.0, True),     # uid-less: re-created under the same name
    (None, False, ['K0', 'N0', 'D0', 'D0', 'T'], 3.0, True),
]


# ----------------------------------------------------------------------------------------------
# monitors: the property text, evaluated on what the implementation did
# ----------------------------------------------------------------------------------------------
def is_prefix(a: list, b: list) -> bool:
    return len(a) <= len(b) and b[:len(a)] == a


def is_subseq(a: list, b: list) -> bool:
    it = iter(b)
    return all(x in it for x in a)


def monitors(drv: qd.Driver) -> list[dict]:
    out: list[dict] = []

    def fail(what: str, sig: str, observed: Any = None, expected: Any = None) -> None:
        out.append({'what': what, 'sig': sig, 'observed': observed, 'expected': expected})

    cfg = drv.cfg
    uids = range(cfg.nuids)
    by_u: dict[int, list[dict]] = collections.defaultdict(list)
    for c in drv.calls:
        by_u[c['u']].append(c)

    # -- serial: one at a time per object
    for u, cs in by_u.items():
        for a, b in zip(cs, cs[1:]):
            if a['seq_end'] is None or a['seq_end'] > b['seq_begin']:
                fail('two events of one object processed concurrently', 'concurrent',
                     observed={'uid': u, 'first': a['e'], 'second': b['e']})
    # -- ordered, no duplicates, nothing invented
    for u in uids:
        begun = [c['e'] for c in by_u.get(u, [])]
        fed = drv.fed.get(u, [])
        if len(set(begun)) != len(begun):
            fail('an event was processed twice', 'duplicate', observed={'uid': u, 'begun': begun}, expected=fed)
        elif u in drv.failed_uids:
            if not is_subseq(begun, fed):
                fail('events processed out of the delivery order', 'order', observed={'uid': u, 'begun': begun}, expected=fed)
        elif not is_prefix(begun, fed):
            what = 'events processed out of the delivery order' if sorted(begun) == sorted(fed[:len(begun)]) and is_subseq(sorted(begun), sorted(fed)) \
                else 'an event was skipped (a later one was processed first)'
            fail(what, 'order' if 'order' in what else 'lost', observed={'uid': u, 'begun': begun}, expected=fed)
    # -- pressure: a processor that starts while more events are queued is told so
    for c in drv.calls:
        if c['backlog_nonempty'] and not c['pressure']:
            fail('processor entered with events waiting in the backlog but stream_pressure not set', 'pressure',
                 observed={'uid': c['u'], 'event': c['e']})
    # -- quiescent points while the watch is alive: nothing dropped, nobody waits beyond the limit, stream <-> worker
    seen_fail = bool(drv.failed_uids)
    for qc in drv.quiescent_checks:
        if qc['running'] is not None and cfg.limit is not None and qc['running'] > cfg.limit:
            fail('more workers run than worker_limit allows', 'over-limit', observed=qc['running'], expected=cfg.limit)
        if qc['pending'] and (cfg.limit is None or qc['running'] < cfg.limit) and not drv.closed:
            fail('a worker waits in the scheduler although fewer than worker_limit run', 'under-limit-wait',
                 observed={'pending': qc['pending'], 'running': qc['running']}, expected=cfg.limit)
        for u, (items, _p) in qc['streams'].items():
            evs = [x for x in items if x != 'EOS']
            if evs and u not in qc['inflight'] and u not in qc['pending']:
                fail('events wait in a backlog although their worker is neither processing nor waiting for a slot',
                     'stuck-backlog', observed={'uid': u, 'backlog': items, 't': qc['t']})
        if set(qc['streams']) != {u for u, n in qc['live_workers'].items() if n} or any(n > 1 for n in qc['live_workers'].values()):
            fail('stream entries and live workers disagree', 'stream-iff-worker',
                 observed={'streams': sorted(qc['streams']), 'workers': qc['live_workers'], 't': qc['t']})
    # -- final accounting
    final = drv.quiescent_checks[-1] if drv.quiescent_checks else None
    if final is not None and getattr(drv, 'epilogue_done', False):
        for u in uids:
            if u in drv.failed_uids:
                continue
            ended = [c['e'] for c in by_u.get(u, []) if c['outcome'] == 'ok']
            if not drv.cancelled and not seen_fail:
                want = drv.fed.get(u, [])
                if ended != want:
                    fail('the watch is alive and everything is idle, yet not every delivered event was processed exactly once in order',
                         'lost', observed={'uid': u, 'processed': ended}, expected=want)
            elif drv.cancelled and drv.depletion == 'done' and not seen_fail:
                want = drv.put.get(u, [])
                if ended != want:
                    fail('graceful shutdown finished within exit_timeout, yet a queued event was not processed',
                         'lost-on-drain', observed={'uid': u, 'processed': ended}, expected=want)
        if drv.cancelled and drv.watcher_task is not None and not drv.watcher_task.done():
            fail('the cancelled watcher did not finish', 'shutdown-hang', observed={'depletion': drv.depletion})
    return out


# ----------------------------------------------------------------------------------------------
# one scenario on the implementation -> picklable result
# ----------------------------------------------------------------------------------------------
def run_case(cfgd: dict, actions: list[tuple], epilogue: bool = True) -> dict:
    cfg = qd.Config.from_dict(cfgd)
    res: dict[str, Any] = {'cfg': cfgd, 'actions': [list(a) for a in actions], 'fails': [], 'breaks': [], 'term': None}
    try:
        drv = qd.run_scenario(cfg, actions, epilogue=epilogue)
    except qd.ObservationMissing as e:
        res['breaks'].append(f'observation point missing: {e}')
        res['applicable'] = True
        return res
    except Exception as e:  # Stall, or the code under test blew up inside the loop
        res['breaks'].append(f'scenario aborted: {type(e).__name__}: {e}')
        res['fails'].append({'what': f'the queueing layer raised/stalled: {type(e).__name__}: {e}', 'sig': 'crash',
                             'observed': None, 'expected': None})
        res['applicable'] = True
        return res
    drv.epilogue_done = epilogue  # type: ignore[attr-defined]
    res['applicable'] = all(drv.performed)  # type: ignore[attr-defined]
    res['fails'] = monitors(drv)
    res['breaks'] = list(drv.breaks)
    lim = 'None' if cfg.limit is None else f'(Some {cq.cnat(cfg.limit)})'
    uni = cq.clist(cq.cnat(u) for u in range(cfg.nuids))
    tr = drv.coq_trace()
    res['term'] = f'accepts_with {lim} {tr} {uni} {drv.coq_hist()}'
    res['diag'] = f'accept_from 0 (init {lim}) {tr}'
    labels = [it[1] for it in drv.trace if it[0] == 'L']
    res['labels'] = dict(collections.Counter(labels))
    res['nlabels'] = len(labels)
    processed = sum(1 for c in drv.calls if c['outcome'] == 'ok')
    objs = len({c['u'] for c in drv.calls})
    res['nontriv'] = (objs >= 2 or 'Timeout' in labels) and processed >= 1
    # which branch of each modelled decision was taken
    dec: dict[str, int] = collections.Counter()
    trace = drv.trace
    for i, it in enumerate(trace):
        if it[0] != 'L':
            continue
        if it[1] == 'Timeout':
            # the snapshot after this stretch tells whether the stream survived
            nxt = next((x[1] for x in trace[i + 1:] if x[0] == 'S'), None)
            dec['timeout:' + ('continue(backlog non-empty)' if nxt and it[2] in nxt['streams'] else 'retire')] += 1
        if it[1] == 'Get':
            dec['get:pressure=' + str(it[4])] += 1
        if it[1] == 'Start':
            dec['start'] += 1
        if it[1] in ('Depleted', 'DepletionTimeout', 'Fail'):
            dec[it[1]] += 1
    for c in drv.calls:
        dec['processed event type: ' + str(drv.ev_type.get(c['e']))] += 1
        if drv.ev_type.get(c['e']) == 'DELETED' and any(uu == c['u'] and q >= c['seq_begin'] and (c['seq_end'] is None or q < c['seq_end'])
                                                         for uu, q in drv.arrive_log):
            dec['arrival while a DELETED event is being processed'] += 1
    for k, n in drv.spawn_stats.items():
        dec['insert->spawn: ' + k] += n
    dec['quiescence markers'] += sum(1 for it in trace if it[0] == 'Q')
    if any(qc['pending'] for qc in drv.quiescent_checks):
        dec['limit-saturated-at-quiescence'] += 1
    res['decisions'] = dict(dec)
    res['key'] = hashlib.sha1((lim + tr).encode()).hexdigest()
    res['sample'] = {'cfg': {'limit': cfg.limit, 'indexed': cfg.indexed}, 'actions': ' '.join(''.join(map(str, a)) for a in actions),
                     'labels': ' '.join(labels[:40])}
    return res


ALPHABET2 = ['F0', 'F1', 'D0', 'D1', 'T', 'R0', 'R1', 'Q0', 'Q1', 'C']
# with consistency_timeout > 0: processor calls may return a patched version (V), its echo may arrive (E)
ALPHABET_V = ['F0', 'F1', 'V0', 'D0', 'D1', 'E0', 'T', 'R0', 'C']
# typed events: DELETED (K) / ADDED (N) / MODIFIED (F) of the same key, arrivals while a call is in flight
ALPHABET_K = ['N0', 'K0', 'F0', 'D0', 'F1', 'D1', 'T', 'C']


def dfs(cfgd: dict, prefix: list[str], depth: int, alphabet: list[str]) -> list[dict]:
    """All applicable macro sequences extending `prefix` up to `depth` macros (prefix itself included)."""
    out: list[dict] = []
    r = run_case(cfgd, expand_all(prefix))
    if not r.get('applicable', True):
        return out
    r['macros'] = list(prefix)
    out.append(r)
    if len(prefix) < depth:
        for m in alphabet:
            out += dfs(cfgd, prefix + [m], depth, alphabet)
    return out


def _work(job: tuple) -> list[dict]:
    kind = job[0]
    if kind == 'dfs':
        _, cfgd, prefix, depth, alphabet = job
        return dfs(cfgd, prefix, depth, alphabet)
    if kind == 'list':
        return [run_case(cfgd, acts) for cfgd, acts in job[1]]
    raise ValueError(kind)


def random_actions(r: random.Random, nuids: int, n: int, versions: bool = False) -> list[tuple]:
    acts: list[tuple] = []
    for _ in range(n):
        x = r.random()
        u = r.randrange(nuids)
        if x < 0.30:
            if versions and r.random() < 0.2:
                acts.append(('E', u, r.choice([0, 0, 1])))
            elif r.random() < 0.4:
                acts.append(('G', u, r.choice(['ADDED', 'MODIFIED', 'DELETED', 'DELETED', None]), r.choice([0, 0, 1])))
            else:
                acts.append(('F', u, r.choice([0, 0, 0, 1, 2])))
        elif x < 0.50:
            acts.append(('V', u) if versions and r.random() < 0.5 else ('D', u))
        elif x < 0.60:
            acts.append(('A',))
        elif x < 0.68:
            acts += [('A',), ('F', u, r.choice([0, 1, 2]))]
        elif x < 0.78:
            acts.append(('s',))
        elif x < 0.93:
            acts.append(('S',))
        elif x < 0.95:
            acts.append(('B',))
        elif x < 0.97:
            acts.append(('W', r.choice([1, 8, 16, 39, 40, 41])))
        elif x < 0.985:
            acts.append(('C',))
        else:
            acts.append(('X', u))
    acts.append(('S',))
    return acts


def cfgd_of(limit: int | None, indexed: bool, nuids: int, ctimeout: float = 0.0, uidless: bool = False) -> dict:
    return qd.Config(limit=limit, indexed=indexed, nuids=nuids, ctimeout=ctimeout, uidless=uidless).as_dict()


def run(ctx: fw.Ctx) -> int:
    ctx.matchers = {}
    ctx.proofs(gen=awaits.generate)
    ok, logtxt = fw.build_models(['Model/Queue.v'], gen=awaits.generate)
    if not ok:
        ctx.correspondence_break('model build', logtxt[-1500:])

    depth = ctx.scale(5, 6)
    nrandom = ctx.scale(1500, 30000)
    jobs: list[tuple] = []
    jobs.append(('list', [(cfgd_of(c[0], c[1], 2, c[3] if len(c) > 3 else 0.0, c[4] if len(c) > 4 else False), expand_all(c[2]))
                          for c in CORPUS]))
    for limit, indexed in [(None, False), (1, False), (2, False), (1, True)] + ([(None, True), (2, True)] if ctx.thorough else []):
        cfgd = cfgd_of(limit, indexed, 2)
        for m1 in ALPHABET2[:2]:       # every non-empty applicable sequence starts with a feed
            for m2 in ALPHABET2:
                jobs.append(('dfs', cfgd, [m1, m2], depth, ALPHABET2))
    # the same enumeration with patched versions returned by the processor (expected_version armed in the worker)
    for limit in [None, 1] + ([2] if ctx.thorough else []):
        cfgd = cfgd_of(limit, False, 2, 3.0)
        for m1 in ALPHABET_V[:2]:
            for m2 in ALPHABET_V:
                jobs.append(('dfs', cfgd, [m1, m2], depth, ALPHABET_V))
    # typed events (ADDED / MODIFIED / DELETED), with and without metadata.uid
    for limit, uidless in [(None, False), (1, True)] + ([(None, True), (2, False)] if ctx.thorough else []):
        cfgd = cfgd_of(limit, False, 2, 0.0, uidless)
        for m1 in ALPHABET_K[:3]:
            for m2 in ALPHABET_K:
                jobs.append(('dfs', cfgd, [m1, m2], depth, ALPHABET_K))
    r = ctx.rng
    rnd = []
    for i in range(nrandom):
        nu = r.choice([2, 3, 3])
        ct = r.choice([0.0, 3.0, 3.0, 1.0])
        cfgd = cfgd_of(r.choice([None, 1, 2, 2]), r.random() < 0.25, nu, ct, r.random() < 0.2)
        rnd.append((cfgd, random_actions(r, nu, r.randrange(4, 15), versions=ct > 0)))
    for i in range(0, len(rnd), 250):
        jobs.append(('list', rnd[i:i + 250]))

    results: list[dict] = []
    with concurrent.futures.ProcessPoolExecutor(max_workers=fw.JOBS) as ex:
        for chunk in ex.map(_work, jobs):
            results += chunk
    fw.log(f'[C01] {len(results)} scenarios run on the implementation')

    cases: dict[str, fw.Case] = {}
    nbreaks = 0
    for res in results:
        data = {'cfg': res['cfg'], 'actions': res['actions']}
        ctx.count('scenarios', 'limit=' + str(res['cfg']['limit']) + (',indexed' if res['cfg']['indexed'] else '') + (',versions' if res['cfg']['ctimeout'] else '') + (',uidless' if res['cfg'].get('uidless') else ''))
        for b in res['breaks']:
            nbreaks += 1
            if nbreaks <= 3:    # a few examples are enough; the total is in the histogram
                ctx.correspondence_break('T:queue driver', {'case': data, 'detail': b})
            ctx.count('driver_breaks', b.split(':')[0][:60])
        for f in res['fails']:
            ctx.fail(f['what'], data, f['observed'], f['expected'], sig=f['sig'])
        if res['term'] is None:
            continue
        for k, n in res['labels'].items():
            ctx.count('labels', k, n)
        for k, n in res['decisions'].items():
            ctx.count('decisions', k, n)
        ctx.count('trace_length', '<=10' if res['nlabels'] <= 10 else '<=25' if res['nlabels'] <= 25 else '>25')
        if res['nontriv']:
            ctx.nontriv(res['key'])
            if res['nlabels'] > 12:
                ctx.sample(res['sample'])
        if res['key'] not in cases:
            cases[res['key']] = fw.Case(res['term'], data, diag=res['diag'])
    ctx.cov['traces_validated_against_impl'] = len(cases)
    ctx.differential('T_queue', HEADER, list(cases.values()), shard=150)
    return ctx.finish(RULE, level_note=[
        'CPython 3.12 asyncio semantics (Queue, wait_for/timeout, Condition, Task cancellation) as observed through the T-tie; '
        'kv.vloop steps the loop with the private _run_once',
        'S-tie: harness/kv/awaits.py (ast) regenerates coq/Gen/Awaits.v on every run; Proofs/Queue.v proves it equal to the literals',
        'the processor is an oracle; the composition with the index gate (F11, worker_limit x @kopf.index deadlock) is treated under C17'])


def replay(ctx: fw.Ctx, body: dict) -> bool:
    case = body.get('case') or {}
    if 'cfg' not in case:
        return False
    res = run_case(case['cfg'], [tuple(a) for a in case['actions']])
    for f in res['fails']:
        print(f"  {f['sig']}: {f['what']}: observed={f['observed']} expected={f['expected']}")
    return bool(res['fails'])
