"""C10 helper: drive the REAL kopf `_timer` coroutine under kv.vloop with a scripted handler,
scripted resets of `memory.idle_reset_time`, a scripted stop instant and a scripted latency of the
patching call.  All times are integer milliseconds in the case description and in the observation;
the harness only uses multiples of 125 ms (1/8 s) so kopf's float arithmetic is exact.

Convention for simultaneous events: an external input (reset / stop) scheduled at virtual time t
is applied BEFORE the loop callbacks due at t run ("advance-and-inject", DESIGN §5).
"""
from __future__ import annotations

import asyncio
import logging
from typing import Any

from kv import vloop

MS = 1000
ALL_STEPS = 10 ** 9


def ms(x: float) -> int:
    v = x * MS
    r = round(v)
    if abs(v - r) > 1e-6:
        raise InexactTime(x)
    return int(r)


class InexactTime(Exception):
    pass


class _Exhausted(Exception):
    pass


_LOG = logging.getLogger('kv.c10.silent')
_LOG.disabled = True
_LOG.propagate = False


def sec(x: int | None) -> float | None:
    return None if x is None else x / MS


def make_handler(cfg: dict, fn: Any, unit: Any = None) -> Any:
    sec = unit or globals()['sec']
    from kopf._core.actions import execution
    from kopf._core.intents import handlers as handlers_
    errors = {None: None, 'ignored': execution.ErrorsMode.IGNORED, 'temporary': execution.ErrorsMode.TEMPORARY,
              'permanent': execution.ErrorsMode.PERMANENT}[cfg.get('errors')]
    return handlers_.TimerHandler(
        fn=fn, id='tmr', param=None,
        errors=errors, timeout=sec(cfg.get('timeout')), retries=cfg.get('retries'), backoff=sec(cfg.get('backoff')),
        selector=None, labels=None, annotations=None, when=None, field=None, value=None,
        requires_finalizer=None, initial_delay=sec(cfg.get('initial_delay')),
        sharp=cfg.get('sharp'), idle=sec(cfg.get('idle')), interval=sec(cfg.get('interval')),
    )


def drive(case: dict, float_mode: bool = False) -> dict:
    """Run one case on the real `_timer`. Returns the observation:
       cycles  [[hstart, hend, pend, invoked]]   per loop cycle (one patching call per cycle)
       sleeps  [[t_begin, delay, t_end]]          every aiotime.sleep call made by _timer
       final   ['exited'|'stopped'|'out'|'horizon'|'stall'|'crash', time, extra]
    In float_mode the times are floats in seconds (monitor-only stream, nothing is compared with the model)."""
    from kopf._cogs.aiokits import aiotime
    from kopf._cogs.configs import configuration
    from kopf._cogs.structs import bodies, patches, references, ephemera
    from kopf._core.actions import application, execution, progression
    from kopf._core.engines import daemons
    from kopf._core.intents import causes, stoppers
    from kv import clock

    clock.install()
    cfg = case['cfg']
    script = case['script']
    conv = (lambda x: x) if float_mode else ms
    unit = (lambda x: x) if float_mode else sec        # case value -> seconds
    obs: dict[str, Any] = {'cycles': [], 'sleeps': [], 'final': None, 'entries': [], 'late': []}
    st = {'cycle': 0, 'exhausted': False, 'invoked_in_cycle': False, 'hstart': None, 'hend': None,
          'in_sleep': None, 'seq': 0, 'spin': 0, 'spin_mark': None, 'retry_kwargs': []}

    loop = vloop.new_loop(0.0)
    never = asyncio.Event()

    async def fn(**kwargs: Any) -> Any:
        t = loop.time()
        i = st['cycle']
        if i >= len(script):
            st['exhausted'] = True
            st['out_at'] = t
            await never.wait()
        dur, _plat, oc = script[i]
        st['invoked_in_cycle'] = True
        st['hstart'] = t
        st['seq'] += 1
        obs['entries'].append([conv(t), st['seq']])
        st['retry_kwargs'].append(kwargs.get('retry'))
        if dur > 0:
            await asyncio.sleep(unit(dur))
        st['hend'] = loop.time()
        if oc == 'ok':
            return None
        if oc == 'perm':
            raise execution.PermanentError('scripted')
        if oc == 'arb':
            raise ValueError('scripted')
        if isinstance(oc, (list, tuple)) and oc[0] == 'child':
            # what kopf.execute() raises while sub-handlers are unfinished (subhandling.py)
            raise execution.HandlerChildrenRetry('scripted', delay=unit(oc[1]) if oc[1] is not None else None)
        if isinstance(oc, (list, tuple)) and oc[0] == 'temp':
            raise execution.TemporaryError('scripted', delay=unit(oc[1]) if oc[1] is not None else None)
        raise RuntimeError(f'bad outcome in script: {oc!r}')

    async def fake_patch_and_check(**kwargs: Any) -> Any:
        t = loop.time()
        i = st['cycle']
        if i >= len(script):
            st['exhausted'] = True
            st['out_at'] = t
            await never.wait()
        plat = script[i][1]
        if st['invoked_in_cycle']:
            hs, he = st['hstart'], st['hend']
        else:
            hs, he = t, t
        if plat > 0:
            await asyncio.sleep(unit(plat))
        obs['cycles'].append([conv(hs), conv(he), conv(loop.time()), bool(st['invoked_in_cycle']), st.get('done')])
        st['done'] = None
        st['cycle'] = i + 1
        st['invoked_in_cycle'] = False
        return None, None

    real_with_outcomes = progression.State.with_outcomes

    def spy_with_outcomes(self: Any, outcomes: Any) -> Any:
        res = real_with_outcomes(self, outcomes)
        st['done'] = bool(res.done)
        return res

    real_sleep = aiotime.sleep

    async def spy_sleep(delays: Any, wakeup: Any = None) -> Any:
        t0 = loop.time()
        mark = (loop.steps, t0)
        if st['spin_mark'] == mark:
            st['spin'] += 1
            if st['spin'] > 500:
                raise vloop.Stall(f'aiotime.sleep called {st["spin"]} times without yielding at t={t0}')
        else:
            st['spin_mark'], st['spin'] = mark, 0
        seq = list(delays) if isinstance(delays, (list, tuple)) else [delays]
        act = [d for d in seq if d is not None]
        dmin = min(act) if act else 0
        rec = [conv(t0), conv(dmin), None]
        obs['sleeps'].append(rec)
        st['in_sleep'] = t0 + dmin if dmin > 0 else None
        st['sleep_begin'] = t0
        res = await real_sleep(delays, wakeup)
        st['in_sleep'] = None
        rec[2] = conv(loop.time())
        return res

    handler = make_handler(cfg, fn, (lambda x: x) if float_mode else None)
    settings = configuration.OperatorSettings()
    body = bodies.Body({'metadata': {'name': 'obj', 'namespace': 'ns', 'uid': 'u1'}, 'spec': {}})
    stopper = stoppers.DaemonStopper()
    resource = references.Resource(group='kopf.dev', version='v1', plural='kopfexamples')
    cause = causes.DaemonCause(resource=resource, indices={}, logger=_LOG,
                               memo=ephemera.Memo(), body=body, patch=patches.Patch({}), stopper=stopper)

    ext: list[tuple[float, int, str]] = sorted(
        [(unit(r), 0, 'reset') for r in case.get('resets', [])] +
        [(unit(r), 0, 'noise') for r in case.get('noise', [])] +
        ([(unit(case['stop']), 1, 'stop')] if case.get('stop') is not None else []))
    horizon = unit(case['horizon'])
    # race stream (monitor only): an essential change injected `k` loop iterations INTO instant t
    late: list[tuple[float, int]] = [(unit(t), int(k)) for t, k in case.get('late_resets', [])]
    # LATE essential changes of the model (D-tie): applied after ALL loop callbacks of their instant have run,
    # i.e. after the timer's task step of that instant; before the spawn instant early/late is the same thing
    for t in case.get('late', []):
        if unit(t) < unit(case.get('spawn', 0)):
            ext.append((unit(t), 0, 'reset'))
        else:
            late.append((unit(t), ALL_STEPS))
    ext.sort()
    late.sort()
    saved = (application.patch_and_check, aiotime.sleep)
    application.patch_and_check = fake_patch_and_check   # looked up as module attribute by _timer
    aiotime.sleep = spy_sleep
    progression.State.with_outcomes = spy_with_outcomes  # type: ignore[method-assign]
    final: list[Any] | None = None
    try:
        with vloop.running(loop):
            memory = daemons.DaemonsMemory()
            memory.idle_reset_time = unit(case.get('irt0', 0))
            memory.live_fresh_body = body

            # ---- essential changes reach the timer the way they do in the operator: a watch/listing event of the
            # object goes through the REAL processing._detect_causes (reset = bool(diff of the essence against the
            # last-handled one)) and the REAL processing.process_spawning_cause (which bumps idle_reset_time).
            from kopf._core.engines import indexing
            from kopf._core.intents import registries
            from kopf._core.reactor import inventory, processing
            registry = registries.OperatorRegistry()
            registry._spawning.append(handler)
            indexers = indexing.OperatorIndexers()
            rmemory = inventory.ResourceMemory()
            rmemory.daemons_memory = memory
            placeholder = daemons.Daemon(task=loop.create_future(), logger=_LOG, handler=handler, stopper=stopper)
            memory.running_daemons[handler.id] = placeholder      # the timer under test IS the spawned one
            etypes = case.get('etypes') or ['MODIFIED']
            world = {'n': 0, 'rv': 0, 'ann': {}, 'k': 0}
            obs['reset_flags'] = []

            def world_body() -> dict:
                return {'apiVersion': 'kopf.dev/v1', 'kind': 'KopfExample',
                        'metadata': {'name': 'obj', 'namespace': 'ns', 'uid': 'u1', 'resourceVersion': str(world['rv']),
                                     'annotations': dict(world['ann'])},
                        'spec': {'n': world['n']}, 'status': {'observed': world['rv']}}

            def remember_handled() -> None:
                # what a finished handling cycle leaves on the object: the last-handled essence
                b = bodies.Body(world_body())
                ess = settings.persistence.diffbase_storage.build(body=b, extra_fields=set())
                p = patches.Patch({})
                settings.persistence.diffbase_storage.store(body=b, patch=p, essence=ess)
                world['ann'].update(p.get('metadata', {}).get('annotations', {}))

            remember_handled()

            def feed(essential: bool) -> None:
                evtype = etypes[world['k'] % len(etypes)]
                world['k'] += 1
                world['rv'] += 1
                if essential:
                    world['n'] += 1           # the harness edits the spec: an essential change
                raw = world_body()
                b = bodies.Body(raw)
                found = processing._detect_causes(
                    indexers=indexers, registry=registry, settings=settings, resource=resource,
                    raw_event={'type': evtype, 'object': raw}, body=b, patch=patches.Patch({}),  # type: ignore[typeddict-item]
                    memory=rmemory, local_logger=_LOG, event_logger=_LOG)
                sc = found[1]
                obs['reset_flags'].append([evtype, bool(essential), bool(sc.reset)])
                coro = processing.process_spawning_cause(registry=registry, settings=settings, memory=rmemory,
                                                         cause=sc, operator_paused=None)
                try:
                    coro.send(None)
                except StopIteration:
                    pass
                else:
                    coro.close()
                    raise RuntimeError('observation point changed: process_spawning_cause suspended')
                if essential:
                    remember_handled()

            def inject(upto: float) -> None:
                while ext and ext[0][0] <= upto:
                    t, _, kind = ext.pop(0)
                    if kind == 'reset':
                        feed(True)
                    elif kind == 'noise':
                        feed(False)
                    else:
                        stopper.set(reason=stoppers.DaemonStoppingReason.OPERATOR_EXITING)

            spawn = unit(case.get('spawn', 0))
            # external inputs before the spawn instant are applied at their own instants
            while ext and ext[0][0] < spawn:
                loop.advance_to(ext[0][0])
                inject(ext[0][0])
            loop.advance_to(spawn)
            inject(spawn)
            task = loop.spawn(daemons._timer(settings=settings, handler=handler, memory=memory, cause=cause))
            memory.running_daemons[handler.id] = daemons.Daemon(task=task, logger=_LOG, handler=handler, stopper=stopper)
            try:
                while True:
                    loop.settle()
                    if task.done():
                        break
                    if st['exhausted']:
                        final = ['out', conv(st['out_at']), None]
                        break
                    tn = loop.next_timer()
                    te = ext[0][0] if ext else None
                    tl = late[0][0] if late else None
                    cand = [x for x in (tn, te, tl) if x is not None]
                    if not cand:
                        final = ['deadlock', conv(loop.time()), None]
                        break
                    t = min(cand)
                    if t > horizon and st['in_sleep'] is not None and st['in_sleep'] > horizon:
                        final = ['horizon', conv(st['sleep_begin']), None]
                        break
                    if t > horizon * 8 + 1000:
                        final = ['runaway', conv(loop.time()), None]
                        break
                    loop.advance_to(t)
                    inject(t)
                    steps = 0
                    while late and late[0][0] <= t:
                        _, k = late.pop(0)
                        if k >= ALL_STEPS:
                            steps += loop.settle()
                        while steps < k < ALL_STEPS and (loop.has_ready() or loop.due()):
                            loop.step()
                            steps += 1
                        feed(True)
                        st['seq'] += 1
                        obs['late'].append([conv(t), st['seq'], steps])
            except vloop.Stall:
                final = ['stall', conv(loop.time()), 'vloop']
            if final is None:
                exc = task.exception() if not task.cancelled() else None
                if exc is None:
                    final = ['stopped' if stopper.is_set() else 'exited', conv(loop.time()), None]
                elif isinstance(exc, vloop.Stall):
                    final = ['stall', conv(loop.time()), 'spin']
                    # the spinning calls are not part of the comparison
                    while obs['sleeps'] and obs['sleeps'][-1][0] == final[1] and obs['sleeps'][-1][2] in (None, final[1]) \
                            and cfg.get('idle') is not None and obs['sleeps'][-1][1] == conv(unit(cfg['idle'])):
                        obs['sleeps'].pop()
                else:
                    final = ['crash', conv(loop.time()), type(exc).__name__]
    finally:
        application.patch_and_check, aiotime.sleep = saved
        progression.State.with_outcomes = real_with_outcomes  # type: ignore[method-assign]
        vloop.close_loop(loop)
    if final[0] in ('out', 'horizon') and obs['sleeps'] and obs['sleeps'][-1][2] is None:
        pass  # an unfinished sleep keeps t_end = None
    obs['final'] = final
    obs['retry_kwargs'] = st['retry_kwargs']
    return obs
