"""C05 — every event maps to exactly one cause; handler kinds are mutually exclusive.

Layers (DESIGN.md §8 C05):
  proofs      coq/Props/C05.v  (model: coq/Model/Causes.v)
  D-ties      detect        real causes.detect_changing_cause, exhaustive over the atom table
              select        real ChangingRegistry.iter_handlers, exhaustive over cause x handler fields
              decorators    kopf.on.* -> (reason, initial, deleted, requires_finalizer)
              finalizers    real finalizers.is_deletion_ongoing/is_deletion_blocked/block_deletion/allow_deletion
              pass          real processing._detect_causes (cause vs detect_body) and
                            real processing.process_resource_causes (vs cycle) with recording handlers (one pass and
                            closed-loop histories: patch applied to a server-side object, echoed back)
  monitors    the property text evaluated on what the implementation did: precedence list on the detector's
              answers; per-invocation rules (kind vs. server-side state) on every pass of the real reactor.
"""
from __future__ import annotations

import asyncio
import copy
import itertools
import logging
from typing import Any

from kv import canon, coqio as cq, framework as fw, gen as g

RULE = ('atom table: event type x deletionTimestamp x finalizers shape x old=None x diff(None/()/non-empty) x initial, all '
        '(finite) - counted distinct; selection table: cause(reason, initial, deleted) x handler(reason, initial, deleted, '
        'match, excluded), all - counted distinct; passes of the real reactor: non-trivial iff the registry has >= 2 handler '
        'kinds and the pass reached a decision other than "no handlers" (distinct by registry, body state and flags)')

HEADER = fw.STD_HEADER + 'From KV Require Import Base.Dicts Model.Causes.\n'

FIN = 'kopf.zalando.org/KopfFinalizerMarker'
LAST = 'kopf.zalando.org/last-handled-configuration'
REASONS = ['create', 'update', 'delete', 'resume', 'noop', 'free', 'gone']
CR = {'create': 'Create', 'update': 'Update', 'delete': 'Delete', 'resume': 'Resume', 'noop': 'Noop', 'free': 'Free',
      'gone': 'Gone'}
CEV = {None: 'EvNone', 'ADDED': 'EvAdded', 'MODIFIED': 'EvModified', 'DELETED': 'EvDeleted'}


def cob(x: Any) -> str:
    return 'None' if x is None else f'(Some {cq.cbool(bool(x))})'


def coreason(x: Any) -> str:
    return 'None' if x is None else f'(Some {CR[str(x)]})'


def ccause(reason: Any, initial: bool) -> str:
    return f'({CR[str(reason)]}, {cq.cbool(initial)})'


def cbody(body: Any) -> str:
    """json term of a body; a str-valued metadata.finalizers is kept as a plain JStr (its characters matter:
    Python's `in` is a substring test there), everything else through kv.canon."""
    md = body.get('metadata') if isinstance(body, dict) else None
    if isinstance(md, dict) and isinstance(md.get('finalizers'), str):
        b2 = dict(body)
        b2['metadata'] = dict(md)
        b2['metadata']['finalizers'] = 'placeholder'
        m = canon.to_model(b2)
        m['metadata']['finalizers'] = md['finalizers']
        return canon.cjson_enc(m)
    return canon.cj(body)


def chdecl(key: int, reason: Any, initial: Any, deleted: Any, reqfin: Any, prematch: bool, match: bool) -> str:
    # Build_hdecl h_key h_reason h_initial h_deleted h_reqfin h_prematch h_match
    return (f'(Build_hdecl {key} {coreason(reason)} {cob(initial)} {cob(deleted)} {cob(reqfin)} {cq.cbool(prematch)} '
            f'{cq.cbool(match)})')


def core(body: Any) -> Any:
    """Python twin of Model/Causes.v core_body (C05_reads_only_core: the model gives the same answers on it)."""
    if not isinstance(body, dict):
        return body
    if 'metadata' not in body:
        return {}
    md = body['metadata']
    if isinstance(md, dict):
        return {'metadata': {k: v for k, v in md.items() if k in ('deletionTimestamp', 'finalizers')}}
    return {'metadata': md}


_PASS_COUNTER = [0]


# --------------------------------------------------------------------------------------------
# The harness's own reading of the property text
# --------------------------------------------------------------------------------------------

def marked_for_deletion(obj: dict) -> bool:
    return obj.get('metadata', {}).get('deletionTimestamp') is not None


def held_by_framework(obj: dict) -> bool:
    fs = obj.get('metadata', {}).get('finalizers', [])
    return isinstance(fs, list) and any(isinstance(x, str) and x == FIN for x in fs)


def stored_state_present(obj: dict, diffbase: str = 'annotations') -> bool:
    """Does the server-side object carry a stored last-handled state (whatever its content, e.g. '{}')?"""
    if diffbase == 'status':
        st = obj.get('status')
        kopf_st = st.get('kopf') if isinstance(st, dict) else None
        return isinstance(kopf_st, dict) and kopf_st.get('last-handled-configuration') is not None
    anns = obj.get('metadata', {}).get('annotations')     # (ReplicaSets owned by Deployments use the key with '-ofDRS')
    return isinstance(anns, dict) and any(k in (LAST, LAST + '-ofDRS') and v is not None for k, v in anns.items())


def patch_stores_state(patch: dict, diffbase: str = 'annotations') -> bool:
    if diffbase == 'status':
        v = patch.get('status', {}).get('kopf', {}) if isinstance(patch.get('status'), dict) else {}
        return isinstance(v, dict) and v.get('last-handled-configuration') is not None
    anns = patch.get('metadata', {}).get('annotations', {}) or {}
    return any(k in (LAST, LAST + '-ofDRS') and v is not None for k, v in anns.items())


def spec_reason(gone: bool, marked: bool, held: bool, never_handled: bool, changed: bool, first_sight: bool) -> str:
    """The precedence list of the property statement."""
    if gone:
        return 'gone'
    if marked and not held:
        return 'free'
    if marked:
        return 'delete'
    if never_handled:
        return 'create'
    if first_sight and not changed:
        return 'resume'
    if not changed:
        return 'noop'
    return 'update'


# --------------------------------------------------------------------------------------------
# Real kopf objects
# --------------------------------------------------------------------------------------------

class Env:
    def __init__(self) -> None:
        import kopf
        from kopf._cogs.configs import configuration
        from kopf._cogs.structs import bodies, diffs, ephemera, finalizers, patches, references
        from kopf._core.actions import lifecycles
        from kopf._core.engines import indexing
        from kopf._core.intents import causes, handlers, registries
        from kopf._core.reactor import inventory, processing
        self.kopf, self.configuration, self.bodies, self.diffs, self.ephemera = kopf, configuration, bodies, diffs, ephemera
        self.finalizers, self.patches, self.references, self.lifecycles, self.indexing = finalizers, patches, references, lifecycles, indexing
        self.causes, self.handlers, self.registries, self.inventory, self.processing = causes, handlers, registries, inventory, processing
        self.resource = references.Resource('kopf.dev', 'v1', 'kopfexamples', kind='KopfExample', namespaced=True)
        self.selector = references.Selector('kopfexamples')
        self.settings = configuration.OperatorSettings()
        if self.settings.persistence.finalizer != FIN:
            raise RuntimeError(f'observation point moved: default finalizer is {self.settings.persistence.finalizer!r}')
        from kopf._cogs.configs import diffbase as _diffbase
        status_settings = configuration.OperatorSettings()
        status_settings.persistence.diffbase_storage = _diffbase.StatusDiffBaseStorage()
        self.settings_by = {'annotations': self.settings, 'status': status_settings}
        self.indexers = indexing.OperatorIndexers()
        self.logger = logging.getLogger('kv.c05')
        self.logger.setLevel(logging.DEBUG)
        self.logger.propagate = False
        self.messages: list[str] = []

        class _H(logging.Handler):
            def emit(h, record: logging.LogRecord) -> None:  # noqa: N805
                self.messages.append(record.getMessage())
        for h in list(self.logger.handlers):
            self.logger.removeHandler(h)
        self.logger.addHandler(_H())
        # kopf's own per-object loggers (used when the harness goes through process_resource_event)
        klog = logging.getLogger('kopf.objects')
        klog.setLevel(logging.DEBUG)
        klog.propagate = False
        for h in list(klog.handlers):
            if type(h).__name__ == '_H':
                klog.removeHandler(h)
        klog.addHandler(_H())
        # the API side of a pass: application.apply is replaced by a recorder; the harness's server applies the patch
        from kopf._core.actions import application
        self.application = application
        self.applied: list[dict] = []
        if not hasattr(application, 'apply'):
            raise RuntimeError('observation point missing: application.apply')

        async def apply_recorder(*, settings: Any, resource: Any, body: Any, patch: Any, delays: Any, logger: Any,
                                 stream_pressure: Any = None) -> Any:
            self.applied.append({'patch': patch, 'delays': list(delays)})
            return True, None, None
        self.apply_recorder = apply_recorder
        self.real_apply = getattr(application.apply, '_kv_orig', application.apply)
        apply_recorder._kv_orig = self.real_apply       # type: ignore[attr-defined]

        # observation points (wrappers installed in this process only; fail closed if they moved)
        self.seen_causes: list[Any] = []
        self.seen_changing: list[Any] = []
        self.seen_memory: list[Any] = []
        orig_detect = processing._detect_causes
        orig_changing = processing.process_changing_cause
        if getattr(orig_detect, '_kv_wrapped', False):
            orig_detect = orig_detect._kv_orig           # type: ignore[attr-defined]
            orig_changing = orig_changing._kv_orig        # type: ignore[attr-defined]
        env = self

        def detect_wrapper(*a: Any, **kw: Any) -> Any:
            mem = kw.get('memory')
            env.seen_memory.append((bool(mem.noticed_by_listing), bool(mem.fully_handled_once)) if mem is not None else None)
            res = orig_detect(*a, **kw)
            env.seen_causes.append(res)
            return res

        async def changing_wrapper(*a: Any, **kw: Any) -> Any:
            c = kw['cause']
            env.seen_changing.append((str(c.reason), bool(c.initial)))
            return await orig_changing(*a, **kw)
        detect_wrapper._kv_wrapped = True                 # type: ignore[attr-defined]
        detect_wrapper._kv_orig = orig_detect             # type: ignore[attr-defined]
        changing_wrapper._kv_orig = orig_changing         # type: ignore[attr-defined]
        processing._detect_causes = detect_wrapper
        processing.process_changing_cause = changing_wrapper
        self.real_detect_causes = orig_detect

    def cause(self, body: dict, reason: str, initial: bool, old: Any = None, new: Any = None, diff: Any = ()) -> Any:
        return self.causes.ChangingCause(
            logger=self.logger, indices=self.indexers.indices, memo=self.ephemera.Memo(), resource=self.resource,
            patch=self.patches.Patch({}), body=self.bodies.Body(body), initial=initial, reason=self.causes.Reason(reason),
            diff=diff, old=old, new=new)


# --------------------------------------------------------------------------------------------
# D: detect_changing_cause over the atom table (+ precedence monitor)
# --------------------------------------------------------------------------------------------

FIN_SHAPES = [   # (name, finalizers value or absent, held by the framework's finalizer?)
    ('own', [FIN], True),
    ('own+other', ['other/finalizer', FIN], True),
    ('absent', None, False),
    ('other', ['other/finalizer'], False),
    ('longer', [FIN + 'x', 'x' + FIN], False),          # near misses: prefix / suffix of another finalizer
    ('shorter', [FIN[:-1], 'kopf.zalando.org'], False),
]


def table_body(deleting: bool, shape: tuple) -> dict:
    md: dict[str, Any] = {'name': 'obj1', 'namespace': 'ns1', 'uid': 'uid-1', 'resourceVersion': '10'}
    if deleting:
        md['deletionTimestamp'] = '2020-01-01T00:00:00Z'
    if shape[1] is not None:
        md['finalizers'] = list(shape[1])
    return {'apiVersion': 'kopf.dev/v1', 'kind': 'KopfExample', 'metadata': md, 'spec': {'x': 2}}


def run_detect_table(ctx: fw.Ctx, env: Env) -> list[fw.Case]:
    cases: list[fw.Case] = []
    for ev, deleting, shape, old_none, diffk, initial in itertools.product(
            [None, 'ADDED', 'MODIFIED', 'DELETED'], [False, True], FIN_SHAPES, [False, True], ['none', 'empty', 'changed'],
            [False, True]):
        body = table_body(deleting, shape)
        old = None if old_none else {'spec': {'x': 1}}
        new = {'spec': {'x': 2}}
        diff = {'none': None, 'empty': env.diffs.Diff(()), 'changed': env.diffs.diff({'spec': {'x': 1}}, new)}[diffk]
        data = {'event': ev, 'deleting': deleting, 'finalizers': shape[0], 'old_none': old_none, 'diff': diffk,
                'initial': initial, 'body': body}
        kw: dict[str, Any] = dict(finalizer=FIN, raw_event={'type': ev, 'object': body}, body=env.bodies.Body(body), old=old,
                                  new=new, initial=initial, resource=env.resource, indices=env.indexers.indices,
                                  logger=env.logger, patch=env.patches.Patch({}), memo=env.ephemera.Memo())
        if diffk != 'none' or ctx.rng.random() < 0.5:
            kw['diff'] = diff
        cause = env.causes.detect_changing_cause(**kw)
        got = (str(cause.reason), bool(cause.initial))
        atoms = (f'{{| a_gone := {cq.cbool(ev == "DELETED")}; a_deleting := {cq.cbool(deleting)}; a_blocked := {cq.cbool(shape[2])}; '
                 f'a_old_none := {cq.cbool(old_none)}; a_diff_empty := {cq.cbool(diffk != "changed")}; a_initial := {cq.cbool(initial)} |}}')
        t1 = f'cause_eqb (detect {atoms}) {ccause(*got)}'
        mb = cbody(body)
        fl = f'{cq.cbool(old_none)} {cq.cbool(diffk != "changed")} {cq.cbool(initial)}'
        t2 = f'res_eqb cause_eqb (detect_body {cq.cstr(FIN)} {CEV[ev]} {mb} {fl}) (Ok {ccause(*got)})'
        cases.append(fw.Case(f'({t1}) && ({t2})', {**data, 'got': got},
                             diag=f'(detect {atoms}, detect_body {cq.cstr(FIN)} {CEV[ev]} {mb} {fl})'))
        ctx.count('detector_branch', got[0])
        ctx.nontriv(['atoms', ev, deleting, shape[0], old_none, diffk, initial])
        # ---- monitor: the precedence list of the property, read off the server-side state
        exp = spec_reason(ev == 'DELETED', marked_for_deletion(body), held_by_framework(body), old_none, diffk == 'changed', initial)
        if got[0] != exp:
            ctx.fail('event classified differently from the precedence list of the property', data, observed=got[0],
                     expected=exp, sig='precedence')
        if got[0] == 'create' and got[1]:
            ctx.fail('creation cause carries the first-sight flag (resume handlers would be mixed into creation)', data,
                     observed=got, sig='create-initial')
        if got[0] != 'create' and got[1] != initial:
            ctx.fail('first-sight flag altered by the detector', data, observed=got, sig='initial-altered')
    ctx.sample({'detect': cases[100].data})
    return cases


# --------------------------------------------------------------------------------------------
# D: ChangingRegistry.iter_handlers over cause x handler fields;  kopf.on decorator table
# --------------------------------------------------------------------------------------------

def mk_handler(env: Env, hid: str, fn: Any, reason: Any, initial: Any, deleted: Any, reqfin: Any, when: Any, field: Any = None,
               field_needs_change: bool = False) -> Any:
    return env.handlers.ChangingHandler(
        fn=fn, id=hid, param=None, errors=None, timeout=None, retries=None, backoff=None, selector=env.selector, labels=None,
        annotations=None, when=when, field=field, value=None, old=None, new=None, field_needs_change=field_needs_change,
        initial=initial, deleted=deleted, requires_finalizer=reqfin,
        reason=None if reason is None else env.causes.Reason(reason))


def const_when(flag: bool) -> Any:
    def when(**_: Any) -> bool:
        return flag
    return when


def run_select_table(ctx: fw.Ctx, env: Env) -> list[fw.Case]:
    cases: list[fw.Case] = []

    async def fn(**_: Any) -> None:
        return None
    decls = list(itertools.product([None] + REASONS, [None, True, False], [None, True, False], [True, False]))
    reg = env.registries.OperatorRegistry()
    hs = []
    for i, (hr, hi, hd, hm) in enumerate(decls):
        h = mk_handler(env, f'h{i}', fn, hr, hi, hd, None, const_when(hm))
        reg._changing.append(h)
        hs.append(h)
    for reason, ci, cd, par in itertools.product(REASONS, [False, True], [False, True], [0, 1]):
        body = table_body(cd, FIN_SHAPES[0])
        cause = env.cause(body, reason, ci)
        excluded = {h.id for i, h in enumerate(hs) if i % 2 == par and (i // 2) % 3 == 0}
        selected = {h.id for h in reg._changing.iter_handlers(cause=cause, excluded=frozenset(excluded))}
        for i, (hr, hi, hd, hm) in enumerate(decls):
            if par == 1 and hs[i].id not in excluded:
                continue       # identical to the par == 0 case unless excluded
            ex = hs[i].id in excluded
            term = (f'Bool.eqb (select {CR[reason]} {cq.cbool(ci)} {cq.cbool(cd)} {cq.cbool(ex)} '
                    f'{chdecl(i, hr, hi, hd, None, hm, hm)}) {cq.cbool(hs[i].id in selected)}')
            cases.append(fw.Case(term, {'cause': [reason, ci, cd], 'handler': [hr, hi, hd, hm], 'excluded': ex,
                                        'selected': hs[i].id in selected}))
            ctx.count('iter_handlers', 'selected' if hs[i].id in selected else 'skipped')
            ctx.nontriv(['select', reason, ci, cd, hr, hi, hd, hm, ex])
    ctx.sample({'select': cases[1234].data})
    return cases


KINDS = [   # (name, decorator, kwargs, Coq kind)
    ('create', 'create', {}, 'KCreate'), ('update', 'update', {}, 'KUpdate'), ('field', 'field', {'field': 'spec.x'}, 'KField'),
    ('delete', 'delete', {}, '(KDelete None)'), ('delete-optional', 'delete', {'optional': True}, '(KDelete (Some true))'),
    ('delete-mandatory', 'delete', {'optional': False}, '(KDelete (Some false))'),
    ('resume', 'resume', {}, '(KResume None)'), ('resume-deleted', 'resume', {'deleted': True}, '(KResume (Some true))'),
    ('resume-undeleted', 'resume', {'deleted': False}, '(KResume (Some false))'),
]
KIND_BY_NAME = {k[0]: k for k in KINDS}


def run_decorator_table(ctx: fw.Ctx, env: Env) -> list[fw.Case]:
    cases = []
    for name, deco, kwargs, ck in KINDS:
        reg = env.registries.OperatorRegistry()

        async def fn(**_: Any) -> None:
            return None
        getattr(env.kopf.on, deco)('kopfexamples', registry=reg, id='h', **kwargs)(fn)
        h = reg._changing.get_all_handlers()[-1]
        term = (f'decl_fields_eqb (decl_of_kind {ck} 0 true true) {coreason(h.reason)} {cob(h.initial)} {cob(h.deleted)} '
                f'{cob(h.requires_finalizer)}')
        cases.append(fw.Case(term, {'decorator': name, 'reason': None if h.reason is None else str(h.reason),
                                    'initial': h.initial, 'deleted': h.deleted, 'requires_finalizer': h.requires_finalizer},
                             diag=f'decl_of_kind {ck} 0 true true'))
        ctx.nontriv(['decorator', name])
    return cases


# --------------------------------------------------------------------------------------------
# D: finalizers.py on random and malformed bodies
# --------------------------------------------------------------------------------------------

def gen_metadata_variant(r: Any, G: g.Gen, body: dict) -> dict:
    """Mostly valid bodies; a separate malformed stream (metadata / finalizers of the wrong type)."""
    b = copy.deepcopy(body)
    k = r.randrange(20)
    md = b.get('metadata')
    if k == 0:
        b['metadata'] = r.choice([None, 'text', 5, [], True])
    elif k == 1:
        b.pop('metadata', None)
    elif isinstance(md, dict):
        if k == 2:
            md['finalizers'] = r.choice([None, 5, False, FIN, 'x' + FIN + 'y', 'other', '', {FIN: 1}, {'other': 1}, {}])
        elif k == 3:
            md['finalizers'] = []
        elif k == 4:
            md['finalizers'] = [FIN, 'a', FIN, 7, None, FIN + 'x']
        elif k == 5:
            md['finalizers'] = [FIN]
        elif k == 6:
            md['finalizers'] = ['x' + FIN, FIN[:-1]]
        elif k in (7, 8, 9):
            md['finalizers'] = r.sample([FIN, 'other/finalizer', 'x', FIN + '2'], r.choice([1, 2, 3]))
        if r.random() < 0.4:
            md['deletionTimestamp'] = r.choice(['2020-01-01T00:00:00Z', '2020-01-01T00:00:00Z', None, '', 0])
        if k == 10:
            b['metadata'] = {kk: vv for kk, vv in md.items() if kk in ('finalizers',)}     # only finalizers: emptied by allow
    return b


def small_body(r: Any, G: g.Gen) -> dict:
    b: dict[str, Any] = {'apiVersion': 'kopf.dev/v1', 'kind': 'KopfExample'}
    if r.random() < 0.95:
        md: dict[str, Any] = {'name': r.choice(['obj1', 'obj2'])}
        if r.random() < 0.5:
            md['labels'] = G.labels()
        if r.random() < 0.3:
            md['annotations'] = {'note': r.choice(g.WORDS)}
        b['metadata'] = md
    if r.random() < 0.8:
        b['spec'] = G.obj(1)
    if r.random() < 0.3:
        b['status'] = G.obj(1)
    return b


def run_finalizers(ctx: fw.Ctx, env: Env, G: g.Gen, n: int) -> dict[str, list[fw.Case]]:
    out: dict[str, list[fw.Case]] = {'fin_ongoing': [], 'fin_blocked': [], 'fin_block': [], 'fin_allow': []}
    r = ctx.rng
    for _ in range(n):
        body = gen_metadata_variant(r, G, small_body(r, G))
        fin = FIN if r.random() < 0.8 else r.choice(['other/finalizer', 'x', 'kopf.zalando.org'])
        try:
            mb = cbody(body)
        except cq.Unencodable:
            continue
        data = {'body': body, 'finalizer': fin}
        kind, got = canon.run_res(lambda: env.finalizers.is_deletion_ongoing(env.bodies.Body(body)))
        out['fin_ongoing'].append(fw.Case(f'res_eqb Bool.eqb (is_deletion_ongoing {mb}) {canon.cres(kind, cq.cbool(bool(got)))}',
                                          {**data, 'outcome': kind, 'got': got}, diag=f'is_deletion_ongoing {mb}'))
        ctx.count('is_deletion_ongoing', f'{kind}:{got}')
        kind, got = canon.run_res(lambda: env.finalizers.is_deletion_blocked(env.bodies.Body(body), fin))
        out['fin_blocked'].append(fw.Case(f'res_eqb Bool.eqb (is_deletion_blocked {cq.cstr(fin)} {mb}) {canon.cres(kind, cq.cbool(bool(got)))}',
                                          {**data, 'outcome': kind, 'got': got}, diag=f'is_deletion_blocked {cq.cstr(fin)} {mb}'))
        ctx.count('is_deletion_blocked', f'{kind}:{got}')
        md = body.get('metadata') if isinstance(body, dict) else None
        wellformed = isinstance(md, dict) and isinstance(md.get('finalizers', []), list) and \
            all(isinstance(x, str) for x in md.get('finalizers', []))
        if kind == 'ok' and wellformed and bool(got) != (fin in list(md.get('finalizers', []))):
            ctx.fail('held-by-finalizer differs from membership in metadata.finalizers', data, observed=got, sig='blocked-membership')
        for name, f in (('fin_block', env.finalizers.block_deletion), ('fin_allow', env.finalizers.allow_deletion)):
            b2 = copy.deepcopy(body)
            kind, _ = canon.run_res(lambda: f(b2, finalizer=fin))
            model_fn = 'block_deletion' if name == 'fin_block' else 'allow_deletion'
            try:
                exp = canon.cres(kind, cbody(b2) if kind == 'ok' else None)
            except cq.Unencodable:
                continue
            out[name].append(fw.Case(f'res_eqb jeqb ({model_fn} {cq.cstr(fin)} {mb}) {exp}', {**data, 'outcome': kind, 'after': b2},
                                     diag=f'{model_fn} {cq.cstr(fin)} {mb}'))
            ctx.count(model_fn, kind)
            if kind == 'ok' and wellformed:
                after = b2.get('metadata', {}).get('finalizers', [])
                if name == 'fin_block' and (fin not in after or [x for x in after if x != fin] != [x for x in md.get('finalizers', []) if x != fin]):
                    ctx.fail('block_deletion did not add exactly the own finalizer', data, observed=after, sig='block-effect')
                if name == 'fin_allow' and (fin in after or after != [x for x in md.get('finalizers', []) if x != fin]):
                    ctx.fail('allow_deletion did not remove exactly the own finalizer', data, observed=after, sig='allow-effect')
    return out


# --------------------------------------------------------------------------------------------
# Real reactor passes: process_resource_causes with recording handlers
# --------------------------------------------------------------------------------------------

def gen_decls(r: Any) -> list[dict]:
    """A registry: 0..6 registrations over the decorator kinds; sometimes one function registered twice with one id
    (the create+resume idiom that _deduplicated exists for)."""
    n = r.choice([0, 1, 2, 3, 3, 4, 5, 6])
    decls: list[dict] = []
    for i in range(n):
        kind = r.choice([k[0] for k in KINDS])
        d = {'kind': kind, 'fn': f'fn{i}', 'id': f'h{i}', 'when': r.random() < 0.8}
        if decls and r.random() < 0.2:
            prev = r.choice(decls)
            d['fn'], d['id'] = prev['fn'], prev['id']
        decls.append(d)
    return decls


class Registry:
    def __init__(self, env: Env, decls: list[dict]) -> None:
        self.env, self.decls = env, decls
        self.calls: list[dict] = []
        self.reg = env.registries.OperatorRegistry()
        self.fns: dict[str, Any] = {}
        self.handlers: list[Any] = []
        self.keys: list[int] = []
        keymap: dict[tuple, int] = {}
        for d in decls:
            fn = self.fns.get(d['fn'])
            if fn is None:
                fn = self.fns[d['fn']] = self._mkfn(d['fn'])
            _, deco, kwargs, _ = KIND_BY_NAME[d['kind']]
            getattr(env.kopf.on, deco)('kopfexamples', registry=self.reg, id=d['id'], when=const_when(d['when']),
                                       param=len(self.handlers), **kwargs)(fn)      # param = index of the registration
            h = self.reg._changing.get_all_handlers()[-1]
            self.handlers.append(h)
            self.keys.append(keymap.setdefault((d['fn'], h.id), len(keymap)))
        # observation point on the harness's own registry instance: what process_changing_cause SELECTED
        # (execute_handlers_once then runs only the unfinished, awake ones of these: C02)
        self.selected: list[list[int]] = []
        orig_get = self.reg._changing.get_handlers

        def get_handlers(*a: Any, **kw: Any) -> Any:
            res = orig_get(*a, **kw)
            self.selected.append([h.param for h in res])
            return res
        self.reg._changing.get_handlers = get_handlers      # type: ignore[method-assign]

    def _mkfn(self, name: str) -> Any:
        calls = self.calls

        behav = next((d.get('behav', 'ok') for d in self.decls if d['fn'] == name), 'ok')
        kopf = self.env.kopf
        count = [0]

        async def fn(**kw: Any) -> None:
            calls.append({'fn': name, 'reg': kw['param'], 'reason': str(kw['reason']), 'body': copy.deepcopy(dict(kw['body']))})
            count[0] += 1
            if behav == 'perm':
                raise kopf.PermanentError('scripted permanent failure')
            if behav == 'flaky' and count[0] % 2 == 1:
                raise kopf.TemporaryError('scripted temporary failure', delay=0)
        fn.__name__ = name
        return fn



def run_pass(env: Env, R: Registry, memory_box: dict, ev: Any, obj: dict, carried: dict | None) -> dict:
    """One call of the real process_resource_causes. memory_box = {'memory': ResourceMemory|None, 'listing': bool}."""
    env.seen_causes.clear()
    env.seen_changing.clear()
    env.messages.clear()
    R.calls.clear()
    R.selected.clear()
    body = env.bodies.Body(obj)
    patch = env.patches.Patch(copy.deepcopy(carried) if carried else {}, body=body)
    settings = env.settings_by[memory_box.get('diffbase', 'annotations')]
    # the model's input "old is None": is a last-handled state FETCHED from the body (real storage, called by the harness)
    try:
        fetched_none: Any = settings.persistence.diffbase_storage.fetch(body=env.bodies.Body(copy.deepcopy(obj))) is None
    except (KeyError, TypeError, AttributeError, ValueError):
        fetched_none = None

    async def go() -> Any:
        if memory_box.get('memory') is None:
            memory_box['memory'] = env.inventory.ResourceMemory(noticed_by_listing=bool(memory_box.get('listing')))
        mem = memory_box['memory']
        memory_box['initial'] = bool(mem.noticed_by_listing and not mem.fully_handled_once)
        return await env.processing.process_resource_causes(
            lifecycle=env.lifecycles.all_at_once, indexers=env.indexers, registry=R.reg, settings=settings,
            resource=env.resource, raw_event={'type': ev, 'object': obj}, body=body, patch=patch, memory=mem,
            local_logger=env.logger, event_logger=env.logger, stream_pressure=None, operator_paused=None, consistency_time=None)
    loop = memory_box.setdefault('loop', None) or asyncio.new_event_loop()
    memory_box['loop'] = loop
    try:
        result = loop.run_until_complete(go())
        outcome = 'ok'
    except (KeyError, TypeError, AttributeError, ValueError) as e:
        result, outcome = None, canon.classify_exc(e)
    cause = env.seen_causes[0].changing_cause if env.seen_causes else None
    return {
        'outcome': outcome, 'result': result, 'patch': patch, 'cause': cause, 'fetched_none': fetched_none,
        'initial': memory_box.get('initial', False),
        'changing': list(env.seen_changing),
        'calls': copy.deepcopy(R.calls),
        'selected': list(R.selected[0]) if R.selected else [],
        'block': any('Adding the finalizer' in m for m in env.messages),
        'allow_early': any('as there are no handlers requiring it' in m for m in env.messages),
        'release': any('thus allowing the actual deletion' in m for m in env.messages),
        'n_block_fns': sum(1 for f in patch.fns if getattr(f, 'func', None) is env.finalizers.block_deletion),
        'n_allow_fns': sum(1 for f in patch.fns if getattr(f, 'func', None) is env.finalizers.allow_deletion),
    }


def run_event(env: Env, R: Registry, wbox: dict, ev: Any, obj: dict) -> dict:
    """One call of the real process_resource_event (memories.recall/forget, _detect_causes, process_resource_causes,
    process_changing_cause) with the API side recorded. wbox = {'memories': ResourceMemories, 'diffbase': ..., 'loop': ...}."""
    env.seen_causes.clear()
    env.seen_changing.clear()
    env.seen_memory.clear()
    env.messages.clear()
    env.applied.clear()
    R.calls.clear()
    R.selected.clear()
    settings = env.settings_by[wbox.get('diffbase', 'annotations')]
    try:
        fetched_none: Any = settings.persistence.diffbase_storage.fetch(body=env.bodies.Body(copy.deepcopy(obj))) is None
    except (KeyError, TypeError, AttributeError, ValueError):
        fetched_none = None

    async def go() -> Any:
        if wbox.get('memories') is None:
            wbox['memories'] = env.inventory.ResourceMemories()
        return await env.processing.process_resource_event(
            lifecycle=env.lifecycles.all_at_once, indexers=env.indexers, registry=R.reg, settings=settings,
            memories=wbox['memories'], memobase=env.ephemera.Memo(), resource=env.resource,
            raw_event={'type': ev, 'object': obj}, event_queue=asyncio.Queue(), no_throttling=True)
    env.application.apply = env.apply_recorder
    try:
        wbox['loop'].run_until_complete(go())
        outcome = 'ok'
    except (KeyError, TypeError, AttributeError, ValueError) as e:
        outcome = canon.classify_exc(e)
    finally:
        env.application.apply = env.real_apply
    cause = env.seen_causes[0].changing_cause if env.seen_causes else None
    mem_before = env.seen_memory[0] if env.seen_memory else None
    mems = list(wbox['memories'].iter_all_memories())
    applied = env.applied[0] if env.applied else None
    return {
        'outcome': outcome, 'cause': cause, 'fetched_none': fetched_none,
        'patch': applied['patch'] if applied else None, 'delays': applied['delays'] if applied else [],
        'initial': bool(mem_before and mem_before[0] and not mem_before[1]),
        'memory_before': mem_before,
        'memory_after': (bool(mems[0].noticed_by_listing), bool(mems[0].fully_handled_once)) if mems else None,
        'n_memories': len(mems),
        'changing': list(env.seen_changing),
        'calls': copy.deepcopy(R.calls),
        'selected': list(R.selected[0]) if R.selected else [],
        'done': any(' is processed: ' in m for m in env.messages),
        'block': any('Adding the finalizer' in m for m in env.messages),
        'allow_early': any('as there are no handlers requiring it' in m for m in env.messages),
        'release': any('thus allowing the actual deletion' in m for m in env.messages),
    }


def pass_case(env: Env, R: Registry, ev: Any, obj: dict, carried: dict | None, obs: dict, data: dict) -> list[tuple[str, fw.Case]]:
    """The Coq case of one pass: the cause returned by the real `_detect_causes` vs detect_body, AND the whole pass
    (cause handed on, handlers invoked, finalizer decisions) vs cycle. One term, so that the body is parsed once."""
    _PASS_COUNTER[0] += 1
    full = _PASS_COUNTER[0] % 8 == 0      # every 8th body is sent in full; the others as core_body (proved equivalent)
    try:
        mb = cbody(obj if full else core(obj))
    except cq.Unencodable:
        return []
    cause = obs['cause']
    old_none = cause is not None and bool(obs['fetched_none'])     # NOT cause.old: that is the code under test
    diff_empty = cause is not None and not cause.diff
    initial = obs['initial']
    fl = f'{cq.cbool(old_none)} {cq.cbool(diff_empty)} {cq.cbool(initial)}'
    info: dict[str, Any] = {'old_none': old_none, 'diff_empty': diff_empty, 'initial': initial, 'body_sent_in_full': full}
    t_detect = 'true'
    if cause is not None:
        got = (str(cause.reason), bool(cause.initial))
        t_detect = f'res_eqb cause_eqb (detect_body {cq.cstr(FIN)} {CEV[ev]} b {fl}) (Ok {ccause(*got)})'
        info['detected'] = got
    hdecls = []
    for h, key in zip(R.handlers, R.keys):
        if cause is not None:
            pm = bool(env.registries.prematch(handler=h, cause=cause))
            mt = bool(env.registries.match(handler=h, cause=cause))
        else:
            pm = mt = False
        hdecls.append(chdecl(key, h.reason, h.initial, h.deleted, h.requires_finalizer, pm, mt))
    consistent = not carried
    call = f'cycle {cq.cstr(FIN)} {CEV[ev]} b {fl} {cq.cbool(consistent)} {cq.clist(hdecls)}'
    if obs['outcome'] == 'ok':
        inv = [R.keys[i] for i in obs['selected']]         # registrations selected by process_changing_cause (param = index)
        if not set(c['reg'] for c in obs['calls']) <= set(obs['selected']):
            inv = inv + [999]                              # something ran that was not selected: force a mismatch
        ch = obs['changing']
        ccs = 'None' if not ch else f'(Some {ccause(*ch[0])})'
        t_cycle = (f'match {call} with Ok c => cycle_eqb c {ccs} {cq.clist(cq.cnat(k) for k in inv)} {cq.cbool(obs["block"])} '
                   f'{cq.cbool(obs["allow_early"])} | _ => false end')
        info.update({'selected': obs['selected'], 'invoked': [c['reg'] for c in obs['calls']], 'changing': ch, 'block': obs['block'],
                     'allow_early': obs['allow_early']})
    else:
        t_cycle = f'res_eqb (fun _ _ => true) ({call}) {canon.cres(obs["outcome"])}'
        info['outcome'] = obs['outcome']
    term = f'let b := {mb} in ({t_detect}) && ({t_cycle})'
    diag = f'let b := {mb} in (detect_body {cq.cstr(FIN)} {CEV[ev]} b {fl}, {call})'
    return [('pass', fw.Case(term, {**data, 'implementation': info}, diag=diag))]


def monitor_pass(ctx: fw.Ctx, R: Registry, ev: Any, obj: dict, obs: dict, data: dict, never_handled: bool, changed: bool,
                 first_sight: bool) -> None:
    """The property text, evaluated on one pass of the real reactor against the server-side object `obj`."""
    marked, held, gone = marked_for_deletion(obj), held_by_framework(obj), ev == 'DELETED'
    exp = spec_reason(gone, marked, held, never_handled, changed, first_sight)
    case = {**data, 'state': {'gone': gone, 'marked': marked, 'held': held, 'never_handled': never_handled, 'changed': changed,
                              'first_sight': first_sight}}
    ctx.count('expected_cause', exp)
    if obs['cause'] is not None and str(obs['cause'].reason) != exp:
        ctx.fail('event classified differently from the precedence list of the property', case,
                 observed=str(obs['cause'].reason), expected=exp, sig='precedence')
    if len(obs['changing']) > 1:
        ctx.fail('more than one cause handled for one event', case, observed=obs['changing'], sig='two-causes')
    once: set[int] = set()
    for c in obs['calls']:
        kinds = [R.decls[c['reg']]['kind']]          # the registration that was invoked
        inv = {**case, 'invocation': {'registration': c['reg'], 'kind': kinds[0], 'reason': c['reason']}}
        ctx.count('invocation', f"{'+'.join(sorted(set(k.split('-')[0] for k in kinds)))}@{c['reason']}")
        if c['reason'] != exp:
            ctx.fail('handler invoked with a reason other than the cause of the event', inv, observed=c['reason'], expected=exp,
                     sig='reason-kwarg')
        if exp in ('gone', 'free', 'noop'):
            ctx.fail(f'change handler invoked on a {exp} event', inv, observed=c['fn'], sig=f'invoked-on-{exp}')
        base = {k.split('-')[0] for k in kinds}
        if base <= {'create', 'update'} and marked:
            ctx.fail('creation/update handler invoked on an object marked for deletion', inv, observed=c['fn'],
                     sig='create-update-when-deleting')
        if base == {'delete'} and not (marked and held and not gone):
            ctx.fail('deletion handler invoked while the object is not (marked for deletion and held by the own finalizer)', inv,
                     observed=c['fn'], sig='delete-when-not-blocked')
        if base == {'create'} and c['reason'] != 'create' or base == {'update'} and c['reason'] != 'update' \
                or base == {'delete'} and c['reason'] != 'delete':
            ctx.fail('handler of one kind invoked for a cause of another kind', inv, observed=c['reason'], sig='kind-mismatch')
        if base == {'resume'} and not first_sight:
            ctx.fail('resume handler invoked although the object is not seen for the first time after start', inv,
                     observed=c['fn'], sig='resume-not-initial')
        if base == {'resume'} and exp == 'create':
            ctx.fail('resume handler mixed into the creation of a never-handled object', inv, observed=c['fn'], sig='resume-on-create')
        if base == {'resume'} and marked and not any(k == 'resume-deleted' for k in kinds):
            ctx.fail('resume handler without deleted=True invoked on an object marked for deletion', inv, observed=c['fn'],
                     sig='resume-when-deleting')
        key = R.keys[c['reg']]
        if key in once:
            ctx.fail('one handler (function, id) invoked twice for one event', inv, observed=c['fn'], sig='twice')
        once.add(key)


def gen_state(r: Any, G: g.Gen, env: Env, diffbase: str = 'annotations') -> tuple[dict, bool, bool, bool]:
    """A server-side object in one of the life-cycle states; (object, never_handled, changed since last handled, empty).
    The stored last-handled state is produced by the real diff-base storage from the object as it was when 'handled'.
    `empty`: an object with an EMPTY essence (no spec, no labels, no user annotations: only system metadata) whose
    stored last-handled state is therefore '{}' — present, but falsy in Python."""
    empty = r.random() < 0.2
    if empty:
        body: dict[str, Any] = {'apiVersion': 'kopf.dev/v1', 'kind': 'KopfExample',
                                'metadata': {'name': 'obj1', 'namespace': 'ns1', 'uid': f'uid-{r.randrange(100)}',
                                             'resourceVersion': str(r.randrange(1, 5000)), 'creationTimestamp': '2020-01-01T00:00:00Z'}}
        if r.random() < 0.3:
            body['status'] = {'observed': 1}
    else:
        body = G.body()
        md = body.setdefault('metadata', {})
        md.pop('finalizers', None)
        body.setdefault('spec', {})
        if not isinstance(body['spec'], dict):
            body['spec'] = {'x': body['spec']}
        if r.random() < 0.5:
            body['spec']['x'] = r.choice([1, 2, 'v'])
        if diffbase == 'status' and not isinstance(body.get('status', {}), dict):
            body.pop('status')
    hist = r.choice(['never', 'same', 'same', 'edited', 'edited', 'status-only'])
    never, changed = hist == 'never', False
    if not never:
        storage = env.settings_by[diffbase].persistence.diffbase_storage
        fields = {('spec', 'x')}
        essence = storage.build(body=env.bodies.Body(body), extra_fields=fields)
        p = env.patches.Patch({})
        storage.store(body=env.bodies.Body(body), patch=p, essence=essence)
        body = copy.deepcopy(canon.merge7386(body, copy.deepcopy(dict(p))))
        if hist == 'edited':
            which = r.randrange(3)
            if which == 0:
                body.setdefault('spec', {})['x'] = 'edited'
            elif which == 1:
                body.setdefault('spec', {})['added'] = {'k': 1}
            else:
                body['metadata'].setdefault('labels', {})['edited'] = 'yes'
            changed = True
        elif hist == 'status-only':
            body.setdefault('status', {})['observed'] = r.randrange(100)
            body['metadata']['resourceVersion'] = str(r.randrange(5000, 6000))
    md = body['metadata']
    k = r.randrange(10)
    if k < 5:
        md['finalizers'] = [FIN] if k < 3 else r.choice([['other/finalizer', FIN], [FIN, 'x']])
    elif k < 7:
        md['finalizers'] = r.choice([['other/finalizer'], [FIN + 'x'], ['x' + FIN, FIN[:-1]]])
    if r.random() < 0.35:
        md['deletionTimestamp'] = '2020-01-01T00:00:00Z'
    return body, never, changed, empty


def run_passes(ctx: fw.Ctx, env: Env, G: g.Gen, n: int, D: dict[str, list[fw.Case]]) -> None:
    r = ctx.rng
    for i in range(n):
        decls = gen_decls(r)
        R = Registry(env, decls)
        diffbase = 'status' if r.random() < 0.2 else 'annotations'
        obj, never, changed, empty = gen_state(r, G, env, diffbase)
        malformed = r.random() < 0.06
        if malformed:
            obj = gen_metadata_variant(r, G, obj)
        ev = r.choice([None, 'ADDED', 'MODIFIED', 'MODIFIED', 'MODIFIED', 'DELETED'])
        listing = ev is None or r.random() < 0.3
        box: dict[str, Any] = {'memory': None, 'listing': listing, 'loop': env_loop(env), 'diffbase': diffbase}
        handled_once = r.random() < 0.3

        carried = {'status': {'carried': 1}} if r.random() < 0.1 else None
        data = {'registry': decls, 'event': ev, 'object': obj, 'listing': listing, 'fully_handled_once': handled_once,
                'carried_patch': carried, 'diffbase': diffbase}
        if handled_once:
            box['memory'] = make_memory(env, box, listing, True)
        obs = run_pass(env, R, box, ev, copy.deepcopy(obj), carried)
        for name, case in pass_case(env, R, ev, obj, carried, obs, data):
            D[name].append(case)
        first_sight = listing and not handled_once
        ctx.count('pass_outcome', obs['outcome'])
        ctx.count('pass_decision', 'block' if obs['block'] else 'allow' if obs['allow_early'] else
                  ('handled:' + obs['changing'][0][0]) if obs['changing'] else 'nothing')
        ctx.count('stored_state', ('malformed' if malformed else 'none' if never else 'empty-essence' if empty else 'non-empty')
                  + ':' + diffbase)
        if not malformed and never != (not stored_state_present(obj, diffbase)):
            raise RuntimeError('generator: stored last-handled state is not where the harness expects it')
        if not malformed and obs['outcome'] == 'ok':
            monitor_pass(ctx, R, ev, obj, obs, data, never, changed, first_sight)
        if len({d['kind'] for d in decls}) >= 2 and (obs['changing'] or obs['block'] or obs['allow_early']):
            ctx.nontriv(['pass', decls, ev, never, changed, first_sight, marked_for_deletion(obj) if not malformed else None,
                         held_by_framework(obj) if not malformed else None])
        if i < 2:
            ctx.sample({'pass': {'registry': decls, 'event': ev, 'invoked': [c['fn'] + '@' + c['reason'] for c in obs['calls']]}})


_LOOP: dict[str, Any] = {}


def env_loop(env: Env) -> Any:
    if _LOOP.get('loop') is None or _LOOP['loop'].is_closed():
        _LOOP['loop'] = asyncio.new_event_loop()
    return _LOOP['loop']


def make_memory(env: Env, box: dict, listing: bool, handled_once: bool) -> Any:
    async def mk() -> Any:
        return env.inventory.ResourceMemory(noticed_by_listing=listing, fully_handled_once=handled_once)
    return box['loop'].run_until_complete(mk())


# --------------------------------------------------------------------------------------------
# Closed loop: a server-side object, the real reactor pass, its patch applied and echoed back
# --------------------------------------------------------------------------------------------

def user_essence(obj: dict) -> Any:
    md = obj.get('metadata', {})
    anns = {k: v for k, v in md.get('annotations', {}).items() if not k.startswith('kopf.zalando.org/')}
    return copy.deepcopy({'spec': obj.get('spec'), 'labels': md.get('labels', {}), 'annotations': anns})


def caobj(o: dict | None) -> str:
    if o is None:
        return 'None'
    last = 'None' if o['last'] is None else f"(Some {o['last']}%nat)"
    return (f"(Some (Build_aobj {o['ess']} {last} {cq.cbool(o['deleting'])} {cq.cbool(o['own'])} {cq.cbool(o['foreign'])}))")


def camem(m: Any) -> str:
    return 'None' if m is None else f'(Some (Build_amem {cq.cbool(m[0])} {cq.cbool(m[1])}))'


class Abstraction:
    """Server-side JSON object -> aobj of the closed-loop model. Essences are numbered per history; the current and the
    stored essence are computed by the REAL diff-base/progress storages (inputs of the model, C04's subject)."""

    def __init__(self, env: Env, R: 'Registry', diffbase: str) -> None:
        self.env, self.settings = env, env.settings_by[diffbase]
        self.ids: dict[str, int] = {}
        self.extra = R.reg._changing.get_extra_fields(resource=env.resource)

    def _id(self, essence: Any) -> int:
        import json as _json
        return self.ids.setdefault(_json.dumps(essence, sort_keys=True), len(self.ids))

    def __call__(self, obj: dict | None) -> dict | None:
        if obj is None:
            return None
        p = self.settings.persistence
        body = self.env.bodies.Body(copy.deepcopy(obj))
        new = p.progress_storage.clear(essence=p.diffbase_storage.build(body=body, extra_fields=self.extra))
        old = p.diffbase_storage.fetch(body=body)
        old = p.progress_storage.clear(essence=old) if old is not None else None
        fs = obj.get('metadata', {}).get('finalizers', [])
        return {'ess': self._id(new), 'last': None if old is None else self._id(old), 'deleting': marked_for_deletion(obj),
                'own': held_by_framework(obj), 'foreign': any(f != FIN for f in fs)}


def run_histories(ctx: fw.Ctx, env: Env, G: g.Gen, n: int, steps: int, D: dict[str, list[fw.Case]]) -> list[fw.Case]:
    """Closed loop through the real process_resource_event: one object on the harness's server, events carrying snapshots
    (sometimes stale), the recorded patch applied to the CURRENT object. Emits per pass the JSON-level case (pass_hist) and
    per history one label trace that the Gallina `replay` must accept with the observed object/memory/invocations (T-tie)."""
    r = ctx.rng
    worlds: list[fw.Case] = []
    for hi in range(n):
        decls = gen_decls(r)
        while not decls:
            decls = gen_decls(r)
        behav = {d['fn']: r.choice(['ok', 'ok', 'ok', 'ok', 'perm', 'flaky']) for d in decls}
        for d in decls:
            d['behav'] = behav[d['fn']]
        R = Registry(env, decls)
        diffbase = 'status' if r.random() < 0.2 else 'annotations'
        empty = r.random() < 0.3        # an object with an empty essence: only system metadata, no spec/labels/annotations
        obj: dict | None
        if empty:
            obj = {'apiVersion': 'kopf.dev/v1', 'kind': 'KopfExample',
                   'metadata': {'name': 'obj1', 'namespace': 'ns1', 'uid': f'uid-{hi}', 'resourceVersion': '1'}}
        else:
            obj = {'apiVersion': 'kopf.dev/v1', 'kind': 'KopfExample',
                   'metadata': {'name': 'obj1', 'namespace': 'ns1', 'uid': f'uid-{hi}', 'resourceVersion': '1',
                                'labels': G.labels()},
                   'spec': {'x': r.choice([1, 2]), 'other': G.obj(1)}}
        if r.random() < 0.3:
            obj['metadata']['finalizers'] = ['other/finalizer']
        rv = 1
        A = Abstraction(env, R, diffbase)
        wbox: dict[str, Any] = {'memories': None, 'loop': env_loop(env), 'diffbase': diffbase}
        handled_snapshot: Any = None       # user essence when the last-handled state was last written
        mem_exists = False                 # harness's own book-keeping of "this process knows the object"
        inc_listed = False
        completed_here = False
        pending: list[tuple] = []          # (event type, snapshot, handled_snapshot at delivery)
        trace: list[dict] = []
        labels: list[tuple[str, str]] = []   # (label term, observation term)
        w0 = f'(Build_world {caobj(A(obj))} None nil)'
        last_state: dict = copy.deepcopy(obj)

        def deliver(ev: Any) -> None:
            pending.append((ev, copy.deepcopy(obj if obj is not None else last_state), copy.deepcopy(handled_snapshot)))

        def settle() -> None:
            nonlocal obj, last_state
            if obj is not None:
                last_state = copy.deepcopy(obj)
                md = obj['metadata']
                if 'deletionTimestamp' in md and not md.get('finalizers'):
                    obj = None
                    deliver('DELETED')

        def mem_obs() -> Any:
            mems = list(wbox['memories'].iter_all_memories()) if wbox['memories'] is not None else []
            return (bool(mems[0].noticed_by_listing), bool(mems[0].fully_handled_once)) if mems else None

        deliver(None if r.random() < 0.3 else 'ADDED')
        ok_history = True
        for step in range(steps):
            if obj is None and not pending:
                break
            if not pending or (obj is not None and r.random() < 0.2):
                if obj is None:
                    break
                # ---- environment action (possibly while events are still queued: their snapshots become stale)
                acts = ['edit', 'edit', 'status', 'delete', 'restart', 'foreign-finalizer', 'label', 'drop-stored']
                if empty:       # keep the essence empty for a while: echo / relist / status first, then add a label or spec
                    acts = ['status', 'restart', 'restart', 'foreign-finalizer', 'label', 'edit', 'delete', 'drop-stored']
                act = r.choice(acts)
                md = obj['metadata']
                lab = None
                if act == 'edit':
                    obj.setdefault('spec', {})['x'] = r.choice([1, 2, 3, 'v'])
                elif act == 'label':
                    md.setdefault('labels', {})['l'] = r.choice(['a', 'b'])
                elif act == 'status':
                    obj.setdefault('status', {})['n'] = step
                elif act == 'foreign-finalizer':
                    fs = md.setdefault('finalizers', [])
                    if 'other/finalizer' in fs:
                        fs.remove('other/finalizer')
                    elif 'deletionTimestamp' not in md:
                        fs.append('other/finalizer')
                    if not fs:
                        del md['finalizers']
                    lab = f"EnvForeign {cq.cbool('other/finalizer' in md.get('finalizers', []))}"
                elif act == 'delete':
                    md['deletionTimestamp'] = '2020-01-01T00:00:00Z'
                    lab = 'EnvDelete'
                elif act == 'drop-stored':
                    if diffbase == 'status':
                        if isinstance(obj.get('status'), dict):
                            obj['status'].pop('kopf', None)
                    else:
                        anns = md.get('annotations', {})
                        for k in [k for k in anns if k.startswith(LAST)]:
                            del anns[k]
                        if 'annotations' in md and not anns:
                            del md['annotations']
                    lab = 'EnvDropStored'
                elif act == 'restart':
                    wbox['memories'] = None
                    mem_exists = False
                    lab = 'Restart'
                trace.append({'env': act})
                ctx.count('history_env_action', act)
                if act == 'restart':
                    labels.append((lab, f'({caobj(A(obj))}, None, nil)'))
                    deliver(None)
                    continue
                if lab is None:
                    lab = f"EnvEdit {A(obj)['ess']}"        # status-only edits leave the essence id unchanged
                rv += 1
                md['resourceVersion'] = str(rv)
                settle()
                labels.append((f'({lab})', f'({caobj(A(obj))}, {camem(mem_obs())}, nil)'))
                if obj is not None:
                    deliver('MODIFIED')
                continue
            # ---- the operator processes the next queued event
            ev, seen, hs_at_delivery = pending.pop(0)
            stale = obj is None or {k: v for k, v in seen.items()} != obj
            never = not stored_state_present(seen, diffbase)      # "never handled before" = NO last-handled state is stored
            changed = (not never) and user_essence(seen) != hs_at_delivery
            if not mem_exists:
                mem_exists, inc_listed, completed_here = True, ev is None, False
            first_sight = inc_listed and not completed_here
            data = {'registry': decls, 'event': ev, 'object': seen, 'history': copy.deepcopy(trace), 'listing': inc_listed,
                    'fully_handled_once': completed_here, 'carried_patch': None, 'diffbase': diffbase}
            obs = run_event(env, R, wbox, ev, copy.deepcopy(seen))
            for name, case in pass_case(env, R, ev, seen, None, obs, data):
                D[name + '_hist'].append(case)
            ctx.count('history_pass_stored_state', 'none' if never else 'empty-essence' if user_essence(seen) == {'spec': None, 'labels': {}, 'annotations': {}} and not changed else 'non-empty-or-changed')
            ctx.count('history_pass_snapshot', 'stale' if stale else 'fresh')
            if obs['outcome'] != 'ok':
                ctx.correspondence_break('history', {'detail': 'the reactor raised on a well-formed object', 'case': data,
                                                     'outcome': obs['outcome']})
                ok_history = False
                break
            monitor_pass(ctx, R, ev, seen, obs, data, never, changed, first_sight)
            reached = bool(obs['changing']) and obs['changing'][0][0] in ('create', 'update', 'delete', 'resume')
            ctx.count('history_pass_outcome', 'done' if obs['done'] else 'not-done' if obs['calls'] else
                      'skip' if reached else 'no-handling')
            ctx.count('history_pass_delays', 'none' if not obs['delays'] else 'some')
            trace.append({'event': ev, 'stale': stale, 'cause': None if obs['cause'] is None else str(obs['cause'].reason),
                          'invoked': [c['fn'] for c in obs['calls']], 'block': obs['block'], 'allow': obs['allow_early'],
                          'release': obs['release'], 'done': obs['done']})
            if reached and (obs['done'] or not obs['calls']):
                completed_here = True
            if ev == 'DELETED':
                mem_exists = False
            # ---- the label of this pass for the model
            cause = obs['cause']
            hdecls = []
            for h, key in zip(R.handlers, R.keys):
                pm = bool(env.registries.prematch(handler=h, cause=cause)) if cause is not None else False
                mt = bool(env.registries.match(handler=h, cause=cause)) if cause is not None else False
                hdecls.append(chdecl(key, h.reason, h.initial, h.deleted, h.requires_finalizer, pm, mt))
            snap_abs = A(seen)
            ran = [R.keys[c['reg']] for c in obs['calls']]
            lab = (f"(Proc {CEV[ev]} {caobj(snap_abs)[6:-1]} {cq.clist(hdecls)} true {cq.cbool(obs['done'])} "
                   f"{cq.cbool(not obs['delays'])} {cq.clist(f'{k}%nat' for k in ran)})")
            # ---- the server applies the recorded patch to the CURRENT object (merge-patch, then the finalizer functions)
            patch = obs['patch']
            if ev != 'DELETED' and patch is not None and obj is not None:
                newobj = copy.deepcopy(canon.merge7386(obj, copy.deepcopy(dict(patch))))
                for f in patch.fns:
                    f(newobj)
                newobj.setdefault('metadata', {})
                if patch_stores_state(dict(patch), diffbase):
                    handled_snapshot = user_essence(seen)
                if newobj != obj:
                    rv += 1
                    newobj['metadata']['resourceVersion'] = str(rv)
                    obj = newobj
                    settle()
                    if obj is not None:
                        deliver('MODIFIED')
            invs = cq.clist(f"({R.keys[c['reg']]}%nat, {CR[c['reason']]})" for c in obs['calls'])
            labels.append((lab, f'({caobj(A(obj))}, {camem(mem_obs())}, {invs})'))
        if ok_history and labels:
            steps_term = cq.clist(f'({l}, {o})' for l, o in labels)
            worlds.append(fw.Case(f'replay {w0} {steps_term}',
                                  {'registry': decls, 'diffbase': diffbase, 'trace': trace},
                                  diag=f'observe {w0} {cq.clist(l for l, _ in labels)}'))
        ctx.cov['traces_validated_against_impl'] += 1
        ctx.count('history_kind', ('empty-essence' if empty else 'non-empty') + ':' + diffbase)
        ctx.count('history_length', str(min(len(trace) // 5 * 5, 40)))
        if sum(1 for t in trace if t.get('invoked')) >= 2:
            ctx.nontriv(['history', decls, trace])
        if hi < 1:
            ctx.sample({'history': {'registry': [d['kind'] for d in decls], 'trace': trace[:12]}})
    return worlds


# --------------------------------------------------------------------------------------------

def seeded_corpus(ctx: fw.Ctx, env: Env, D: dict[str, list[fw.Case]]) -> None:
    """Hand-seeded dangerous cases, run first (corpus/C05/*.json hold the same in data form)."""
    import json as _json
    d = fw.ROOT / 'corpus' / 'C05'
    for path in sorted(d.glob('*.json')) if d.is_dir() else []:
        c = _json.loads(path.read_text())
        replay_case(ctx, env, c, D)


def replay_case(ctx: fw.Ctx, env: Env, c: dict, D: dict[str, list[fw.Case]] | None = None) -> None:
    R = Registry(env, c['registry'])
    listing = bool(c.get('listing'))
    box: dict[str, Any] = {'memory': None, 'listing': listing, 'loop': env_loop(env), 'diffbase': c.get('diffbase', 'annotations')}
    if c.get('fully_handled_once'):
        box['memory'] = make_memory(env, box, listing, True)
    obj = c['object']
    obs = run_pass(env, R, box, c['event'], copy.deepcopy(obj), c.get('carried_patch'))
    if D is not None:
        for name, case in pass_case(env, R, c['event'], obj, c.get('carried_patch'), obs, c):
            D[name].append(case)
    if obs['outcome'] == 'ok' and 'state' in c:
        s = c['state']
        monitor_pass(ctx, R, c['event'], obj, obs, {k: v for k, v in c.items() if k != 'state'}, s['never_handled'], s['changed'],
                     s['first_sight'])


def run(ctx: fw.Ctx) -> int:
    ctx.matchers = {}
    ctx.proofs()
    ok, logtxt = fw.build_models(['Model/Causes.v'])
    if not ok:
        ctx.correspondence_break('model build', logtxt[-1500:])
        return ctx.finish(RULE)
    env = Env()
    G = g.Gen(ctx.rng)
    D: dict[str, list[fw.Case]] = {k: [] for k in ('pass', 'pass_hist')}
    seeded_corpus(ctx, env, D)
    detect_cases = run_detect_table(ctx, env)
    select_cases = run_select_table(ctx, env)
    deco_cases = run_decorator_table(ctx, env)
    fin_cases = run_finalizers(ctx, env, G, ctx.scale(500, 6000))
    run_passes(ctx, env, G, ctx.scale(2000, 10000), D)
    world_cases = run_histories(ctx, env, G, ctx.scale(150, 600), ctx.scale(40, 60), D)
    if _LOOP.get('loop') is not None:
        _LOOP['loop'].close()
        _LOOP['loop'] = None
    ctx.differential('detect', HEADER, detect_cases, shard=200)
    ctx.differential('select', HEADER, select_cases, shard=800)
    ctx.differential('decorators', HEADER, deco_cases, shard=50)
    for name, cases in fin_cases.items():
        ctx.differential(name, HEADER, cases, shard=200)
    for name, cases in D.items():
        ctx.differential(name, HEADER, cases, shard=200)
    ctx.differential('world_trace', HEADER, world_cases, shard=20)
    ctx.cov['exhaustive'] = {'detect': len(detect_cases), 'select': len(select_cases), 'decorators': len(deco_cases)}
    return ctx.finish(RULE, level_note=[
        'registries.match / prematch (filters, callbacks) are oracle booleans of the model: their values are taken from '
        'the real functions on the real cause (C15 models them)',
        'old=None / diff-empty are inputs of the composition theorem, read from the real cause (C04 models the essence)',
        'observation points wrapped in the harness process: processing._detect_causes, processing.process_changing_cause, '
        'three debug log messages of process_resource_causes'])


def replay(ctx: fw.Ctx, body: dict) -> bool:
    env = Env()
    c = body.get('case') or {}
    if 'registry' in c and 'object' in c:
        replay_case(ctx, env, c)
        return bool(ctx.failures)
    if 'body' in c and 'diff' in c:
        b = c['body']
        old = None if c['old_none'] else {'spec': {'x': 1}}
        new = {'spec': {'x': 2}}
        diff = {'none': None, 'empty': env.diffs.Diff(()), 'changed': env.diffs.diff({'spec': {'x': 1}}, new)}[c['diff']]
        cause = env.causes.detect_changing_cause(
            finalizer=FIN, raw_event={'type': c['event'], 'object': b}, body=env.bodies.Body(b), old=old, new=new, diff=diff,
            initial=c['initial'], resource=env.resource, indices=env.indexers.indices, logger=env.logger,
            patch=env.patches.Patch({}), memo=env.ephemera.Memo())
        exp = spec_reason(c['event'] == 'DELETED', marked_for_deletion(b), held_by_framework(b), c['old_none'],
                          c['diff'] == 'changed', c['initial'])
        return str(cause.reason) != exp or (str(cause.reason) == 'create' and bool(cause.initial))
    print('C05: this replay file names a broken proof/correspondence only; re-run ./check C05 quick')
    return False
