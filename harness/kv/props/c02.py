"""C02 — recorded handler progress governs invocation (no re-run of finished handlers)."""
from __future__ import annotations

from kv import cycle_monitors as cm, cycle_runner as cr, cycle_sim as cs, framework as fw

RULE = cr.RULE_HISTORY
MONITORS = [cm.mon_c02]


def match_f6(f: dict) -> bool:
    """F6 (recorded under C08): records computed for a previous object of the same name landed on this one."""
    return f['sig'] in ('closed-with-records', 'closed-early', 'double-success') and bool(f['case'].get('orphan_records') or f['case'].get('f6_landing'))


def gen(r, i):
    return cs.gen_scenario(r, n_actions=12, daemons=False, weights={'recreate': 0.1, 'foreign_fin_add': 0.3, 'foreign_fin_del': 0.3})


def run(ctx: fw.Ctx) -> int:
    ctx.matchers = {'F6': match_f6}
    ctx.proofs(extra=['Props/C02History.v'])    # + history-level theorems over Model/CycleWorld.v (tied by C03's trace acceptance)
    function_level(ctx)
    cr.run_histories(ctx, ctx.scale(350, 8000), MONITORS, gen=gen)
    return ctx.finish(RULE, level_note=['closed loop: real kopf.operator() against harness/kv/fakeapi.py'])


def function_level(ctx: fw.Ctx) -> None:
    """Differential tie of the State/HandlerState algebra (added by the C02 model)."""
    try:
        from kv.props import c02_model
    except ImportError:
        ctx.correspondence_break('D:progress', 'harness/kv/props/c02_model.py is missing')
        return
    c02_model.differential(ctx)


def replay(ctx: fw.Ctx, body: dict) -> bool:
    ctx.matchers = {'F6': match_f6}
    if 'scenario' not in (body.get('case') or {}):     # a function-level failing input: the model module replays it
        try:
            from kv.props import c02_model
        except ImportError:
            print('replay file carries no scenario and there is no function-level layer')
            return False
        return c02_model.replay(ctx, body)
    return cr.replay_scenario(ctx, body, MONITORS)
