"""C09 — daemon/timer life-cycle: one instance, started on match, stopped in stages, never stalls.

Layers (DESIGN.md §8 C09):
  proofs   coq/Props/C09.v over coq/Model/Daemons.v
  S-tie    ast: no suspension point in spawn_daemons; none before the spawn in process_spawning_cause's else-branch;
           none before stop_daemons in match_daemons; `del daemons[handler.id]` inside _runner's `finally`, no await there
  D-ties   stopper   FlagSetter.set/is_set op sequences                     vs sp_set / is_set
           stage     REAL stop_daemons on one real Daemon, exhaustive table   vs stage
           linear    REAL stop_daemon on one real Daemon x reaction oracle    vs linear_stop
           timer     REAL _runner/_timer with the stopper set at each point   vs timer_tail
           history   REAL process_resource_event / daemon_killer in c09_world vs replay of the LTS (labels + snapshots)
  monitors the property text evaluated on the recorded enter/exit/flag/cancel timestamps of c09_world
"""
from __future__ import annotations

import ast
import asyncio
import inspect
import itertools
import json
import logging
import pathlib
import warnings
from typing import Any

from kv import c09_world as cw, coqio as cq, framework as fw, vloop

RULE = ('history = (1..3 daemon/timer handlers with temper x cancellation_backoff/timeout in {None,0,d} x timer config, '
        '1..2 objects, <= 14 timed actions: create/label toggle/edit/delete/strip finalizers/pause/resume/exit, incl. '
        'same-instant pairs); non-trivial iff >= 1 instance started and (>= 1 stop stage reached or >= 2 runs); distinct by '
        'canonical scenario. stage/linear/timer tables are enumerated, not sampled (thorough: completely).')

HEADER = fw.STD_HEADER + 'From KV Require Import Model.Daemons.\n'

RC = {'DONE': 'RDone', 'FILTERS_MISMATCH': 'RMismatch', 'RESOURCE_DELETED': 'RDeleted', 'OPERATOR_PAUSING': 'RPausing',
      'OPERATOR_EXITING': 'RExiting', 'DAEMON_SIGNALLED': 'RSignalled', 'DAEMON_CANCELLED': 'RCancelled',
      'DAEMON_ABANDONED': 'RAbandoned'}
QUIET_LOG = logging.getLogger('kv.c09')
QUIET_LOG.setLevel(logging.CRITICAL + 1)
QUIET_LOG.propagate = False
PRIMARY = ['FILTERS_MISMATCH', 'RESOURCE_DELETED', 'OPERATOR_PAUSING', 'OPERATOR_EXITING']


# ----------------------------------------------------------------------------------------- encoders
def c_oz(v: int | None) -> str:
    return 'None' if v is None else f'(Some {cq.cZ(v)})'


def c_reasons(names: list[str] | None) -> str:
    return 'None' if names is None else '(Some ' + cq.clist(RC[n] for n in names) + ')'


def c_stopper(when: int | None, reasons: list[str] | None, event: bool) -> str:
    return f'{{| sp_when := {c_oz(when)}; sp_reason := {c_reasons(reasons)}; sp_event := {cq.cbool(event)} |}}'


def c_hcfg(h: dict) -> str:
    kind = 'KDaemon' if h['kind'] == 'daemon' else 'KTimer'
    return (f"{{| h_kind := {kind}; h_backoff := {c_oz(h.get('backoff'))}; h_timeout := {c_oz(h.get('timeout'))}; "
            f"h_polling := {c_oz(h.get('polling'))} |}}")


def c_acts(acts: list[str]) -> str:
    # a set() without any reason (never done by the unchanged code) is encoded as an action the model never produces
    return cq.clist(a if a in ('AWait', 'ACancel', 'AWarn') else f'(ASet {RC[a]})' if a in RC else 'AWarn' for a in acts)


def stopper_state(sp: Any) -> tuple[int | None, list[str] | None, bool]:
    return (None if sp.when is None else cw.ms(sp.when), cw.reason_names(sp.reason), sp.sync_event.is_set())


# ----------------------------------------------------------------------------------------- S-tie (await skeleton)
SUSP = (ast.Await, ast.AsyncFor, ast.AsyncWith)


def _fn(mod: Any, name: str) -> ast.AsyncFunctionDef:
    tree = ast.parse(inspect.getsource(mod))
    for n in tree.body:
        if isinstance(n, ast.AsyncFunctionDef) and n.name == name:
            return n
    raise cw.ObservationPointMissing(f'{mod.__name__}.{name}')


def _susp_in(nodes: list[ast.AST]) -> list[str]:
    out = []
    for top in nodes:
        for n in ast.walk(top):
            if isinstance(n, SUSP):
                out.append(f'{type(n).__name__}@{getattr(n, "lineno", "?")}: {ast.unparse(n)[:70]}')
    return out


def s_tie(ctx: fw.Ctx) -> None:
    from kopf._core.engines import daemons
    from kopf._core.reactor import processing
    probs: list[str] = []
    # spawn_daemons: membership test -> create_task -> insertion, nothing suspends anywhere in the function
    f = _fn(daemons, 'spawn_daemons')
    s = _susp_in(f.body)
    if s:
        probs.append(f'spawn_daemons has suspension points: {s}')
    src = ast.unparse(f)
    for needle in ('handler.id not in daemons', 'daemons[handler.id] = daemon', 'asyncio.create_task(_runner('):
        if needle not in src:
            probs.append(f'spawn_daemons: marker statement {needle!r} not found')
    # _runner: self-removal inside finally, with no suspension point in the finally block
    f = _fn(daemons, '_runner')
    tries = [n for n in f.body if isinstance(n, ast.Try)]
    if len(tries) != 1 or not tries[0].finalbody:
        probs.append('_runner: expected exactly one try/finally')
    else:
        fin = tries[0].finalbody
        if _susp_in(fin):
            probs.append(f'_runner.finally has suspension points: {_susp_in(fin)}')
        fsrc = '\n'.join(ast.unparse(n) for n in fin)
        for needle in ('del daemons[handler.id]', 'if stopper.reason is None', 'memory.forever_stopped.add(handler.id)'):
            if needle not in fsrc:
                probs.append(f'_runner.finally: marker statement {needle!r} not found')
        if fsrc.find('memory.forever_stopped.add(handler.id)') > fsrc.find('del daemons[handler.id]') >= 0:
            probs.append('_runner.finally: forever_stopped is updated after the self-removal')
    # match_daemons: the mismatching set is computed from `daemons` with no suspension before stop_daemons
    f = _fn(daemons, 'match_daemons')
    aw = _susp_in(f.body)
    if len(aw) != 1 or 'stop_daemons' not in aw[0]:
        probs.append(f'match_daemons: expected the single suspension point `await stop_daemons`, found {aw}')
    # process_spawning_cause: order spawn -> match -> pause, and nothing suspends before spawn_daemons in the else-branch
    f = _fn(processing, 'process_spawning_cause')
    aw = _susp_in(f.body)
    names = [next((k for k in ('stop_daemons', 'spawn_daemons', 'match_daemons', 'pause_daemons') if k in a), '?') for a in aw]
    if names != ['stop_daemons', 'spawn_daemons', 'match_daemons', 'pause_daemons']:
        probs.append(f'process_spawning_cause: suspension points are {names}')
    # stop_daemons / stop_daemon: the awaits are the instant-exit waits and aiotasks.wait only
    for name, allowed in (('stop_daemons', ('_wait_for_instant_exit',)), ('stop_daemon', ('_wait_for_instant_exit', 'aiotasks.wait'))):
        for a in _susp_in(_fn(daemons, name).body):
            if not any(k in a for k in allowed):
                probs.append(f'{name}: unexpected suspension point {a}')
    ctx.count('s_tie', 'functions', 6)
    for p in probs:
        ctx.correspondence_break('S:await-skeleton', p)


# ----------------------------------------------------------------------------------------- small real fixtures
class Rig:
    """One VLoop + real settings + real handler objects made by the real decorators, for the function-level ties."""

    def __init__(self, spoll: int = 1000) -> None:
        import kopf
        self.kopf = kopf
        self.loop = vloop.new_loop()
        self.settings = kopf.OperatorSettings()
        self.settings.background.cancellation_polling = spoll / 1000.0
        self.spoll = spoll
        self._handlers: dict[str, Any] = {}
        self.cancels: list[Any] = []
        rig = self

        class T(asyncio.Task):  # type: ignore[type-arg]
            def cancel(self, msg: Any = None) -> bool:
                import sys
                if sys._getframe(1).f_code.co_filename.endswith('daemons.py'):
                    rig.cancels.append((self, cw.ms(rig.loop.time())))
                return super().cancel(msg)
        self.loop.set_task_factory(lambda loop, coro, **kw: T(coro, loop=loop, **kw))

    def handler(self, h: dict) -> Any:
        key = json.dumps(h, sort_keys=True)
        if key not in self._handlers:
            reg = self.kopf.OperatorRegistry()
            sec = lambda v: None if v is None else v / 1000.0

            async def fn(**_: Any) -> None:
                pass
            if h['kind'] == 'daemon':
                self.kopf.daemon('kv.dev', 'v1', 'things', id='h', registry=reg, cancellation_backoff=sec(h.get('backoff')),
                                 cancellation_timeout=sec(h.get('timeout')), cancellation_polling=sec(h.get('polling')))(fn)
            else:
                self.kopf.timer('kv.dev', 'v1', 'things', id='h', registry=reg, interval=1.0)(fn)
            self._handlers[key] = reg._spawning.get_all_handlers()[0]
        return self._handlers[key]

    def run(self, coro: Any) -> Any:
        t = self.loop.spawn(coro)
        self.loop.settle()
        return t

    def close(self) -> None:
        with warnings.catch_warnings():
            warnings.simplefilter('ignore')
            vloop.close_loop(self.loop)


# ----------------------------------------------------------------------------------------- D: stopper
def d_stopper(ctx: fw.Ctx) -> list[fw.Case]:
    from kopf._core.intents import stoppers
    R = stoppers.DaemonStoppingReason
    names = [None] + cw.REASONS
    cases = []
    rig = Rig()
    seqs: list[tuple] = []
    for n in range(0, 3):
        seqs += list(itertools.product(range(len(names)), repeat=n))
    extra = ctx.scale(150, 1500)
    for _ in range(extra):
        seqs.append(tuple(ctx.rng.randrange(len(names)) for _ in range(ctx.rng.randrange(3, 6))))
    with vloop.running(rig.loop):
        for seq in seqs:
            sp = stoppers.DaemonStopper()
            term = 'fresh_stopper'
            t0 = cw.ms(rig.loop.time())
            for k, i in enumerate(seq):
                rig.loop.advance_by(0.125)
                now = cw.ms(rig.loop.time())
                sp.set(reason=None if names[i] is None else getattr(R, names[i]))
                term = f'(sp_set {term} {"None" if names[i] is None else "(Some " + RC[names[i]] + ")"} {cq.cZ(now)})'
            when, reasons, ev = stopper_state(sp)
            queries = cq.clist(cq.cbool(sp.is_set(None if q is None else getattr(R, q))) for q in names)
            model_q = cq.clist(f'is_set {term} {"None" if q is None else "(Some " + RC[q] + ")"}' for q in names)
            cases.append(fw.Case(f'stopper_eqb {term} {c_stopper(when, reasons, ev)} && list_eqb Bool.eqb {model_q} {queries}',
                                 {'ops': [names[i] for i in seq], 'when': when, 'reasons': reasons}, diag=term))
            ctx.count('stopper_ops', str(len(seq)))
    rig.close()
    return cases


# ----------------------------------------------------------------------------------------- D: stage (stop_daemons)
def stage_table(ctx: fw.Ctx) -> list[dict]:
    cfgs = [{'kind': 'timer'}]
    for b in (None, 0, 2000):
        for t in (None, 0, 1000):
            for p in (None, 500):
                cfgs.append({'kind': 'daemon', 'backoff': b, 'timeout': t, 'polling': p})
    cfgs.append({'kind': 'daemon', 'backoff': 2000, 'timeout': 1000, 'polling': 0})   # `polling or settings`: 0 is falsy
    cfgs.append({'kind': 'daemon', 'backoff': None, 'timeout': None, 'polling': 0})
    ages = [0, 1000, 2000, 2500, 3000, 4000]
    out = []
    for h in cfgs:
        for why in ('RESOURCE_DELETED', 'FILTERS_MISMATCH', 'OPERATOR_PAUSING'):
            other = 'OPERATOR_EXITING' if why != 'OPERATOR_EXITING' else 'RESOURCE_DELETED'
            S, C, A = 'DAEMON_SIGNALLED', 'DAEMON_CANCELLED', 'DAEMON_ABANDONED'
            pres = [[why], [other], [why, S], [why, S, C], [why, S, C, A], [why, C], [other, S]]
            for done0 in (False, True):
                for k in (1, 2, None):
                    out.append({'h': h, 'why': why, 'pre': [], 'age': None, 'done0': done0, 'exit_at': k})
                    for pre in pres:
                        for age in ages:
                            out.append({'h': h, 'why': why, 'pre': pre, 'age': age, 'done0': done0, 'exit_at': k})
    return out


def run_stage_case(rig: Rig, c: dict) -> dict:
    from kopf._core.engines import daemons
    from kopf._core.intents import stoppers
    R = stoppers.DaemonStoppingReason
    loop = rig.loop
    go = asyncio.Event()

    async def body() -> None:            # deaf to cancellation: only the oracle (`go`) ends it
        while not go.is_set():
            try:
                await go.wait()
            except asyncio.CancelledError:
                pass
    task = loop.spawn(body())
    loop.settle()
    if c['done0']:
        go.set()
        loop.settle()
    sp = stoppers.DaemonStopper()
    for r in c['pre']:
        sp.set(reason=getattr(R, r))
    if c['age']:
        loop.advance_by(c['age'] / 1000.0)
    pre_state = stopper_state(sp)
    now = cw.ms(loop.time())
    handler = rig.handler(c['h'])
    daemon = daemons.Daemon(task=task, logger=QUIET_LOG, handler=handler, stopper=sp)
    acts: list[str] = []
    nwait = [0]
    real_wait = daemons._wait_for_instant_exit
    real_set = type(sp).set

    async def wait_wrapper(*, settings: Any, daemon: Any) -> None:
        if not daemon.task.done():
            nwait[0] += 1
            if c['exit_at'] is not None and nwait[0] == c['exit_at']:
                go.set()
        await real_wait(settings=settings, daemon=daemon)
        acts.append('AWait')

    def set_wrapper(self_: Any, reason: Any = None) -> None:
        real_set(self_, reason)
        if self_ is sp:
            acts.extend(cw.reason_names(reason) or ['?'])
    ncanc = len(rig.cancels)
    daemons._wait_for_instant_exit = wait_wrapper
    type(sp).set = set_wrapper  # type: ignore[method-assign]
    try:
        with warnings.catch_warnings(record=True) as wl:
            warnings.simplefilter('always')
            t = loop.spawn(daemons.stop_daemons(settings=rig.settings, daemons={'h': daemon},
                                                reason=getattr(R, c['why'])))
            loop.settle()
            delays = t.result()
            nwarn = sum(1 for x in wl if issubclass(x.category, ResourceWarning))
    finally:
        daemons._wait_for_instant_exit = real_wait
        type(sp).set = real_set  # type: ignore[method-assign]
    # interleave cancel / warn at the place the code performs them: cancel right after CANCELLED, warn right after ABANDONED
    cancelled = len(rig.cancels) > ncanc
    seq: list[str] = []
    for a in acts:
        seq.append(a)
        if a == 'DAEMON_CANCELLED' and cancelled:
            seq.append('ACancel')
        if a == 'DAEMON_ABANDONED' and nwarn:
            seq.append('AWarn')
    res = {'now': now, 'pre_state': pre_state, 'post_state': stopper_state(sp), 'delays': [cw.ms(d) for d in delays],
           'cancel': cancelled, 'acts': seq, 'done': task.done(), 'warn': nwarn}
    go.set()
    if not task.done():
        task.cancel()
    loop.settle()
    return res


def d_stage(ctx: fw.Ctx) -> list[fw.Case]:
    table = stage_table(ctx)
    total = len(table)
    if not ctx.thorough:
        keep = [c for c in table if not c['pre']]
        rest = [c for c in table if c['pre']]
        ctx.rng.shuffle(rest)
        table = keep + rest[:2600]
    ctx.cov['exhaustive_stage_table'] = {'size': total, 'evaluated': len(table)}
    rig = Rig(spoll=1000)
    cases = []
    with vloop.running(rig.loop), cw.quiet():
        for c in table:
            r = run_stage_case(rig, c)
            when, reasons, ev = r['pre_state']
            ex = ([False] * (c['exit_at'] - 1) + [True]) if c['exit_at'] else []
            h = c_hcfg(c['h'])
            call = (f"stage {h} {cq.cZ(rig.spoll)} {cq.cZ(r['now'])} {RC[c['why']]} {c_stopper(when, reasons, ev)} "
                    f"{cq.cbool(c['done0'])} {cq.clist(cq.cbool(b) for b in ex)}")
            pw, pr, pe = r['post_state']
            term = (f"(let r := {call} in stopper_eqb (r_sp r) {c_stopper(pw, pr, pe)} && zlist_eqb (r_delays r) "
                    f"{cq.clist(cq.cZ(d) for d in r['delays'])} && Bool.eqb (r_cancel r) {cq.cbool(r['cancel'])} && "
                    f"alist_eqb (r_acts r) {c_acts(r['acts'])} && Bool.eqb (r_done r) {cq.cbool(r['done'])})")
            cases.append(fw.Case(term, {**c, **{k: r[k] for k in ('now', 'delays', 'cancel', 'acts', 'done')},
                                        'post': r['post_state']}, diag=f'let r := {call} in (r_sp r, r_delays r, r_acts r, r_done r)'))
            # which branch of the modelled decision the implementation took (by its own effects)
            br = ('done' if r['done'] and not r['delays'] else 'abandon' if 'DAEMON_ABANDONED' in (pr or []) and not r['delays']
                  else 'cancel-stage' if 'DAEMON_CANCELLED' in (pr or []) else 'signal-stage' if 'DAEMON_SIGNALLED' in (pr or [])
                  else 'poll')
            ctx.count('stage_branch', br)
            # monitor: the staged order read directly off the implementation's effects
            age = 0 if when is None else r['now'] - when
            bo = c['h'].get('backoff') if c['h']['kind'] == 'daemon' else None
            to = c['h'].get('timeout') if c['h']['kind'] == 'daemon' else None
            data = {'table': 'stage', **c, 'now': r['now']}
            if c['why'] not in (pr or []):
                ctx.fail('stop_daemons left the stop reason unset', data, pr, c['why'], sig='reason-not-set')
            if r['cancel'] and (to is None or age < (bo or 0)):
                ctx.fail('task cancelled before the backoff elapsed or without a cancellation timeout', data,
                         {'age': age, 'acts': r['acts']}, {'backoff': bo, 'timeout': to}, sig='cancel-early')
            if 'DAEMON_ABANDONED' in r['acts'] and (to is None or age < (bo or 0) + to):
                ctx.fail('daemon abandoned before backoff+timeout elapsed or without a cancellation timeout', data,
                         {'age': age, 'acts': r['acts']}, {'backoff': bo, 'timeout': to}, sig='abandon-early')
            if not r['done'] and not r['delays'] and 'DAEMON_ABANDONED' not in (pr or []):
                ctx.fail('a daemon still running is neither re-checked later nor abandoned', data, r['delays'], sig='no-recheck')
            if (not r['done'] and not c['done0'] and to is not None and (bo or 0) <= age < (bo or 0) + to
                    and 'DAEMON_CANCELLED' not in (pr or [])):
                ctx.fail('no cancellation in the cancellation stage', data, pr, sig='cancel-missing')
    rig.close()
    return cases


# ----------------------------------------------------------------------------------------- D: linear (stop_daemon)
def linear_table(ctx: fw.Ctx) -> list[dict]:
    out = []
    cfgs = [{'kind': 'timer'}] + [{'kind': 'daemon', 'backoff': b, 'timeout': t, 'polling': None}
                                  for b in (None, 0, 2000) for t in (None, 0, 1000)]
    rxs = [(f, c) for f in (None, 0, 125, 1125, 2375, 3625) for c in (None, 0, 125, 625, 1375)]
    for h in cfgs:
        for why in ('OPERATOR_PAUSING', 'OPERATOR_EXITING'):
            for (f, c) in rxs:
                if c == 0 and h.get('timeout') == 0:
                    continue       # task end and wait(timeout=0) expiry in the same zero-time instant: scheduling-order race
                for pre_age in (None, 500):
                    out.append({'h': h, 'why': why, 'f': f, 'c': c, 'pre_age': pre_age})
    return out


def run_linear_case(rig: Rig, c: dict) -> dict:
    from kopf._core.engines import daemons
    from kopf._core.intents import stoppers
    R = stoppers.DaemonStoppingReason
    loop = rig.loop
    sp = stoppers.DaemonStopper()
    fin = asyncio.Event()
    f, cc = c['f'], c['c']
    trace: list[tuple[int, str]] = []

    async def flagwatch() -> None:
        await sp.async_event.wait()
        if f is not None:
            loop.call_at(sp.when + f / 1000.0, fin.set)

    async def body() -> None:
        while not fin.is_set():
            try:
                await fin.wait()
            except asyncio.CancelledError:
                if cc is not None:
                    loop.call_at(loop.time() + cc / 1000.0, fin.set)
    fw_task = loop.spawn(flagwatch())
    task = loop.spawn(body())
    loop.settle()
    if c['pre_age'] is not None:
        sp.set(reason=R.FILTERS_MISMATCH)
        loop.run_for(c['pre_age'] / 1000.0)
    pre_state = stopper_state(sp)
    t0 = cw.ms(loop.time())
    daemon = daemons.Daemon(task=task, logger=QUIET_LOG, handler=rig.handler(c['h']), stopper=sp)
    real_set = type(sp).set

    def set_wrapper(self_: Any, reason: Any = None) -> None:
        real_set(self_, reason)
        if self_ is sp:
            for n in cw.reason_names(reason) or ['?']:
                trace.append((cw.ms(loop.time()), n))
    ncanc = len(rig.cancels)
    type(sp).set = set_wrapper  # type: ignore[method-assign]
    try:
        with warnings.catch_warnings(record=True) as wl:
            warnings.simplefilter('always')
            t = loop.spawn(daemons.stop_daemon(settings=rig.settings, daemon=daemon, reason=getattr(R, c['why'])))
            ok = loop.run_until(t.done, loop.time() + 60)
            if not ok:
                raise vloop.Stall('stop_daemon did not return within 60 virtual seconds')
            t.result()
            nwarn = sum(1 for x in wl if issubclass(x.category, ResourceWarning))
    finally:
        type(sp).set = real_set  # type: ignore[method-assign]
    tend = cw.ms(loop.time())
    canc = [tt for (tk, tt) in rig.cancels[ncanc:] if tk is task]
    seq: list[tuple[int, str]] = []
    for (tt, a) in trace:
        seq.append((tt, a))
        if a == 'DAEMON_CANCELLED' and canc:
            seq.append((canc[0], 'ACancel'))
        if a == 'DAEMON_ABANDONED' and nwarn:
            seq.append((tt, 'AWarn'))
    res = {'t0': t0, 'pre_state': pre_state, 'post_state': stopper_state(sp), 'trace': seq, 'end': tend,
           'done': task.done(), 'cancel_at': canc[0] if canc else None}
    fin.set()
    fw_task.cancel()
    loop.settle()
    if not task.done():
        task.cancel()
        loop.settle()
    return res


def d_linear(ctx: fw.Ctx) -> list[fw.Case]:
    table = linear_table(ctx)
    total = len(table)
    if not ctx.thorough:
        ctx.rng.shuffle(table)
        table = table[:500]
    ctx.cov['exhaustive_linear_table'] = {'size': total, 'evaluated': len(table)}
    rig = Rig()
    cases = []
    with vloop.running(rig.loop), cw.quiet():
        for c in table:
            r = run_linear_case(rig, c)
            when, reasons, ev = r['pre_state']
            call = (f"linear_stop {c_hcfg(c['h'])} {RC[c['why']]} {c_stopper(when, reasons, ev)} {cq.cZ(r['t0'])} false "
                    f"{{| x_flag := {c_oz(c['f'])}; x_cancel := {c_oz(c['c'])} |}}")
            pw, pr, pe = r['post_state']
            tr = cq.clist(cq.cpair(cq.cZ(t), a if a in ('ACancel', 'AWarn') else f'ASet {RC[a]}' if a in RC else 'AWait')
                          for (t, a) in r['trace'])
            term = (f"(let r := {call} in stopper_eqb (l_sp r) {c_stopper(pw, pr, pe)} && talist_eqb (l_trace r) {tr} && "
                    f"(l_end r =? {cq.cZ(r['end'])}) && Bool.eqb (l_done r) {cq.cbool(r['done'])})")
            cases.append(fw.Case(term, {**c, **r}, diag=f'let r := {call} in (l_trace r, l_end r, l_done r)'))
            ctx.count('linear_outcome', 'abandoned' if 'DAEMON_ABANDONED' in (pr or []) else 'cancelled'
                      if r['cancel_at'] is not None else 'exited-on-flag')
            # monitor: stages in order and not early; bounded duration
            bo = c['h'].get('backoff') if c['h']['kind'] == 'daemon' else None
            to = c['h'].get('timeout') if c['h']['kind'] == 'daemon' else None
            data = {'table': 'linear', **c, 't0': r['t0']}
            flagged = pw if pw is not None else r['t0']
            if r['cancel_at'] is not None and (to is None or r['cancel_at'] - r['t0'] < (bo or 0)):
                ctx.fail('stop_daemon cancelled the task before the backoff elapsed or without a timeout', data,
                         r['trace'], {'backoff': bo, 'timeout': to}, sig='cancel-early')
            ab = [t for (t, a) in r['trace'] if a == 'DAEMON_ABANDONED']
            if ab and ab[0] - r['t0'] < (bo or 0) + (to or 0):
                ctx.fail('stop_daemon abandoned the daemon before backoff+timeout elapsed', data, r['trace'], sig='abandon-early')
            if r['end'] - r['t0'] > (bo or 0) + (to or 0):
                ctx.fail('stop_daemon took longer than backoff+timeout', data, r['end'] - r['t0'], (bo or 0) + (to or 0), sig='kstop-late')
            if not r['trace'] or r['trace'][0][1] != c['why'] or r['trace'][0][0] != r['t0']:
                ctx.fail('stop flag with its reason is not the first action of stop_daemon', data, r['trace'], sig='flag-not-first')
            if not r['done'] and not ab:
                ctx.fail('stop_daemon returned with the daemon neither ended nor abandoned', data, r['trace'], sig='no-recheck')
    rig.close()
    return cases


# ----------------------------------------------------------------------------------------- scenarios (histories)
def canon_h(h: dict) -> dict:
    return {k: h[k] for k in sorted(h)}


def gen_handler(r: Any, hid: str, force: str | None = None) -> dict:
    if force == 'timer' or (force is None and r.random() < 0.3):
        interval, idle = r.choice([(1000, None), (None, 1000), (1000, 2000), (None, None), (2000, None)])
        return {'id': hid, 'kind': 'timer', 'interval': interval, 'idle': idle, 'sharp': r.random() < 0.3, 'dur': 0,
                'initial_delay': r.choice([None, None, 500])}
    temper = r.choice(cw.TEMPERS)
    dur = {'own': r.choice([625, 1625, 3125]), 'obeys': r.choice([0, 0, 375, 2625]), 'cancel': r.choice([0, 0, 375]),
           'ignores': 0}[temper]
    return {'id': hid, 'kind': 'daemon', 'temper': temper, 'dur': dur, 'backoff': r.choice([None, 0, 2000]),
            'timeout': r.choice([None, 0, 1000]), 'polling': r.choice([None, None, 500])}


def gen_scenario(r: Any) -> dict:
    n = r.choice([1, 2, 2, 3])
    ids = ['a', 'b', 'c'][:n]
    hs = [gen_handler(r, i) for i in ids]
    uids = ['u0'] if r.random() < 0.7 else ['u0', 'u1']
    acts: list[dict] = []
    t = 0
    for uid in uids:
        acts.append({'t': t, 'op': 'create', 'uid': uid, 'match': sorted(i for i in ids if r.random() < 0.7)})
        if r.random() < 0.08:
            acts.append({'t': t, 'op': 'delete', 'uid': uid})       # gone before the finalizer lands
    m = r.randrange(2, 12)
    paused = False
    for _ in range(m):
        t += r.choice([0, 250, 500, 1000, 1000, 2000, 3000])
        uid = r.choice(uids)
        op = r.choices(['toggle', 'edit', 'delete', 'strip', 'pause', 'exit', 'force'], [6, 2, 3, 1, 2, 1, 1])[0]
        if op == 'toggle':
            acts.append({'t': t, 'op': 'toggle', 'uid': uid, 'id': r.choice(ids)})
        elif op == 'pause':
            paused = not paused
            if paused and r.random() < 0.5:
                # an event of an object is queued / in flight at the very moment of pausing: pause_daemons() of that cycle may
                # flag the daemons before the killer's first round reaches them
                acts.append({'t': t, 'op': r.choice(['edit', 'edit', 'toggle']), 'uid': uid, 'id': r.choice(ids)})
            acts.append({'t': t, 'op': 'pause' if paused else 'resume'})
            if paused and r.random() < 0.5:
                t += r.choice([4000, 6000])        # a long pause: nothing but the killer can escalate the stop
        elif op == 'exit':
            acts.append({'t': t, 'op': 'exit'})
            break
        elif op == 'force':
            # forced removal while the daemons are being stopped: deletion requested, then somebody empties metadata.finalizers
            # of the terminating object -> DELETED event WITH deletionTimestamp, and nothing more for this object
            acts.append({'t': t, 'op': 'delete', 'uid': uid})
            t += r.choice([0, 500, 500, 1500])
            acts.append({'t': t, 'op': 'strip', 'uid': uid})
        elif op == 'strip':
            acts.append({'t': t, 'op': 'strip', 'uid': uid})
            if r.random() < 0.6:
                acts.append({'t': t, 'op': 'delete', 'uid': uid})   # forced finalizer removal, then gone at once
        else:
            acts.append({'t': t, 'op': op, 'uid': uid})
    end = t + r.choice([1000, 4000, 8000])
    if not acts or acts[-1]['op'] != 'exit':
        acts.append({'t': end, 'op': 'exit'})
    return {'handlers': hs, 'polling': r.choice([1000, 1000, 500]), 'actions': acts, 'end': max(end, acts[-1]['t']) + 4000}


def run_scenario(sc: dict) -> cw.World:
    w = cw.World([dict(h) for h in sc['handlers']], polling=sc.get('polling', 1000) / 1000.0)
    w.exit_done = None  # type: ignore[attr-defined]
    w.exit_t = None  # type: ignore[attr-defined]
    try:
        with vloop.running(w.loop):
            for a in sc['actions']:
                if a['t'] > w.now():        # actions of the same instant happen back-to-back, before the operator reacts
                    w.run_to(a['t'])
                if a['op'] == 'pause':
                    w.pause(True)
                elif a['op'] == 'resume':
                    w.pause(False)
                elif a['op'] == 'exit':
                    w.exit_t = w.now()  # type: ignore[attr-defined]
                    w.exit_done = w.exit()  # type: ignore[attr-defined]
                else:
                    w.act({k: v for k, v in a.items() if k != 't'})
            w.run_to(max(sc['end'], w.now()))
            w.final_snaps = {uid: w.snapshot(uid) for uid in w.objects}  # type: ignore[attr-defined]
    finally:
        w.close()
    return w


def monitors(ctx: fw.Ctx, sc: dict, w: cw.World, report: Any = None) -> list[dict]:
    """The property text, evaluated on what the implementation did. Returns the failures (also sent to ctx.fail)."""
    fails: list[dict] = []
    specs = {h['id']: h for h in sc['handlers']}

    def fail(what: str, sig: str, detail: dict, observed: Any = None, expected: Any = None) -> None:
        case = {'scenario': sc, **detail}
        fails.append({'sig': sig, 'what': what, 'case': case, 'observed': observed})
        if report is None:
            ctx.fail(what, case, observed, expected, sig=sig)

    insts = list(w.instances.values())
    log = w.log
    INF = 10 ** 12
    # --- which memory was orphaned by which DELETED event
    orphaned: dict[str, dict] = {}
    for e in log:
        if e['kind'] == 'proc_begin' and e['type'] == 'DELETED':
            orphaned.setdefault(e['uid'], e)

    def orphan_info(i: dict, orph: dict | None, rs: set) -> dict:
        """How the instance relates to the disappearance of its object (for the narrow signatures of F7 / F702)."""
        if orph is None:
            return {'orphaned_by': None}
        return {'orphaned_by': _ev(orph), 'flagged': bool(rs & set(PRIMARY)),
                'running_when_object_disappeared': sseq[i['ser']] < orph['seq'] < eseq[i['ser']]}

    def first_flag(i: dict) -> int | None:
        s = [t for (t, r) in i.get('sets', []) if r != ['DONE']]
        return s[0] if s else None

    def reasons_at(i: dict, seq_limit: int | None = None) -> set[str]:
        out: set[str] = set()
        for e in log:
            if seq_limit is not None and e['seq'] > seq_limit:
                break
            if e['kind'] == 'set' and e['ser'] == i['ser']:
                out |= set(e['reason'] or [])
        return out

    close_seq = getattr(w, 'close_seq', INF)

    def ended_seq(i: dict) -> int:
        for e in log:
            if e['kind'] == 'end' and e['ser'] == i['ser']:
                return e['seq'] if e['seq'] <= close_seq else INF      # ended by the harness' clean-up: still running
        return INF

    def spawn_seq(i: dict) -> int:
        return next(e['seq'] for e in log if e['kind'] == 'spawn' and e['ser'] == i['ser'])
    eseq = {i['ser']: ended_seq(i) for i in insts}
    insts = [{**i, 'ended': i['ended'] if eseq[i['ser']] < INF else None} for i in insts]
    sseq = {i['ser']: spawn_seq(i) for i in insts}

    # --- M6: never stalls or crashes
    for s in w.stalls:
        h = specs.get(s.get('handler'))
        fail('a coroutine of the operator spins without yielding to the event loop (the whole operator is blocked)', 'stall',
             {'handler': h, 'stall': s}, observed=s)
    for c in w.crashes:
        fail('the stopping/spawning path raised', 'crash', {'crash': c}, observed=c)
    if w.killer_crash is not None:
        fail('daemon_killer (a root task of the operator) raised: the operator crashes while stopping daemons', 'killer-crash',
             {'crash': w.killer_crash}, observed=w.killer_crash)
    if getattr(w, 'exit_done', None) is False:
        fail('daemon_killer did not finish after the operator exit', 'exit-hang', {})

    # --- M1: at most one instance per (object, handler) at any time; M5: no restart after an exit on its own accord
    by_key: dict[tuple, list[dict]] = {}
    for i in insts:
        by_key.setdefault((i['uid'], i['id']), []).append(i)
    for key, lst in by_key.items():
        lst.sort(key=lambda i: i['ser'])
        for a, b in zip(lst, lst[1:]):
            if eseq[a['ser']] > sseq[b['ser']]:
                fail('two instances of the same daemon/timer for the same object run at the same time', 'overlap',
                     {'uid': key[0], 'id': key[1], 'first': a['ser'], 'second': b['ser']},
                     observed={'first': [a['spawned'], a['ended']], 'second': [b['spawned'], b['ended']]})
        for k, a in enumerate(lst):
            own = eseq[a['ser']] < INF and not [1 for (t, r) in a.get('sets', []) if r != ['DONE']] and not a.get('stalled')
            # exited while no stop reason was ever set => "on its own"
            if own and not any(e['kind'] == 'set' and e['ser'] == a['ser'] and e['reason'] != ['DONE'] for e in log):
                for b in lst[k + 1:]:
                    fail('a daemon that exited on its own accord was started again', 'restart-after-own-exit',
                         {'uid': key[0], 'id': key[1]}, observed={'exited': a['ended'], 'restarted': b['spawned']})
                    break

    # --- per processing cycle: M2 start on match, M3 stop on deletion mark / mismatch / pause / disappearance
    begins = {e['seq']: e for e in log if e['kind'] == 'proc_begin'}
    for e in log:
        if e['kind'] != 'proc_end' or e.get('error'):
            continue
        b = begins[e['begin']]
        uid = b['uid']
        live = [i for i in insts if i['uid'] == uid and sseq[i['ser']] < e['seq'] < eseq[i['ser']]]
        paused_stop = any(x['kind'] == 'stop_begin' and x.get('uid') == uid and x['reason'] == ['OPERATOR_PAUSING']
                          and b['seq'] < x['seq'] < e['seq'] for x in log)     # what pause_daemons saw
        paused_eff = b['paused'] or any(x['kind'] == 'stop_begin' and x.get('uid') == uid and x['reason'] == ['OPERATOR_PAUSING']
                                        and b['seq'] < x['seq'] < e['seq'] for x in log)
        b = {**b, 'paused': paused_eff}
        ev = {'type': b['type'], 'deletionTimestamp': b['deleting'], 't': b['t'], 'matching': b['matching'], 'paused': b['paused']}
        if b['type'] == 'DELETED':
            for i in live:
                if not (reasons_at(i, e['seq']) & set(PRIMARY)):
                    fail('the object disappeared (DELETED) but its daemon/timer was not asked to stop', 'not-stopped-on-disappear',
                         {'event': ev, 'uid': uid, 'id': i['id']}, observed={'reasons': sorted(reasons_at(i, e['seq']))})
            for i in insts:
                if i['uid'] == uid and b['seq'] < sseq[i['ser']] < e['seq']:
                    fail('a daemon/timer was started while processing the DELETED event of its object', 'spawned-on-disappear',
                         {'event': ev, 'uid': uid, 'id': i['id']})
            continue
        if b['deleting']:
            for i in live:
                if 'RESOURCE_DELETED' not in reasons_at(i, e['seq']):
                    fail('object marked for deletion but a running daemon/timer was not asked to stop', 'not-stopped-on-delete',
                         {'event': ev, 'uid': uid, 'id': i['id']}, observed=sorted(reasons_at(i, e['seq'])))
            for i in insts:
                if i['uid'] == uid and b['seq'] < sseq[i['ser']] < e['seq']:
                    fail('a daemon/timer was started for an object marked for deletion', 'spawned-on-delete', {'event': ev, 'id': i['id']})
            continue
        own_exited = {i['id'] for i in insts if i['uid'] == uid and eseq[i['ser']] < e['seq']
                      and not any(x['kind'] == 'set' and x['ser'] == i['ser'] and x['reason'] != ['DONE'] for x in log)
                      and not i.get('stalled')}
        exiting = any(x['kind'] == 'act' and x.get('op') == 'exit' and x['seq'] < e['seq'] for x in log)
        for hid in b['matching']:
            if hid in specs and hid not in own_exited and not b['paused'] and not exiting:
                if not any(i['id'] == hid for i in live):
                    fail('the object matches a daemon/timer but no instance runs after the event was processed', 'not-started',
                         {'event': ev, 'uid': uid, 'id': hid})
        for i in live:
            if i['id'] not in b['matching'] and 'FILTERS_MISMATCH' not in reasons_at(i, e['seq']):
                fail('the object stopped matching but the running daemon/timer was not asked to stop', 'not-stopped-on-mismatch',
                     {'event': ev, 'uid': uid, 'id': i['id']}, observed=sorted(reasons_at(i, e['seq'])))
            if paused_stop and 'OPERATOR_PAUSING' not in reasons_at(i, e['seq']):
                fail('the operator is paused but a daemon/timer (re)started by an event was not asked to stop', 'not-stopped-on-pause',
                     {'event': ev, 'uid': uid, 'id': i['id']}, observed=sorted(reasons_at(i, e['seq'])))
            if i['id'] in own_exited and sseq[i['ser']] > b['seq']:
                pass  # reported by restart-after-own-exit

    # --- pause / exit through the daemon killer
    t_end = w.now()
    pauses = [(e['t'], e['seq']) for e in log if e['kind'] == 'act' and e.get('op') == 'pause']
    for (tp, sq) in pauses:
        if w.killer_crash is not None:
            break               # the operator is dead from that moment on; reported above
        nxt = [e for e in log if e['seq'] > sq and e['kind'] == 'act' and e.get('op') in ('resume', 'exit')]
        t_until = nxt[0]['t'] if nxt else t_end
        sq_until = nxt[0]['seq'] if nxt else INF
        for i in insts:
            if sseq[i['ser']] < sq_until < eseq[i['ser']] and t_until - max(tp, i['spawned']) >= 1250:
                rs = reasons_at(i, sq_until if sq_until < INF else None)
                if 'OPERATOR_PAUSING' not in rs and 'DAEMON_ABANDONED' not in rs:      # neither reached by the pause nor given up
                    orph = orphaned.get(i['uid'])
                    is_orph = orph is not None and orph['seq'] < sq_until
                    fail('the operator has been paused for more than a second but a running daemon/timer was not reached by the pause',
                         'orphan-not-stopped' if is_orph else 'not-stopped-on-pause',
                         {'uid': i['uid'], 'id': i['id'], 'paused_at': tp, **orphan_info(i, orph if is_orph else None, rs)})
    # while paused the streams are frozen: the killer's in-memory stop_daemon is the only thing that escalates the stop.
    # A daemon running at x = max(pause, spawn) is picked by a round at most 1 s later; then cancel after the backoff, give up
    # after the timeout (C09_killer_pass_reaches_all + C09_linear_staged + C09_linear_stop_bounded).
    for (tp, sq) in pauses:
        if w.killer_crash is not None:
            break
        nxt = [e for e in log if e['seq'] > sq and e['kind'] == 'act' and e.get('op') in ('resume', 'exit')]
        t_until = nxt[0]['t'] if nxt else t_end
        sq_until = nxt[0]['seq'] if nxt else INF
        for i in insts:
            h = specs[i['id']]
            if h['kind'] != 'daemon' or h.get('timeout') is None or not (sseq[i['ser']] < sq_until):
                continue
            orph = orphaned.get(i['uid'])
            if orph is not None and orph['seq'] < sq_until:
                continue                    # not reachable by the killer: reported by orphan-not-stopped (F7 / F702)
            bo, to = h.get('backoff') or 0, h['timeout']
            x = max(tp, i['spawned'])
            det = {'uid': i['uid'], 'id': i['id'], 'handler': h, 'during_pause': [tp, t_until], 'orphaned_by': None}
            due = x + 1000 + bo
            alive = lambda t: eseq[i['ser']] == INF or (i['ended'] is not None and i['ended'] > t)   # noqa: E731
            if to > 0 and alive(due) and t_until >= due + 250 and not any(tc <= due for tc in i.get('cancels', [])):
                fail('paused: a running daemon was not cancelled within a killer round + its backoff', 'cancel-late', det,
                     observed={'paused': tp, 'spawned': i['spawned'], 'cancels': i.get('cancels', []), 'reasons': sorted(reasons_at(i, sq_until if sq_until < INF else None))},
                     expected={'cancel_by': due})
            due2 = x + 1000 + bo + to
            ab = [e['t'] for e in log if e['kind'] == 'set' and e['ser'] == i['ser'] and e['reason'] == ['DAEMON_ABANDONED']]
            if alive(due2) and t_until >= due2 + 250 and not any(t <= due2 for t in ab):
                fail('paused: a daemon still running after a killer round + backoff + timeout was not given up', 'abandon-late', det,
                     observed={'paused': tp, 'spawned': i['spawned'], 'abandoned': ab}, expected={'abandon_by': due2})
    exits = [e['seq'] for e in log if e['kind'] == 'act' and e.get('op') == 'exit']
    if getattr(w, 'exit_done', None) and w.killer_crash is None and exits:
        for i in insts:
            rs = reasons_at(i)
            if i['ended'] is None and sseq[i['ser']] < exits[0] and 'OPERATOR_EXITING' not in rs and 'DAEMON_ABANDONED' not in rs:
                orph = orphaned.get(i['uid'])
                fail('the operator exited but a running daemon/timer was not reached by the exit (still running, not given up)',
                     'orphan-not-stopped' if orph is not None else 'not-stopped-on-exit',
                     {'uid': i['uid'], 'id': i['id'], **orphan_info(i, orph, rs)})

    # --- M4: stages in order and not early (every instance)
    for i in insts:
        h = specs[i['id']]
        bo = h.get('backoff') if h['kind'] == 'daemon' else None
        to = h.get('timeout') if h['kind'] == 'daemon' else None
        tf = first_flag(i)
        det = {'uid': i['uid'], 'id': i['id'], 'handler': h}
        for tc in i.get('cancels', []):
            if tf is None or to is None or tc - tf < (bo or 0):
                fail('task cancelled before the stop flag, before the backoff elapsed, or without a cancellation timeout',
                     'cancel-early', det, observed={'flag': tf, 'cancel': tc}, expected={'backoff': bo, 'timeout': to})
        for e in log:
            if e['kind'] == 'set' and e['ser'] == i['ser'] and e['reason'] == ['DAEMON_ABANDONED']:
                need = (bo or 0) + (to or 0)
                if tf is None or e['t'] - tf < need or (e['by'] == 'stop_daemons' and to is None):
                    fail('daemon abandoned before backoff+timeout elapsed (or, on deletion, without a cancellation timeout)',
                         'abandon-early', det, observed={'flag': tf, 'abandoned': e['t'], 'by': e['by']})
            if e['kind'] == 'flag_seen' and e['ser'] == i['ser'] and not e['reasons']:
                fail('the daemon saw its stop flag raised without any reason', 'flag-without-reason', det)
            if e['kind'] == 'set' and e['ser'] == i['ser'] and e['reason'] in (['DAEMON_SIGNALLED'], ['DAEMON_CANCELLED']) \
                    and not (reasons_at(i, e['seq'] - 1) & set(PRIMARY)):
                fail('a stage of the termination was entered before the stop flag carried a reason', 'stage-before-flag', det)
        # liveness of the deletion path: cancellation when the backoff has elapsed, abandonment when the timeout has elapsed too,
        # both measured from the stop flag (the world honours the delays returned by the operator exactly, as long as it can)
        if tf is not None and to is not None and h['kind'] == 'daemon' and w.killer_crash is None:
            del_sets = [t for (t, r) in i.get('sets', []) if r == ['RESOURCE_DELETED']]
            if del_sets and del_sets[0] == tf:
                orph = orphaned.get(i['uid'])
                oi = orphan_info(i, orph, reasons_at(i))
                due = tf + (bo or 0)
                alive_then = i['ended'] is None or i['ended'] > due

                def frozen(t0: int, t1: int) -> bool:
                    """the operator was paused at some moment of [t0, t1]: no cycles then (the killer escalates: checked above)"""
                    for (tp_, sq_) in pauses:
                        nx = [x for x in log if x['seq'] > sq_ and x['kind'] == 'act' and x.get('op') in ('resume', 'exit')]
                        tu = nx[0]['t'] if nx else t_end
                        if tp_ <= t1 and tu >= t0:
                            return True
                    return False
                if to > 0 and alive_then and t_end > due + 500 and not frozen(tf, due) and not any(tc <= due for tc in i.get('cancels', [])):
                    fail('deletion: the task was not cancelled when the backoff had elapsed', 'cancel-late', {**det, **oi},
                         observed={'flag': tf, 'cancels': i.get('cancels', []), 'ended': i['ended']}, expected={'cancel_at': due})
                due2 = tf + (bo or 0) + to
                alive2 = i['ended'] is None or i['ended'] > due2
                ab = [e['t'] for e in log if e['kind'] == 'set' and e['ser'] == i['ser'] and e['reason'] == ['DAEMON_ABANDONED']]
                if alive2 and t_end > due2 + 500 and not frozen(tf, due2) and not any(t <= due2 for t in ab):
                    fail('deletion: the daemon still runs after backoff+timeout and was not given up (abandoned)', 'abandon-late',
                         {**det, **oi}, observed={'flag': tf, 'abandoned': ab, 'ended': i['ended']}, expected={'abandon_at': due2})
    # --- M7: each stop_daemon of the killer is bounded by backoff+timeout
    kb = {e['seq']: e for e in log if e['kind'] == 'kstop_begin'}
    for e in log:
        if e['kind'] == 'kstop_end' and not e.get('cancelled') and e['ser'] is not None:
            i = w.instances[e['ser']]
            h = specs[i['id']]
            lim = ((h.get('backoff') or 0) + (h.get('timeout') or 0)) if h['kind'] == 'daemon' else 0
            if e['t'] - kb[e['begin']]['t'] > lim:
                fail('stop_daemon took longer than backoff+timeout', 'kstop-late', {'id': i['id'], 'handler': h},
                     observed=e['t'] - kb[e['begin']]['t'], expected=lim)
    return fails


def _ev(e: dict | None) -> dict | None:
    return None if e is None else {'type': e['type'], 'deletionTimestamp': e['deleting'], 't': e['t']}


# ----------------------------------------------------------------------------------------- history -> labels for the LTS
def history_cases(ctx: fw.Ctx, sc: dict, w: cw.World) -> list[fw.Case]:
    order = [h['id'] for h in sc['handlers']]
    idx = {hid: k for k, hid in enumerate(order)}
    specs = {h['id']: h for h in sc['handlers']}
    spoll = sc.get('polling', 1000)
    log = w.log
    cases = []
    for uid in w.objects:
        labels: list[str] = []
        data: list[Any] = []
        st: dict = {'pending': False}
        k = 0
        ok = True
        while k < len(log) and ok:
            e = log[k]
            if e['kind'] == 'spc_begin' and e['uid'] == uid:
                j = next((j for j in range(k + 1, len(log)) if log[j]['kind'] == 'spc_end' and log[j]['begin'] == e['seq']), None)
                if j is None or log[j].get('error'):
                    break           # stalled or crashed inside: reported by the monitors
                seg = [x for x in log[k:j + 1] if x.get('uid') == uid
                       or (x.get('ser') in w.instances and w.instances[x['ser']]['uid'] == uid)]
                pb = next(x for x in reversed(log[:k]) if x['kind'] == 'proc_begin' and x['uid'] == uid)
                ends_in = [x for x in seg if x['kind'] == 'end']
                consumed: set[int] = set()
                orc: list[str] = []
                sb = [x for x in seg if x['kind'] == 'stop_begin']
                for b in sb:
                    se = next(x for x in seg if x['kind'] == 'stop_end' and x['begin'] == b['seq'])
                    inner = [x for x in seg if b['seq'] < x['seq'] < se['seq']]
                    sers = b['sers']
                    for pos, ser in enumerate(sers):
                        mine = [x for x in inner if x.get('ser') == ser and x['kind'] in ('set', 'wait')
                                and not (x['kind'] == 'set' and x.get('by') == '_runner')]
                        later = [x for x in inner if x.get('ser') in sers[pos + 1:] and x['kind'] in ('set', 'wait')
                                 and not (x['kind'] == 'set' and x.get('by') == '_runner')]
                        limit = mine[0]['seq'] if mine else (later[0]['seq'] if later else se['seq'])
                        d0 = any(x['ser'] == ser and x['seq'] < limit for x in ends_in)
                        waits = [x for x in mine if x['kind'] == 'wait' and not x['before']]
                        ex = [x['after'] for x in waits]
                        if d0 or any(ex):
                            consumed.add(ser)
                        orc.append(cq.cpair(cq.cbool(d0), cq.clist(cq.cbool(x) for x in ex)))
                matching = [hid for hid in order if hid in pb['matching']]
                # what pause_daemons saw (the toggle may flip while the call is suspended in an instant-exit wait)
                paused_seen = any(x['reason'] == ['OPERATOR_PAUSING'] for x in sb)
                view = (f"{{| v_matching := {cq.clist(cq.cpair(cq.cnat(idx[h]), c_hcfg(specs[h])) for h in matching)}; "
                        f"v_deleting := {cq.cbool(pb['deleting'])}; v_paused := {cq.cbool(paused_seen)} |}}")
                lab = f"LProc {cq.cbool(pb['type'] == 'DELETED')} {view} {cq.cZ(e['t'])} {cq.clist(orc)}"
                trailing = [x for x in ends_in if x['ser'] not in consumed]
                # what the killer did to this object's daemons in the middle of the call: replayed right after it
                deferred: list[tuple[str, Any]] = []
                for x in log[k:j + 1]:
                    if x['kind'] != 'end':
                        deferred += _other_labels(ctx, w, uid, idx, x, st)
                snap = log[j]['snap']
                sn = ('{| n_running := ' + cq.clist(
                    cq.cpair(cq.cnat(idx[r['id']]), cq.cpair(cq.cnat(_local_ser(w, uid, r['ser'])),
                             cq.cpair(c_reasons(r['reasons']), c_oz(r['when'])))) for r in snap['running'])
                    + f"; n_forever := {cq.clist(cq.cnat(idx[i]) for i in snap['forever'])}; "
                    + f"n_delays := Some {cq.clist(cq.cZ(d) for d in log[j]['delays'])} |}}")
                if any(x['seq'] < b_['seq'] for x in trailing for b_ in sb):
                    # a task ended (not as the answer to a wait of its own turn) between the match and pause phases of one
                    # call: the model's LProc has no label point there; validated up to here only
                    ctx.count('history', 'truncated: task ended between the phases of one process_spawning_cause')
                    break
                if any(not l_.startswith('LKEnter') for (l_, _) in deferred):
                    # the killer's stop_daemon ran interleaved with this call (same virtual instant): the atomic LProc of the
                    # model cannot replay that order; the history is validated up to here, the monitors still see all of it
                    ctx.count('history', 'truncated: killer interleaved with process_spawning_cause')
                    break
                group = [lab] + [f"LEnd {cq.cnat(idx[x['id']])} {cq.cnat(_local_ser(w, uid, x['ser']))}" for x in trailing] \
                    + [l_ for (l_, _) in deferred]
                for g in group[:-1]:
                    labels.append(cq.cpair(g, 'None'))
                labels.append(cq.cpair(group[-1], f'(Some {sn})'))
                data.append({'LProc': 1, 'after': [x['id'] for x in trailing] + [d_ for (_, d_) in deferred], 't': e['t'], 'event': pb['type'], 'deleting': pb['deleting'], 'matching': matching,
                             'paused': paused_seen, 'snap': snap, 'delays': log[j]['delays']})
                ctx.count('label', 'LProc')
                k = j + 1
                continue
            for lab_, d_ in _other_labels(ctx, w, uid, idx, e, st):
                labels.append(cq.cpair(lab_, 'None'))
                data.append(d_)
            k += 1
        if labels:
            term = f"history_ok {cq.cZ(spoll)} {cq.clist(labels)}"
            cases.append(fw.Case(term, {'scenario': sc, 'uid': uid, 'labels': data},
                                 diag=f"replay {cq.cZ(spoll)} init {cq.clist(labels)} 0"))
            ctx.cov['traces_validated_against_impl'] += 1
    return cases


def _other_labels(ctx: fw.Ctx, w: cw.World, uid: str, idx: dict, e: dict, st: dict) -> list[tuple[str, Any]]:
    """Labels of the LTS for one log entry outside (or deferred from inside) a process_spawning_cause call.
    `st['pending']`: this memory is in the killer's list of memories and its daemons have not been snapshotted yet."""
    out: list[tuple[str, Any]] = []
    if e['kind'] == 'kenter' and e.get('uid') == uid:
        out.append(('LKEnter', {'t': e['t'], 'kenter': uid}))
        st['pending'] = True
        ctx.count('label', 'LKEnter')
    ser = e.get('ser')
    if ser is not None and ser in w.instances and w.instances[ser]['uid'] == uid:
        i = w.instances[ser]
        ls = _local_ser(w, uid, ser)
        hid = cq.cnat(idx[i['id']])
        if e['kind'] == 'ksweep':
            # the first stop_daemon(...) created after the memory was listed follows `list(memory.running_daemons.values())`
            # with no suspension point in between: that is where the snapshot of the daemons was taken
            if st.get('pending'):
                out.append(('LKSnap', {'t': e['t'], 'ksnap': uid}))
                st['pending'] = False
                ctx.count('label', 'LKSnap')
        elif e['kind'] == 'end':
            out.append((f"LEnd {hid} {cq.cnat(ls)}", {'t': e['t'], 'end': i['id']}))
            ctx.count('label', 'LEnd')
        elif e['kind'] == 'set' and e.get('by') == 'stop_daemon':
            r = e['reason'][0]
            if r in ('OPERATOR_PAUSING', 'OPERATOR_EXITING'):
                out.append((f"LKStart {hid} {cq.cnat(ls)} {RC[r]} {cq.cZ(e['t'])}", {'t': e['t'], 'kstart': [i['id'], r]}))
                ctx.count('label', 'LKStart')
            else:
                out.append((f"LKSet {hid} {cq.cnat(ls)} {RC[r]} {cq.cZ(e['t'])}", {'t': e['t'], 'kset': [i['id'], r]}))
                ctx.count('label', 'LKSet')
        elif e['kind'] == 'cancel' and e.get('by') == 'stop_daemon':
            out.append((f"LKCancel {hid} {cq.cnat(ls)}", {'t': e['t'], 'kcancel': i['id']}))
            ctx.count('label', 'LKCancel')
    return out


def _local_ser(w: cw.World, uid: str, ser: int) -> int:
    """Serial numbers are per memory in the model: rank of this instance among the instances of its object."""
    return sum(1 for i in w.instances.values() if i['uid'] == uid and i['ser'] < ser)


# ----------------------------------------------------------------------------------------- D: _timer under a set stopper
def run_timer_case(c: dict) -> tuple | None:
    """One row of the timer table on the real _runner/_timer: set the stopper at the given program point."""
    h = {'id': 't', 'kind': 'timer', 'interval': c['interval'], 'idle': c['idle'], 'sharp': c['sharp'], 'dur': 500,
         'fail': c['point'] == 'run-fail'}
    w = cw.World([h], with_killer=False)
    try:
        with vloop.running(w.loop), cw.quiet():
            w.act({'op': 'create', 'uid': 'u0', 'match': ['t']})
            first_run = 1000 if c['idle'] else 0
            if c['point'].startswith('run'):
                w.run_to(first_run + 250)
            else:
                w.run_to(first_run + 500 + 250)          # asleep after the first run (or exited, for one-shots)
            inst = w.instances.get(0)
            if inst is None:
                raise cw.ObservationPointMissing('timer instance not spawned')
            if inst['ended'] is not None:
                return None                               # one-shot timer already over: nothing to stop
            if c['point'] == 'run-reset':
                inst['memory'].idle_reset_time = w.loop.time()
            before = w.sleeps
            from kopf._core.intents import stoppers
            inst['stopper'].set(reason=stoppers.DaemonStoppingReason.OPERATOR_EXITING)
            w.run_to(w.now() + 3000)
            return bool(w.stalls), w.sleeps - before, inst['ended'] is not None, list(w.stalls), h
    finally:
        w.close()


def d_timer(ctx: fw.Ctx) -> list[fw.Case]:
    cases = []
    pts = []
    for interval in (None, 1000):
        for idle in (None, 1000):
            for sharp in (False, True):
                for point in ('run', 'run-reset', 'run-fail', 'sleep'):
                    pts.append({'interval': interval, 'idle': idle, 'sharp': sharp, 'point': point})
    for c in pts:
        res = run_timer_case(c)
        if res is None:
            continue
        stalled, n, ended, stalls, h = res
        if c['point'] == 'sleep':
            # where the coroutine sleeps after a successful run: interval sleep (TTop after wake-up) or the idle-only loop
            p = 'TIdleOnly' if (c['interval'] is None and c['idle'] is not None) else 'TTop'
            ra = 'false'
        else:
            p = f"(TAfterRun {cq.cbool(c['point'] != 'run-fail')})"
            ra = cq.cbool(c['point'] == 'run-reset')
        tc = f"{{| t_interval := {c_oz(c['interval'])}; t_idle := {c_oz(c['idle'])}; t_sharp := {cq.cbool(c['sharp'])} |}}"
        call = f'timer_tail true {tc} {ra} 12 {p}'      # the faithful model: the idle-only loop tests the stopper (ba077d7)
        if stalled:
            term = f'match {call} with None => true | Some _ => false end'
        else:
            # the sleep interrupted by the set() itself was entered before it: not counted on either side
            term = f'match {call} with Some n => Nat.eqb n {cq.cnat(n)} | None => false end'
        cases.append(fw.Case(term, {**c, 'stalled': stalled, 'sleeps_after_stop': None if stalled else n, 'ended': ended}, diag=call))
        ctx.count('timer_tail', 'stall' if stalled else 'exit')
        data = {'table': 'timer', 'handler': {k: h[k] for k in ('kind', 'interval', 'idle', 'sharp')}, 'point': c['point']}
        for s in stalls:
            ctx.fail('a coroutine of the operator spins without yielding to the event loop (the whole operator is blocked)',
                     {**data, 'stall': s}, observed=s, sig='stall')
        if not stalled and not ended:
            ctx.fail('a timer whose stop flag is set did not end', data, sig='timer-not-ended')
    return cases


# ----------------------------------------------------------------------------------------- D: what a pass of the killer picks
def ksweep_cases(ctx: fw.Ctx, sc: dict, w: cw.World) -> list[fw.Case]:
    """Every pass of daemon_killer: the daemons it schedules a stop_daemon for, per memory, against `ksnap_sers` evaluated on the
    memory as the implementation held it when the first of them was scheduled (= when its daemons were snapshotted)."""
    order = [h['id'] for h in sc['handlers']]
    idx = {hid: k for k, hid in enumerate(order)}
    specs = {h['id']: h for h in sc['handlers']}
    cases = []
    passes: list[list[dict]] = []
    for e in w.log:
        if e['kind'] == 'kpass':
            passes.append([])
        elif passes and e['kind'] in ('kenter', 'ksweep'):
            passes[-1].append(e)
    # monitor: a daemon that a pass found running when it listed the memory and that is still running when the next pass starts
    # (or the log ends) must have had its stop scheduled by that pass — unless the pass was cut short by the operator's exit
    bounds = [e['seq'] for e in w.log if e['kind'] == 'kpass'] + [10 ** 12]
    exit_seqs = [e['seq'] for e in w.log if e['kind'] == 'act' and e.get('op') == 'exit']
    close_seq = getattr(w, 'close_seq', 10 ** 12)
    ended_at = {e['ser']: e['seq'] for e in w.log if e['kind'] == 'end' and e['seq'] <= close_seq}
    for k, evs in enumerate(passes):
        lo, hi = bounds[k], bounds[k + 1]
        if w.killer_crash is not None or any(lo < x < hi for x in exit_seqs):
            continue
        swept = {e['ser'] for e in evs if e['kind'] == 'ksweep'}
        pause_acts = [x['seq'] for x in w.log if x['kind'] == 'act' and x.get('op') == 'pause' and x['seq'] < lo]
        since = pause_acts[-1] if pause_acts else 0
        for e in evs:
            if e['kind'] != 'kenter' or not e.get('snap'):
                continue
            missed = [r_ for r_ in e['snap']['running']
                      if r_['ser'] not in swept and ended_at.get(r_['ser'], 10 ** 12) > min(hi, close_seq)]
            if not missed:
                continue
            uid = e['uid']
            # correspondence: the model's pass schedules every running daemon of a listed memory, this one scheduled fewer
            run = cq.clist(
                cq.cpair(cq.cnat(idx[r_['id']]),
                         f"{{| i_ser := {cq.cnat(_local_ser(w, uid, r_['ser']))}; i_h := {c_hcfg(specs[r_['id']])}; "
                         f"i_sp := {c_stopper(r_['when'], r_['reasons'], r_['when'] is not None)}; i_canc := false |}}")
                for r_ in missed)
            st = (f"{{| o_running := {run}; o_forever := nil; o_live := nil; o_next := 0%nat; o_known := true; "
                  f"o_gone := false; o_kstop := nil; o_kiter := false; o_delays := nil |}}")
            cases.append(fw.Case(f"nlist_eqb (ksnap_sers {st}) nil",
                                 {'scenario': sc, 'uid': uid, 't': e['t'], 'running_throughout_the_pass_but_not_scheduled': [r_['id'] for r_ in missed]},
                                 diag=f"ksnap_sers {st}"))
            ctx.count('killer_pass', 'MISMATCH: running daemon not scheduled by a pass')
            # property: it is a failure when the killer has not started ANY stop_daemon for that daemon since the pause began:
            # then nothing escalates its stop while the streams are frozen (a re-scan skipping a daemon it already handles is not)
            for r_ in missed:
                handled = any(x['kind'] == 'kstop_begin' and x['ser'] == r_['ser'] and since < x['seq'] < hi for x in w.log)
                if not handled:
                    ctx.fail('a pass of the daemon killer skipped a running daemon for which it has not started any stop procedure',
                             {'scenario': sc, 'uid': uid, 'id': r_['id'], 't': e['t'], 'reasons_at_listing': r_['reasons']},
                             observed={'scheduled_in_this_pass': sorted(_local_ser(w, uid, x) for x in swept if x in w.instances and w.instances[x]['uid'] == uid)},
                             sig='killer-skipped')
    for evs in passes:
        listed = {e['uid'] for e in evs if e['kind'] == 'kenter'}
        by_uid: dict[str, list[dict]] = {}
        for e in evs:
            if e['kind'] == 'ksweep' and e['ser'] in w.instances:
                by_uid.setdefault(w.instances[e['ser']]['uid'], []).append(e)
        for uid in sorted(listed | set(by_uid)):
            sw = by_uid.get(uid, [])
            if not sw:
                ctx.count('killer_pass', 'listed memory without running daemons (or none left when reached)')
                continue
            snap = sw[0]['snap']
            run = cq.clist(
                cq.cpair(cq.cnat(idx[r['id']]),
                         f"{{| i_ser := {cq.cnat(_local_ser(w, uid, r['ser']))}; i_h := {c_hcfg(specs[r['id']])}; "
                         f"i_sp := {c_stopper(r['when'], r['reasons'], r['when'] is not None)}; i_canc := false |}}")
                for r in snap['running'])
            st = (f"{{| o_running := {run}; o_forever := nil; o_live := nil; o_next := 0%nat; o_known := {cq.cbool(uid in listed)}; "
                  f"o_gone := false; o_kstop := nil; o_kiter := false; o_delays := nil |}}")
            got = [_local_ser(w, uid, e['ser']) for e in sw]
            cases.append(fw.Case(f"nlist_eqb (ksnap_sers {st}) {cq.clist(cq.cnat(x) for x in got)}",
                                 {'scenario': sc, 'uid': uid, 't': sw[0]['t'], 'listed': uid in listed, 'snapshot': snap, 'scheduled': got},
                                 diag=f"ksnap_sers {st}"))
            ctx.count('killer_pass', f"{sw[0]['reason'][0]}: {min(len(got), 3)}{'+' if len(got) > 3 else ''} daemon(s) scheduled")
            # monitor: the pass must take every running daemon of a memory it lists, and none of a memory it does not list
            want = [r['ser'] for r in snap['running']]
            if uid in listed and sorted(want) != sorted(e['ser'] for e in sw):
                ctx.fail('a pass of the daemon killer did not schedule the stop of every running daemon of a memory it holds',
                         {'scenario': sc, 'uid': uid, 't': sw[0]['t']}, observed=got, expected=want, sig='killer-skipped')
    return cases


# ----------------------------------------------------------------------------------------- D: _daemon under a set stopper
def run_daemon_case(c: dict) -> tuple:
    h = {'id': 'd', 'kind': 'daemon', 'temper': c['temper'], 'dur': 500, 'backoff': None, 'timeout': None, 'polling': None}
    w = cw.World([h], with_killer=False)
    try:
        with vloop.running(w.loop), cw.quiet():
            w.act({'op': 'create', 'uid': 'u0', 'match': ['d']})
            w.run_to(250 if c['point'] == 'run' else 750)      # inside the function / inside the retry-delay sleep
            inst = w.instances.get(0)
            if inst is None:
                raise cw.ObservationPointMissing('daemon instance not spawned')
            before = w.sleeps
            from kopf._core.intents import stoppers
            inst['stopper'].set(reason=stoppers.DaemonStoppingReason.OPERATOR_EXITING)
            w.run_to(w.now() + 3000)
            return bool(w.stalls), w.sleeps - before, inst['ended'] is not None, list(w.stalls)
    finally:
        w.close()


def d_daemon_tail(ctx: fw.Ctx) -> list[fw.Case]:
    cases = []
    for c in ({'temper': 'retry', 'point': 'run'}, {'temper': 'retry', 'point': 'sleep'}, {'temper': 'own', 'point': 'run'},
              {'temper': 'obeys', 'point': 'run'}):
        stalled, n, ended, stalls = run_daemon_case(c)
        p = 'DTop' if c['point'] == 'sleep' else f"(DAfterRun {cq.cbool(c['temper'] == 'retry')})"
        call = f'daemon_tail 6 {p}'
        term = (f'match {call} with None => true | Some _ => false end' if stalled
                else f'match {call} with Some n => Nat.eqb n {cq.cnat(n)} | None => false end')
        cases.append(fw.Case(term, {**c, 'stalled': stalled, 'sleeps_after_stop': n, 'ended': ended}, diag=call))
        ctx.count('daemon_tail', f"{c['temper']}/{c['point']}: {'stall' if stalled else 'exit'}")
        data = {'table': 'daemon', **c}
        for s_ in stalls:
            ctx.fail('a coroutine of the operator spins without yielding to the event loop (the whole operator is blocked)',
                     {**data, 'stall': s_}, observed=s_, sig='stall')
        if not stalled and not ended:
            ctx.fail('a daemon whose stop flag is set and whose function returned did not end', data, sig='daemon-not-ended')
    return cases


# ----------------------------------------------------------------------------------------- known findings
# F1 (idle-only timer busy loop, fixed by ba077d7) and F901 (daemon_killer dict iteration, fixed by c948bdc) are FIXED: a stall or a
# killer crash is a VIOLATION again; their corpus witnesses are regression cases that must pass.
def match_f7(f: dict) -> bool:
    """F7: DELETED without deletionTimestamp — the daemon is not even flagged."""
    c = f['case']
    if f['sig'] in ('not-stopped-on-disappear', 'spawned-on-disappear'):
        ev = c.get('event') or {}
        return ev.get('type') == 'DELETED' and ev.get('deletionTimestamp') is False
    if f['sig'] == 'orphan-not-stopped':
        ev = c.get('orphaned_by') or {}
        return ev.get('type') == 'DELETED' and ev.get('deletionTimestamp') is False and c.get('flagged') is False
    return False


def match_f702(f: dict) -> bool:
    """F702: the object of a RUNNING, already FLAGGED instance disappeared (DELETED delivered: forced removal): the rest of the
    protocol for exactly that instance is lost — no cancellation after the backoff, no abandonment after the timeout, not
    reached by pause/exit.  Anything else (early stages, wrong order, a non-orphan) is not matched."""
    if f['sig'] not in ('cancel-late', 'abandon-late', 'orphan-not-stopped'):
        return False
    c = f['case']
    ev = c.get('orphaned_by') or {}
    if ev.get('type') != 'DELETED' or c.get('flagged') is not True or c.get('running_when_object_disappeared') is not True:
        return False
    if f['sig'] in ('cancel-late', 'abandon-late'):
        # the missing stage was due only after the object had gone (before that the cycles still ran: a real violation)
        exp = f.get('expected') or {}
        due = exp.get('cancel_at', exp.get('abandon_at'))
        return due is not None and due > ev['t']
    return True


# ----------------------------------------------------------------------------------------- run / replay
def corpus() -> list[dict]:
    out = []
    d = fw.ROOT / 'corpus' / 'C09'
    for p in sorted(d.glob('*.json')):
        out.append(json.loads(p.read_text()))
    return out


def nontrivial(w: cw.World) -> bool:
    if not w.instances:
        return False
    staged = any(e['kind'] == 'set' and e['reason'] != ['DONE'] for e in w.log)
    runs = sum(len(i['runs']) for i in w.instances.values())
    return staged or runs >= 2


def run(ctx: fw.Ctx) -> int:
    ctx.matchers = {'F7': match_f7, 'F702': match_f702}
    ctx.proofs()
    ok, logtxt = fw.build_models(['Model/Daemons.v'])
    if not ok:
        ctx.correspondence_break('model build', logtxt[-1500:])
        return ctx.finish(RULE)
    with cw.wall_backstop(ctx.scale(170, 1150)):
        try:
            s_tie(ctx)
            ctx.differential('stopper', HEADER, d_stopper(ctx), shard=150)
            ctx.differential('stage', HEADER, d_stage(ctx), shard=150)
            ctx.differential('linear', HEADER, d_linear(ctx), shard=150)
            ctx.differential('timer', HEADER, d_timer(ctx), shard=150)
            ctx.differential('daemon_tail', HEADER, d_daemon_tail(ctx), shard=150)
            hist: list[fw.Case] = []
            ksw: list[fw.Case] = []
            scs = corpus()
            ncorpus = len(scs)
            n = ctx.scale(500, 12000)
            while len(scs) < ncorpus + n:
                scs.append(gen_scenario(ctx.rng))
            for k, sc in enumerate(scs):
                with cw.quiet():
                    w = run_scenario(sc)
                monitors(ctx, sc, w)
                hist += history_cases(ctx, sc, w)
                ksw += ksweep_cases(ctx, sc, w)
                if nontrivial(w):
                    ctx.nontriv(sc)
                if k >= ncorpus:
                    ctx.sample({'handlers': sc['handlers'], 'actions': sc['actions']}, limit=4)
                ctx.count('scenario', 'corpus' if k < ncorpus else 'generated')
                for h in sc['handlers']:
                    ctx.count('handler', h['kind'] + ':' + (h.get('temper') or
                              ('interval' if h.get('interval') else '') + ('+idle' if h.get('idle') else '') or 'one-shot'))
                for a in sc['actions']:
                    ctx.count('action', a['op'])
                for i in w.instances.values():
                    rs = set()
                    for (_, r) in i.get('sets', []):
                        rs |= set(r or [])
                    for r in rs:
                        ctx.count('reason_reached', r)
            ctx.differential('history', HEADER, hist, shard=40)
            ctx.differential('ksweep', HEADER, ksw, shard=150)
        except cw.Hang as exc:
            ctx.fail('the check itself was blocked: a coroutine of the operator never yields', {'hang': str(exc)}, sig='hang')
    return ctx.finish(RULE, level_note=[
        'model assumes settings.background.instant_exit_timeout=None (default): no virtual time passes inside stop_daemons',
        'user daemon/timer functions are oracles (answers of task.done() after each instant-exit wait; reaction times)',
        'kv.vloop (CPython 3.12 asyncio internals), c09_world fake cluster and application.apply stand-in',
        'environment assumption of the LTS: no event is delivered for a uid after its DELETED event'])


def replay(ctx: fw.Ctx, body: dict) -> bool:
    ctx.matchers = {'F7': match_f7, 'F702': match_f702}
    case = body.get('case') or {}
    sig = body.get('sig')
    if 'scenario' in case:
        with cw.quiet(), cw.wall_backstop(120):
            w = run_scenario(case['scenario'])
        fails = monitors(ctx, case['scenario'], w, report=False)
        sub = fw.Ctx(ctx.prop, ctx.tier, ctx.seed)
        sub.matchers = ctx.matchers
        ksweep_cases(sub, case['scenario'], w)
        fails += [{'sig': f['sig']} for f in sub.failures]
        return any(f['sig'] == sig for f in fails) if sig else bool(fails)
    if case.get('table') == 'stage':
        n0 = len(ctx.failures)
        rig = Rig()
        with vloop.running(rig.loop), cw.quiet():
            r = run_stage_case(rig, case)
        rig.close()
        print('stage case now gives:', {k: r[k] for k in ('acts', 'delays', 'cancel', 'done')})
        sub = fw.Ctx(ctx.prop, ctx.tier, ctx.seed)
        return _restage(sub, case)
    if case.get('table') == 'timer':
        c = {**case['handler'], 'point': case['point']}
        with cw.wall_backstop(120):
            res = run_timer_case(c)
        if res is None:
            return False
        print('timer case now gives:', {'stalled': res[0], 'sleeps_after_stop': res[1], 'ended': res[2]})
        return bool(res[0] or not res[2])
    if case.get('table') == 'linear':
        rig = Rig()
        with vloop.running(rig.loop), cw.quiet():
            r = run_linear_case(rig, case)
        rig.close()
        print('linear case now gives:', r['trace'], 'end', r['end'])
        bo = case['h'].get('backoff') if case['h']['kind'] == 'daemon' else None
        to = case['h'].get('timeout') if case['h']['kind'] == 'daemon' else None
        ab = [t for (t, a) in r['trace'] if a == 'DAEMON_ABANDONED']
        return bool((r['cancel_at'] is not None and (to is None or r['cancel_at'] - r['t0'] < (bo or 0)))
                    or (ab and ab[0] - r['t0'] < (bo or 0) + (to or 0)) or r['end'] - r['t0'] > (bo or 0) + (to or 0)
                    or not r['trace'] or r['trace'][0][1] != case['why'] or (not r['done'] and not ab))
    print('nothing replayable in this file (proof or correspondence break without a failing input)')
    return False


def _restage(ctx: fw.Ctx, case: dict) -> bool:
    rig = Rig()
    with vloop.running(rig.loop), cw.quiet():
        r = run_stage_case(rig, case)
    rig.close()
    when, pr = r['pre_state'][0], r['post_state'][1]
    age = 0 if when is None else r['now'] - when
    bo = case['h'].get('backoff') if case['h']['kind'] == 'daemon' else None
    to = case['h'].get('timeout') if case['h']['kind'] == 'daemon' else None
    return bool(case['why'] not in (pr or []) or (r['cancel'] and (to is None or age < (bo or 0)))
                or ('DAEMON_ABANDONED' in r['acts'] and (to is None or age < (bo or 0) + to))
                or (not r['done'] and not r['delays'] and 'DAEMON_ABANDONED' not in (pr or []))
                or (not r['done'] and not case['done0'] and to is not None and (bo or 0) <= age < (bo or 0) + to
                    and 'DAEMON_CANCELLED' not in (pr or [])))
